"""C18 - TAP streams are interpreted per the specification (DESIGN section 2 C18, data sheets A.4 / A.17).

Everything is decided from structure (FAMILY POLICY): `TAPParser.parse_line` is cut into its own sections - the
state/blank prefix, the body under each `m = <regex>.match(line); if m:`, the unknown-line tail, the end-of-stream
branch - and each section is an ordered decision table (sa.rules.c18_rows on top of sa.paths / sa.tables: atoms
versioned by the reaching definition of `m`, `line` and of the fields written on the row).  The rules compare,
on every world of a table's atoms, the row that fires with the reference row of DESIGN A.17 *symbolically*:
which event constructors are yielded with which operands (capture-group roles read from the regex structure),
which field gets which normalised expression.  No function body is interpreted on values.
"""
from __future__ import annotations

import ast
import re
import typing as T

from ..core import Module, Undecided, AnchorMissing, attr_chain, call_name, norm, short, walk_no_nested
from ..report import Rule, RuleCtx
from ..paths import enumerate_paths
from ..cfg import CFG
from ..consteval import Folder, Regex
from ..tables import Atom, canon
from .. import rx, tables
from . import c18_rx
from .c18_rows import Row, Eff, Normal, build, compare, param_names, unroll_constant_loops, _Sub

MTEST = 'mesonbuild/mtest.py'
PARSER = 'TAPParser'
RUNNER = 'TestRunTAP'
INT_MAX_STR_DIGITS = 4300

EXPLANATION = (
    'Decides structural clauses of C18 from ordered decision tables of the sections of TAPParser.parse_line (state/blank prefix, '
    'one table per `m = REGEX.match(line); if m:` body, unknown-line tail, end-of-stream branch), of parse_test and of '
    'TestRunTAP.parse/complete, with atoms versioned by reaching definitions and outcomes compared symbolically with the A.17 '
    'reference rows: R1 constant propagation of `state` over its three folded constants on the CFG (the assertion state == _MAIN '
    'holds, YAML is entered only from AFTER_TEST) plus the prefix table (YAML only for version >= 13 on a YAML-start line, end / '
    'body / unterminated rows; a blank line - empty after removing trailing white space - yields no event in any state: inside a YAML block it is part of the block whether or not it carries the indentation; worlds "blank and YAML marker" pruned by a regex-language fact) and "every test-line row ends in AFTER_TEST, nothing else writes it"; R2 event constructors and '
    'operand roles per row for test / plan / Bail out / version / unknown / end-of-stream and the seven parse_test rows, the six '
    'line forms denoted by the regex constants (group roles from the regex structure, specification samples, pairwise disjoint; a directive group that also captures a word that is neither SKIP... nor TODO - e.g. TODOS, TODO-later - is reported; the number groups of the test / plan / version patterns match ASCII digits only - no \\d without the ASCII flag; the status word of the test pattern is delimited: ok / not ok continued by a word character - okay, ok_then, ok1 - is no test line, while ok, ok 1, ok - d, ok # SKIP are), '
    'parse/parse_async pass every line then exactly one EOF (second call, chained None marker, or a private pass-through generator that yields the marker); R3 per-row effect shapes num_tests+1 once, last_test := last_test+1 '
    'if the number group is None else int(group), highest_test := max(highest_test, new last_test), beyond-plan test is '
    'plan.num_tests < new last_test, lineno+1 once, and the retention clause (if a test number is used only for last_test, the running maximum, the plan bound and the Test event, duplicates with count == maximum cannot be reported; a running sum `field += number` is one more scalar: `1,1,4,4` and `1,2,3,4` agree on count, maximum and sum); R4 int() fed by a capture group whose language is an unbounded digit run must (and text conversion of a number that can be such an int + 1 must) '
    'be guarded by a ValueError handler (CFG), group indices exist, optional groups / self.plan / Optional parameters are only '
    'dereferenced under a guard atom, constructor arity, no reachable raise; R5 the is_bad set and the verdict fold as decision '
    'tables over event-kind atoms with constant propagation of the verdict local. NOT decided: numeric behaviour of the counters '
    'on concrete streams, that the regexes tokenise arbitrary text as the TAP grammar beyond the stated samples/roles, '
    'TestRun._complete and the harness.')
ASSUMPTIONS = [
    f'CPython int(str) raises ValueError beyond {INT_MAX_STR_DIGITS} digits (default int_max_str_digits, Python >= 3.11)',
    're.match binds group n to the n-th parenthesis of the pattern; a group under an optional construct may be None',
    'lines handed to parse_line are str or None (annotation of parse / parse_async)',
    'TestRun.res is RUNNING or a harness verdict when TestRunTAP.parse starts; parse_test writes no parser field (checked)',
]
TECHNIQUE = ('sectioned ordered decision tables (path enumeration, canonical atoms versioned by reaching definitions, world enumeration) with '
             'symbolic row outcomes vs reference rows; CFG constant propagation of the state field; regex-structure/language facts; CFG exception edges')

FORM_OF = {'_RE_TEST': 'test', '_RE_PLAN': 'plan', '_RE_BAILOUT': 'bailout', '_RE_VERSION': 'version',
           '_RE_YAML_START': 'yaml_start', '_RE_YAML_END': 'yaml_end'}
MAIN_KINDS = ('test', 'plan', 'bailout', 'version')
FIELDS = ('state', 'yaml_lineno', 'yaml_indent', 'version', 'plan', 'bailed_out', 'found_late_test', 'num_tests', 'last_test', 'highest_test', 'lineno')


_MISSING = object()


class _Folder(Folder):
    """sa.consteval cannot fold `<compiled regex>.pattern` (engine gap); add just that."""

    def _getattr(self, v: T.Any, a: str, e: ast.AST) -> T.Any:
        if isinstance(v, Regex) and a in ('pattern', 'flags'):
            return getattr(v, a)
        return super()._getattr(v, a, e)


class Section(T.NamedTuple):
    kind: str
    regex: str
    table: tables.Table
    node: ast.If


class Facts:
    """Folded constants, regex line forms, NamedTuple fields and the sectioned tables of parse_line."""

    def __init__(self, ctx: RuleCtx):
        self.repo = ctx.repo
        self.mod = mod = ctx.repo.module(MTEST)
        self.cls = mod.cls(PARSER)
        self.parse_line = unroll_constant_loops(mod.func(f'{PARSER}.parse_line'))      # normal form: loops over constant displays unrolled
        self.parse_test = unroll_constant_loops(mod.func(f'{PARSER}.parse_test'))
        self._consts: T.Dict[str, T.Any] = {}
        self.states = self._find_states()
        self.regexes: T.Dict[str, Regex] = {}
        self.forms: T.Dict[str, T.Tuple[str, c18_rx.Form]] = {}
        self.form_problems: T.List[T.Tuple[str, str, str, str]] = []
        for n, kind in FORM_OF.items():
            v = self.fold(n)
            if not isinstance(v, Regex):
                raise Undecided(f'{PARSER}.{n} does not fold to a compiled pattern: {v!r}')
            self.regexes[n] = v
            form = c18_rx.line_form(v.pattern, v.flags)
            if form is not None and form.kind == kind:
                self.forms[kind] = (n, form)
            else:
                probs = c18_rx.diagnose(v.pattern, v.flags, kind) or [('structure', f'denotes the {form.kind if form else "?"} form')]
                self.form_problems.extend((n, kind, cat, txt) for cat, txt in probs)
        self.tuples: T.Dict[str, T.List[str]] = {}
        for st in self.cls.body:
            if isinstance(st, ast.ClassDef) and any((attr_chain(b) or '').endswith('NamedTuple') for b in st.bases):
                self.tuples[st.name] = [x.target.id for x in st.body if isinstance(x, ast.AnnAssign) and isinstance(x.target, ast.Name)]
        self._sections: T.Optional[T.Any] = None

    def helper(self, name: str) -> T.Optional[T.Any]:
        """A private method of the parser that parse_line / parse_test may call as a statement; its paths are spliced into the rows."""
        if name.startswith('.'):      # a private module-level function of mtest.py
            fn = self.mod.funcs().get(name[1:])
            return fn if fn is not None and name[1:].startswith('_') and '.' not in name[1:] and isinstance(fn, ast.FunctionDef) else None
        if name in ('parse_line', 'parse', 'parse_async'):
            return None
        if name == 'parse_test' and not self.writes(name):
            return None          # judged by its own table; only its operands matter to the caller
        return self.mod.methods(PARSER).get(name)

    def text_const(self, chain: str) -> T.Optional[str]:
        """`self._SKIP` / `TAPParser._SKIP` / a module-level NAME that folds to a text -> that text."""
        head, _, tail = chain.rpartition('.')
        if not hasattr(self, '_stored'):
            self._stored = {n.attr for n in ast.walk(self.mod.tree) if isinstance(n, ast.Attribute) and isinstance(n.ctx, ast.Store)}
        try:
            if head in ('self', PARSER, 'cls') and tail and tail not in FORM_OF and tail not in self._stored:   # a constant, not a field with a default
                v = self.fold(tail)
            elif not head and self.mod.has_assign(chain):
                v = _Folder(self.repo, self.mod).fold(self.mod.assign_value(chain))
            else:
                return None
        except (AnchorMissing, Undecided):
            return None
        return v if isinstance(v, str) else None

    def display_of(self, chain: str) -> T.Optional[ast.Dict]:
        """`self._TABLE` / `TAPParser._TABLE` / module-level `_TABLE` bound once to a dict display (a constant table)."""
        head, _, tail = chain.rpartition('.')
        if not hasattr(self, '_stored'):
            self.text_const('self.x')
        scope: T.Optional[ast.AST] = None
        if head in ('self', PARSER, 'cls', RUNNER):
            for cn in (PARSER, RUNNER):
                c = self.mod.cls(cn)
                if self.mod.has_assign(tail, c):
                    scope = c
                    break
            if scope is None:
                return None
        elif head:
            return None
        if tail in self._stored or not self.mod.has_assign(tail, scope):
            return None
        v = self.mod.assign_value(tail, scope)
        return v if isinstance(v, ast.Dict) and all(k is not None for k in v.keys) else None

    def normal(self, owner: str = PARSER) -> Normal:
        n = Normal(owner, self.text_const, self.display_of)
        n.nonnull = self.is_enum_member
        n.records = dict(self.tuples)
        return n

    def is_enum_member(self, text: str) -> bool:
        """`TestResult.ERROR`: a member the module-level Enum class declares (never None)."""
        head, _, tail = text.rpartition('.')
        if not head or '.' in head or not tail.isidentifier() or not head.isidentifier():
            return False
        cls = next((st for st in self.mod.tree.body if isinstance(st, ast.ClassDef) and st.name == head
                    and any((attr_chain(b) or '').split('.')[-1] in ('Enum', 'IntEnum', 'Flag', 'IntFlag', 'StrEnum') for b in st.bases)), None)
        return cls is not None and any(isinstance(st, ast.Assign) and any(isinstance(t, ast.Name) and t.id == tail for t in st.targets) for st in cls.body)

    def default(self, name: str) -> T.Any:
        """Initial value of a parser field: the class-level default, or the value `__init__` stores unconditionally."""
        if self.mod.has_assign(name, self.cls):
            c0 = attr_chain(self.mod.assign_value(name, self.cls)) or ''
            if c0.count('.') == 1 and self.const_key(c0) is not None:       # `state = _State.MAIN`
                return self.const_value(T.cast(str, self.const_key(c0)))
        if self.mod.has_assign(name, self.cls) or any(isinstance(st, ast.Assign) and isinstance(st.targets[0], (ast.Tuple, ast.List)) and
                                                      name in [getattr(t, 'id', None) for t in st.targets[0].elts] for st in self.cls.body):
            return self.fold(name)
        init = self.mod.methods(PARSER).get('__init__')
        if init is not None:
            for st in init.body:
                tgt = st.targets[0] if isinstance(st, ast.Assign) and len(st.targets) == 1 else (st.target if isinstance(st, ast.AnnAssign) else None)
                if tgt is not None and attr_chain(tgt) == f'self.{name}' and getattr(st, 'value', None) is not None:
                    v = st.value
                    c = attr_chain(v) or ''
                    head, _, tail = c.rpartition('.')
                    if self.const_key(c) is not None and c.split('.')[0] in ('self', PARSER, 'cls'):
                        return self.const_value(T.cast(str, self.const_key(c)))
                    if head in ('self', PARSER, 'cls') and tail:
                        return self.fold(tail)
                    return _Folder(self.repo, self.mod, self.cls).fold(v)
        raise Undecided(f'{PARSER}: no initial value found for the field {name} (class default or __init__)')

    def writes(self, name: str) -> T.Set[str]:
        """Parser fields a method stores into."""
        fn = self.mod.methods(PARSER).get(name)
        if fn is None:
            return set()
        return {n.attr for n in walk_no_nested(fn) if isinstance(n, ast.Attribute) and isinstance(n.ctx, ast.Store) and n.attr in FIELDS
                and attr_chain(n.value) == 'self'}

    def reach(self) -> T.Set[str]:
        """parse_line and the helpers it calls as statements (two levels), i.e. the functions the tables cover."""
        meths = self.mod.methods(PARSER)
        seen = {'parse_line'}
        level = ['parse_line']
        for _ in range(2):
            nxt = []
            for q in level:
                for n in walk_no_nested(self.parse_line if q == 'parse_line' else meths[q]):     # parse_line in its normal form (constant loops unrolled)
                    if isinstance(n, (ast.Expr, ast.Assign, ast.AnnAssign)) and getattr(n, 'value', None) is not None:
                        c = n.value.value if isinstance(n.value, ast.YieldFrom) else n.value
                        if isinstance(c, ast.Call) and isinstance(c.func, ast.Attribute) and attr_chain(c.func.value) == 'self' \
                                and self.helper(c.func.attr) is not None and c.func.attr not in seen:
                            seen.add(c.func.attr)
                            nxt.append(c.func.attr)
            level = nxt
        return seen

    def fold(self, name: str) -> T.Any:
        """Fold a class-level constant; also one bound by tuple unpacking (`A, B, C = range(1, 4)` / `= 1, 2, 3`)."""
        if name in self._consts:
            return self._consts[name]
        val: T.Any
        if self.mod.has_assign(name, self.cls):
            unpacked = {t.id for st in self.cls.body if isinstance(st, ast.Assign) and len(st.targets) == 1 and isinstance(st.targets[0], (ast.Tuple, ast.List))
                        for t in st.targets[0].elts if isinstance(t, ast.Name)}
            outer = self

            class _Pre(ast.NodeTransformer):     # names bound by tuple unpacking are not visible to sa.consteval: fold them first
                def visit_Name(self, n: ast.Name) -> ast.AST:
                    if n.id in unpacked and n.id != name:
                        v = outer.fold(n.id)
                        if v is None or isinstance(v, (bool, int, str)):
                            return ast.copy_location(ast.Constant(value=v), n)
                    return n
            val = _Folder(self.repo, self.mod, self.cls).fold(_Pre().visit(_copy(self.mod.assign_value(name, self.cls))))
        else:
            val = _MISSING
            for st in self.cls.body:
                if isinstance(st, ast.Assign) and len(st.targets) == 1 and isinstance(st.targets[0], (ast.Tuple, ast.List)):
                    names = [t.id if isinstance(t, ast.Name) else None for t in st.targets[0].elts]
                    if name in names:
                        seq = self._fold_seq(st.value)
                        if len(seq) != len(names):
                            raise Undecided(f'{PARSER}: `{short(st)}` unpacks {len(seq)} values into {len(names)} names')
                        val = seq[names.index(name)]
            if val is _MISSING:
                raise AnchorMissing(f'{MTEST}: {PARSER}.{name} not found')
        self._consts[name] = val
        return val

    def _fold_seq(self, v: ast.AST) -> T.List[T.Any]:
        if isinstance(v, ast.Call) and isinstance(v.func, ast.Name) and v.func.id == 'range' and not v.keywords and 1 <= len(v.args) <= 3:
            args = [_Folder(self.repo, self.mod, self.cls).fold(a) for a in v.args]
            if all(isinstance(a, int) and not isinstance(a, bool) for a in args):
                return list(range(*args))
        out = _Folder(self.repo, self.mod, self.cls).fold(v)
        if isinstance(out, (tuple, list)):
            return list(out)
        raise Undecided(f'{PARSER}: cannot fold the unpacked value `{short(v)}`')

    def const_key(self, chain: str) -> T.Optional[str]:
        """Canonical text (without the `self.` / `TAPParser.` / `cls.` lead-in) of a chain that denotes a class-level constant usable as a
        parser state: an integer constant `X`, or a member `E.M` of an Enum class nested in the parser (or at module level)."""
        parts = chain.split('.')
        if parts and parts[0] in ('self', PARSER, 'cls'):
            parts = parts[1:]
        if len(parts) == 1 and parts[0] and self._has_const(parts[0]):
            v = self.fold(parts[0])
            return parts[0] if isinstance(v, int) and not isinstance(v, bool) else None
        if len(parts) == 2:
            enum_cls = next((st for st in list(self.cls.body) + list(self.mod.tree.body) if isinstance(st, ast.ClassDef) and st.name == parts[0]
                             and any((attr_chain(b) or '').split('.')[-1] in ('Enum', 'IntEnum', 'Flag', 'IntFlag', 'StrEnum') for b in st.bases)), None)
            if enum_cls is not None and any(isinstance(st, ast.Assign) and any(isinstance(t, ast.Name) and t.id == parts[1] for t in st.targets)
                                            for st in enum_cls.body):
                return '.'.join(parts)
        return None

    def const_value(self, key: str) -> T.Any:
        return self.fold(key) if '.' not in key else ('enum member', key)

    def _has_const(self, name: str) -> bool:
        try:
            self.fold(name)
            return True
        except (AnchorMissing, Undecided):
            return False

    def _find_states(self) -> T.Dict[str, int]:
        """The three parser states {role: value}.  Found by their conventional names when these exist, otherwise by role: the
        constants `self.state` is assigned / compared with; _MAIN is the class default of `state`, _YAML the one assigned under the
        YAML-start match, _AFTER_TEST the remaining one."""
        roles = ('_MAIN', '_AFTER_TEST', '_YAML')
        self.state_names: T.Dict[str, str] = {}
        if all(self._has_const(r) for r in roles):
            out = {r: self.fold(r) for r in roles}
            self.state_names = {r: r for r in roles}
        else:
            used: T.Dict[str, T.Any] = {}
            yaml_names: T.Set[str] = set()

            def cname(e: ast.AST) -> T.Optional[str]:
                c = attr_chain(e) or ''
                return self.const_key(c) if c.split('.')[0] in ('self', PARSER, 'cls') else None
            for n in ast.walk(self.parse_line):
                if isinstance(n, ast.Assign) and any(attr_chain(t) == 'self.state' for t in n.targets) and cname(n.value):
                    used[T.cast(str, cname(n.value))] = n
                if isinstance(n, ast.Compare) and len(n.ops) == 1:
                    for x, y in ((n.left, n.comparators[0]), (n.comparators[0], n.left)):
                        if attr_chain(x) == 'self.state' and cname(y):
                            used[T.cast(str, cname(y))] = n
            def blocks(node: ast.AST) -> T.Iterator[T.List[ast.stmt]]:
                for fld in ('body', 'orelse', 'finalbody'):
                    blk = getattr(node, fld, None)
                    if isinstance(blk, list) and blk and isinstance(blk[0], ast.stmt):
                        yield blk
                        for st in blk:
                            yield from blocks(st)
                for h in getattr(node, 'handlers', []):
                    yield from blocks(h)
            for blk in blocks(self.parse_line):
                for i, n in enumerate(blk):
                    if not isinstance(n, ast.If):
                        continue
                    # the regex whose match this `if` tests: in the test itself (walrus / direct call) or bound by the statement just before
                    calls = [c for c in ast.walk(n.test) if isinstance(c, ast.Call) and isinstance(c.func, ast.Attribute) and c.func.attr == 'match']
                    prev = blk[i - 1] if i > 0 else None
                    tested = {x.id for x in ast.walk(n.test) if isinstance(x, ast.Name)}
                    if isinstance(prev, ast.Assign) and len(prev.targets) == 1 and isinstance(prev.targets[0], ast.Name) and prev.targets[0].id in tested \
                            and isinstance(prev.value, ast.Call) and isinstance(prev.value.func, ast.Attribute) and prev.value.func.attr == 'match':
                        calls.append(prev.value)
                    for c in calls:
                        tail = (attr_chain(c.func.value) or '').rpartition('.')[2]   # type: ignore[attr-defined]
                        try:
                            v = self.fold(tail) if tail else None
                        except (AnchorMissing, Undecided):
                            v = None
                        if isinstance(v, Regex):
                            form = c18_rx.line_form(v.pattern, v.flags)
                            if form is not None and form.kind == 'yaml_start':
                                for st in n.body:
                                    if isinstance(st, ast.Assign) and any(attr_chain(t) == 'self.state' for t in st.targets) and cname(st.value):
                                        yaml_names.add(T.cast(str, cname(st.value)))
            vals = {k: self.const_value(k) for k in used}
            init = self.default('state')
            main = [k for k, v in vals.items() if v == init]
            if len(set(vals.values())) != 3 or len(vals) != 3 or len(main) != 1 or len(yaml_names) != 1 or yaml_names == set(main):
                raise Undecided(f'{PARSER}: cannot identify the three parser states by role (constants used with self.state: {sorted(vals)})')
            y = next(iter(yaml_names))
            after = [k for k in vals if k not in (main[0], y)]
            out = {'_MAIN': vals[main[0]], '_YAML': vals[y], '_AFTER_TEST': vals[after[0]]}
            self.state_names = {'_MAIN': main[0], '_YAML': y, '_AFTER_TEST': after[0]}
        for r, v in out.items():
            if isinstance(v, bool) or not (isinstance(v, int) or (isinstance(v, tuple) and v and v[0] == 'enum member')):
                raise Undecided(f'{PARSER}: state {r} does not fold to an integer or an enum member: {v!r}')
        return out

    def state_of(self, text: str) -> T.Optional[str]:
        """'self._YAML' / 'TAPParser._YAML' (whatever the constant is called) -> the role '_YAML', by folded value."""
        if text.split('.')[0] not in ('self', PARSER, 'cls'):
            return None
        key = self.const_key(text)
        if key is None:
            return None
        v = self.const_value(key)
        hits = [r for r, x in self.states.items() if x == v]
        return hits[0] if len(hits) == 1 else None

    def require_forms(self) -> None:
        if self.form_problems:
            raise Undecided('the line-form atoms need all six regex constants to denote their TAP line form: '
                            + '; '.join(f'{n} ({k}): {t}' for n, k, c, t in self.form_problems[:4]))

    # -- capture groups -----------------------------------------------------------------------------
    def group_ref(self, e: ast.AST) -> T.Optional[T.Tuple[str, int, str]]:
        """`<self.RE.match(..)>.group(k)` / `[k]` -> (line form, k, regex constant)."""
        if isinstance(e, ast.Call) and isinstance(e.func, ast.Attribute) and e.func.attr == 'group' and len(e.args) == 1 and not e.keywords:
            m, k = e.func.value, e.args[0]
        elif isinstance(e, ast.Subscript):
            m, k = e.value, e.slice
        else:
            return None
        if not (isinstance(k, ast.Constant) and isinstance(k.value, (int, str)) and not isinstance(k.value, bool)):
            return None
        rn = self.match_of(m)
        if rn is None:
            return None
        for kind, (name, form) in self.forms.items():
            if name == rn:
                if isinstance(k.value, str):        # named group (?P<name>...)
                    if k.value not in form.names:
                        return kind, -1, rn          # no such group: IndexError at run time (reported by R4)
                    return kind, form.names[k.value], rn
                return kind, k.value, rn
        return None

    def match_of(self, m: ast.AST) -> T.Optional[str]:
        """`self.RE.match(<anything>)` -> 'RE' for a regex constant of the class."""
        if isinstance(m, ast.Call) and isinstance(m.func, ast.Attribute) and m.func.attr == 'match' and len(m.args) == 1:
            c = attr_chain(m.func.value) or ''
            head, _, tail = c.rpartition('.')
            if head in ('self', PARSER, 'cls') and tail in self.regexes:
                return tail
        return None

    def role(self, ref: T.Tuple[str, int, str]) -> T.Optional[str]:
        return self.forms[ref[0]][1].roles.get(ref[1])

    def role_ref(self, e: ast.AST, kind: str, role: str) -> bool:
        r = self.group_ref(e)
        return r is not None and r[0] == kind and self.role(r) == role

    # -- constructors ---------------------------------------------------------------------------------
    def ctor(self, e: ast.AST) -> T.Optional[T.Tuple[str, T.Dict[str, ast.AST], str]]:
        """`self.Plan(...)` -> ('Plan', {field: operand}, arity problem or '')."""
        if not isinstance(e, ast.Call):
            return None
        c = attr_chain(e.func) or ''
        head, _, tail = c.rpartition('.')
        if head not in ('self', PARSER, 'cls') or tail not in self.tuples:
            return None
        fields = self.tuples[tail]
        out: T.Dict[str, ast.AST] = {}
        prob = ''
        if len(e.args) > len(fields) or any(isinstance(a, ast.Starred) for a in e.args):
            prob = f'{tail}() takes {len(fields)} operands, {len(e.args)} positional given'
        for f_, a in zip(fields, e.args):
            out[f_] = a
        for k in e.keywords:
            if k.arg is None or k.arg not in fields or k.arg in out:
                prob = prob or f'{tail}() has no (free) field {k.arg!r}'
            else:
                out[k.arg] = k.value
        if not prob and set(out) != set(fields):
            prob = f'{tail}() misses {sorted(set(fields) - set(out))}'
        return tail, out, prob

    # -- sections of parse_line --------------------------------------------------------------------------
    def sections(self) -> 'Sections':
        if self._sections is None:
            self.require_forms()
            self._sections = Sections(self)
        return T.cast(Sections, self._sections)


class Sections:
    def __init__(self, f: Facts):
        fn = f.parse_line
        body = [s for s in fn.body if not (isinstance(s, ast.Expr) and isinstance(s.value, ast.Constant))]
        ps = param_names(fn)
        if len(ps) != 1:
            raise Undecided('parse_line: expected exactly one parameter (the line)')
        self.line = next(iter(ps))
        # leading pure local bindings (`error = self.Error`): single-definition names, read as their definition in every section
        lead: T.Dict[str, ast.AST] = {}
        stores: T.Dict[str, int] = {}
        for n_ in ast.walk(fn):
            if isinstance(n_, ast.Name) and isinstance(n_.ctx, (ast.Store, ast.Del)):
                stores[n_.id] = stores.get(n_.id, 0) + 1
        while len(body) > 1 and isinstance(body[0], (ast.Assign, ast.AnnAssign)):
            st0 = body[0]
            tg0 = st0.targets[0] if isinstance(st0, ast.Assign) and len(st0.targets) == 1 else (st0.target if isinstance(st0, ast.AnnAssign) else None)
            val0 = getattr(st0, 'value', None)
            if not (isinstance(tg0, ast.Name) and val0 is not None and stores.get(tg0.id) == 1 and tg0.id not in ps
                    and not any(isinstance(x, (ast.Call, ast.Yield, ast.YieldFrom, ast.Await, ast.NamedExpr, ast.Lambda, ast.Subscript)) for x in ast.walk(val0))
                    and not any(isinstance(x, ast.Attribute) and x.attr in FIELDS for x in ast.walk(val0))):
                break           # a call / a read of a mutable parser field is not a pure alias
            lead[tg0.id] = _Sub(dict(lead), ps).visit(_copy(val0))
            body = body[1:]
        if len(body) != 1 or not isinstance(body[0], ast.If):
            raise Undecided('parse_line: expected one top-level `if line is not None: ... else: ...`')
        top = body[0]
        a, v = canon(_Sub({}, ps).visit(_copy(top.test)), True)
        if a != Atom('is', ('ARG1', 'None')):
            raise Undecided(f'parse_line: top-level test is not `line is [not] None`: {short(top.test)}')
        text, eof = (top.orelse, top.body) if v else (top.body, top.orelse)

        def unwrap(owner: T.Any, blk: T.List[ast.stmt], arg_ok: T.Callable[[T.List[ast.AST]], bool]) -> T.Tuple[T.Any, T.List[ast.stmt]]:
            """A branch that only forwards to a private generator (`yield from self._text(line)`): judge that generator's body instead."""
            for _ in range(2):
                if len(blk) == 1 and isinstance(blk[0], ast.Expr) and isinstance(blk[0].value, ast.YieldFrom):
                    c = blk[0].value.value
                    if isinstance(c, ast.Call) and isinstance(c.func, ast.Attribute) and attr_chain(c.func.value) == 'self' and not c.keywords \
                            and f.mod.methods(PARSER).get(c.func.attr) is not None and c.func.attr not in ('parse_line', 'parse_test') and arg_ok(list(c.args)):
                        owner = f.mod.methods(PARSER)[c.func.attr]
                        if len(param_names(owner)) != len(c.args):
                            break
                        blk = [s_ for s_ in owner.body if not (isinstance(s_, ast.Expr) and isinstance(s_.value, ast.Constant))]
                        while len(blk) == 1 and isinstance(blk[0], ast.If) and isinstance(blk[0].test, ast.Constant) and blk[0].test.value and not blk[0].orelse:
                            blk = list(blk[0].body)
                        continue
                break
            return owner, blk
        line_name = self.line
        fn, text = unwrap(fn, text, lambda a: len(a) == 1 and isinstance(a[0], ast.Name) and a[0].id == line_name)
        eof_fn, eof = unwrap(f.parse_line, eof, lambda a: len(a) == 0)
        lead_text = lead if fn is f.parse_line else {}
        lead_eof = lead if eof_fn is f.parse_line else {}
        self.lead = lead
        self.text_fn, self.eof_fn = fn, eof_fn
        ps = param_names(fn)
        if fn is not f.parse_line:
            self.line = next(iter(ps))
        # the ladder of `m = RE.match(line); if m:` sections
        marks: T.List[T.Tuple[int, int, str, str, ast.AST, ast.If]] = []    # (first stmt index, if index, regex, var, match expr, if)
        for i, st in enumerate(text):
            if isinstance(st, ast.If):
                var, mexpr, first = None, None, i
                t = st.test
                if isinstance(t, ast.NamedExpr) and isinstance(t.target, ast.Name):
                    var, mexpr = t.target.id, t.value
                else:
                    nm = t.id if isinstance(t, ast.Name) else (t.left.id if isinstance(t, ast.Compare) and isinstance(t.left, ast.Name) and len(t.ops) == 1
                                                               and isinstance(t.ops[0], ast.IsNot) and isinstance(t.comparators[0], ast.Constant)
                                                               and t.comparators[0].value is None else None)
                    prev = text[i - 1] if i > 0 else None
                    if nm and isinstance(prev, ast.Assign) and len(prev.targets) == 1 and isinstance(prev.targets[0], ast.Name) and prev.targets[0].id == nm:
                        var, mexpr, first = nm, prev.value, i - 1
                rn = f.match_of(mexpr) if mexpr is not None else None
                if rn is not None and var is not None and FORM_OF.get(rn) in MAIN_KINDS:
                    if st.orelse:
                        raise Undecided(f'parse_line: the {rn} section has an else branch')
                    marks.append((first, i, rn, var, mexpr, st))   # type: ignore[arg-type]
        if not marks:
            raise Undecided('parse_line: no `m = REGEX.match(line); if m:` section found')
        between: T.Dict[int, T.Dict[str, ast.AST]] = {}      # pure local bindings found before the section starting at that index
        for (a1, b1, *_), (a2, *_) in zip(marks, marks[1:]):
            for st_ in text[b1 + 1:a2]:
                tg = st_.targets[0] if isinstance(st_, ast.Assign) and len(st_.targets) == 1 else (st_.target if isinstance(st_, ast.AnnAssign) else None)
                val = getattr(st_, 'value', None)
                if not (isinstance(tg, ast.Name) and val is not None and not any(isinstance(x, (ast.Call, ast.Yield, ast.YieldFrom, ast.Await, ast.NamedExpr))
                                                                                for x in ast.walk(val))):
                    raise Undecided(f'parse_line: `{short(st_, 60)}` between the line-form sections is not a pure local binding')
                between.setdefault(a2, {})[tg.id] = val
        kinds = [FORM_OF[mk[2]] for mk in marks]
        if sorted(kinds) != sorted(MAIN_KINDS):
            raise Undecided(f'parse_line: line-form sections found for {kinds}, expected one each of {list(MAIN_KINDS)}')
        self.match_exprs: T.List[T.Tuple[int, int, str, str, ast.AST]] = []
        self.pre, pre_exit = build(fn, text[:marks[0][0]], 'parse_line[state, blank/diagnostic]', dict(lead_text), helpers=f.helper, keep_forward=('parse_test',), normal=f.normal())
        pre_exit = {**lead_text, **pre_exit}
        self.by_kind: T.Dict[str, Section] = {}
        carried: T.Dict[str, ast.AST] = {}
        for first, i, rn, var, mexpr, st in marks:
            for nm, val in between.get(first, {}).items():       # a display bound between two sections is visible to the later ones
                carried[nm] = _Sub({**pre_exit, **carried}, ps).visit(_copy(val))
            seed = {**pre_exit, **carried}
            seed[var] = _Sub(seed, ps).visit(_copy(mexpr))
            self.match_exprs.append((first, i, rn, var, seed[var]))
            tab, _ = build(fn, st.body, f'parse_line[{FORM_OF[rn]} line]', seed, helpers=f.helper, keep_forward=('parse_test',), normal=f.normal())
            self.by_kind[FORM_OF[rn]] = Section(FORM_OF[rn], rn, tab, st)
        self.post, _ = build(fn, text[marks[-1][1] + 1:], 'parse_line[unknown line]', dict(pre_exit), helpers=f.helper, normal=f.normal())
        self.eof, _ = build(eof_fn, eof, 'parse_line[end of stream]', dict(lead_eof), helpers=f.helper, normal=f.normal())
        self.line_def = norm(pre_exit[self.line]) if self.line in pre_exit else 'ARG1'
        self.all_tables = [self.pre] + [s.table for s in self.by_kind.values()] + [self.post, self.eof]


def _copy(e: ast.AST) -> ast.AST:
    import copy
    return copy.deepcopy(e)


def facts(ctx: RuleCtx) -> Facts:
    f = getattr(ctx.check, '_c18_facts', None)
    if f is None:
        try:
            f = Facts(ctx)
        except Exception as e:
            f = e
        setattr(ctx.check, '_c18_facts', f)
    if isinstance(f, Exception):
        raise f
    return T.cast(Facts, f)


# ----------------------------------------------------------------------------------------------
# atom and effect shapes
# ----------------------------------------------------------------------------------------------
def _e(text: str) -> ast.AST:
    try:
        return ast.parse(text, mode='eval').body
    except SyntaxError:
        raise Undecided(f'condition text outside the expression subset: {text[:80]!r}')


def _truthy(a: Atom) -> T.Optional[T.Tuple[ast.AST, bool]]:
    """truth(X) -> (X, False); `X is None` / `X == None` -> (X, True); isinstance(X, str|int|...) -> (X, False): the atom says whether X is set."""
    if a.kind == 'truth':
        e = _e(a.args[0])
        if isinstance(e, ast.Call) and isinstance(e.func, ast.Name) and e.func.id == 'bool' and len(e.args) == 1:
            return e.args[0], False
        return e, False
    if a.kind == 'is' and a.args[1] == 'None':
        return _e(a.args[0]), True
    if a.kind == 'is' and a.args[0] == 'None':
        return _e(a.args[1]), True
    if a.kind == 'cmp' and a.args[0] == 'eq' and 'None' in a.args[1:]:
        return _e([x for x in a.args[1:] if x != 'None'][0]), True
    if a.kind == 'isinstance' and 'NoneType' not in a.args[1]:
        return _e(a.args[0]), False
    return None


def _thresh(a: Atom, subject: T.Callable[[str], bool]) -> T.Optional[T.Tuple[int, bool]]:
    """Integer threshold atoms: returns (k, flip) with  atom == (subject >= k) xor flip."""
    if a.kind != 'cmp' or a.args[0] != 'lt':
        return None
    x, y = a.args[1], a.args[2]
    cx, cy = _int_const(x), _int_const(y)
    if cy is not None and subject(x):
        return cy, True               # x < k
    if cx is not None and subject(y):
        return cx + 1, False          # k < y  ==  y >= k+1
    return None


def _int_const(text: str) -> T.Optional[int]:
    try:
        v = ast.literal_eval(text)
    except Exception:
        return None
    return v if isinstance(v, int) and not isinstance(v, bool) else None


def _state_atom(f: Facts, a: Atom) -> T.Optional[str]:
    if (a.kind == 'cmp' and a.args[0] == 'eq') or a.kind == 'is':
        x, y = a.args[-2], a.args[-1]
        if x == 'self.state' and f.state_of(y):
            return f.state_of(y)
        if y == 'self.state' and f.state_of(x):
            return f.state_of(x)
    return None


def _events(f: Facts, row: Row) -> T.List[T.Tuple[str, T.Any, Eff]]:
    """The events a row yields, in order: (constructor name | 'forward:<method>' | '?', operands, effect)."""
    out: T.List[T.Tuple[str, T.Any, Eff]] = []
    for e in row.effs(own=True):     # events of spliced callees are judged by the callee's own table
        if e.kind == 'yield':
            c = f.ctor(e.value) if e.value is not None else None
            if c is not None:
                out.append((c[0], c, e))
            else:   # not an event constructor after resolving reaching definitions: produced somewhere the tables cannot see
                raise Undecided(f'`yield {short(e.value, 60)}`: the yielded value is not an event constructor the tables can resolve')
        elif e.kind == 'yieldfrom':
            v = e.value
            if isinstance(v, ast.Call) and attr_chain(v.func) == 'self.parse_test':
                out.append(('forward:parse_test', v, e))
            else:   # events produced somewhere this pack cannot see into: never a difference, the verdict is "cannot tell"
                raise Undecided(f'events are forwarded from `{short(v, 60)}`, which the tables cannot follow')
        elif e.kind == 'call' and isinstance(e.value, ast.Call):
            c = attr_chain(e.value.func) or ''
            if c.startswith('self.') and c.count('.') == 1 and c[5:] in f.mod.methods(PARSER):
                raise Undecided(f'`{short(e.value, 60)}` calls a parser method the tables cannot follow (it may yield events or write fields)')
    return out


def _names(evs: T.List[T.Tuple[str, T.Any, Eff]]) -> T.List[str]:
    return [n for n, _, _ in evs]


def _final(row: Row, field: str) -> T.Optional[str]:
    v = row.final.get('self.' + field)
    return norm(v) if v is not None else None


def _field_deps(f: Facts) -> T.Dict[str, T.Set[str]]:
    """For every parser field (and every operand of a NamedTuple stored in one, `plan.late`): the parser fields its assigned
    values read, anywhere in the class.  Used to refuse a foreign atom that may be correlated with a reference atom."""
    deps: T.Dict[str, T.Set[str]] = {}
    for fn in f.mod.methods(PARSER).values():
        for st in walk_no_nested(fn):
            tgt = val = None
            if isinstance(st, ast.Assign) and len(st.targets) == 1:
                tgt, val = st.targets[0], st.value
            elif isinstance(st, ast.AugAssign):
                tgt, val = st.target, st.value
            c = attr_chain(tgt) if tgt is not None else None
            if not c or not c.startswith('self.') or val is None:
                continue
            fld = c[5:]

            def reads(e: ast.AST) -> T.Set[str]:
                return {(attr_chain(n) or '')[5:].split('.')[0] for n in ast.walk(e) if isinstance(n, ast.Attribute) and (attr_chain(n) or '').startswith('self.')} - {''}
            ct = f.ctor(val)
            if ct is not None and not ct[2]:
                deps.setdefault(fld, set())
                for k, op in ct[1].items():
                    deps.setdefault(f'{fld}.{k}', set()).update(reads(op))
            else:
                deps.setdefault(fld, set()).update(reads(val) - {fld.split('.')[0]} - {x for x in f.tuples} - {n for n in f.states})
    return deps


def _foreign(f: Facts) -> T.Callable[[Atom, T.List[Atom]], T.Optional[str]]:
    """Admit an atom outside the reference vocabulary as a free input when it is the truth / None-ness of a plain `self.<field>[.<attr>]`
    read of entry state, no other atom of the table reads the same chain, and neither it nor a reference atom's field is assigned from
    the other (`yaml_lineno := lineno`): then it can take both values independently of the reference atoms, and a row that lets it
    change an outcome the reference fixes differs from the reference whatever the atom means."""
    deps = _field_deps(f)

    def chains(a: Atom) -> T.Set[str]:
        out: T.Set[str] = set()
        for x in a.args:
            if isinstance(x, str):
                try:
                    e = ast.parse(x, mode='eval').body
                except SyntaxError:
                    continue
                out |= {attr_chain(n) or '' for n in ast.walk(e) if isinstance(n, ast.Attribute)} - {''}
        return out

    def admit(a: Atom, others: T.List[Atom]) -> T.Optional[str]:
        t = _truthy(a)
        if t is None:
            return None
        c = attr_chain(t[0])
        if c is None or not c.startswith('self.') or c.count('.') > 2:
            return None
        key = c[5:]
        if key.split('.')[0] not in FIELDS:
            return None
        mine = deps.get(key, set())
        for b in others:
            for oc in chains(b):
                if not oc.startswith('self.'):
                    continue
                if oc == c:
                    return None                       # the same value is read by another atom: possibly correlated
                other, root, oroot = oc[5:], key.split('.')[0], oc[5:].split('.')[0]
                if oroot != root and (oroot in mine or root in deps.get(other, set()) or root in deps.get(oroot, set())):
                    return None                       # one is assigned from the other somewhere in the class
        return f'free: {c[5:]} is set'
    return admit


def _foreign_cmp(f: Facts, a: Atom) -> T.Optional[str]:
    """A comparison of one plain parser counter with an integer constant (`self.last_test > 0`), outside the reference vocabulary:
    admitted as a free input - the counters are independent inputs of a step (each can be zero or not whatever the others are)."""
    th = _thresh(a, lambda x: x.startswith('self.') and x.count('.') == 1 and x[5:] in FIELDS)
    if th is not None:
        subj = [x for x in a.args[1:] if x.startswith('self.')][0]
        return f'free: {subj[5:]} >= {th[0]}' if not th[1] else f'free: not {subj[5:]} >= {th[0]}'
    if a.kind == 'cmp' and a.args[0] == 'eq' and a.args[1].startswith('self.') and a.args[1][5:] in FIELDS and _int_const(a.args[2]) is not None:
        return f'free: {a.args[1][5:]} == {a.args[2]}'
    return None


class Diff(T.NamedTuple):
    rule: str
    func: str
    construct: str
    msg: str
    node: T.Optional[ast.AST]


class Model:
    """All table comparisons of parse_line / parse_test, computed once per check and reported per rule."""

    def __init__(self, ctx: RuleCtx):
        self.f = f = facts(ctx)
        self.s = f.sections()
        self.diffs: T.List[Diff] = []
        self.oks: T.Dict[str, T.List[str]] = {}
        self.qn = f'{PARSER}.parse_line'
        self.pending: T.List[str] = []      # tables the pack could not decide: differences found elsewhere are still reported first
        for chk in (_check_operands, _check_pre, _check_test, _check_plan, _check_small, _check_eof):
            try:
                chk(self)
            except Undecided as e:
                self.pending.append(str(e))
        self.pt_checked = False

    def diff(self, rule: str, construct: str, msg: str, node: T.Optional[ast.AST] = None, func: T.Optional[str] = None) -> None:
        self.diffs.append(Diff(rule, func or self.qn, construct, msg, node))

    def ok(self, rule: str, text: str) -> None:
        self.oks.setdefault(rule, []).append(text)

    def emit(self, ctx: RuleCtx, rule: str) -> None:
        for t in self.oks.get(rule, []):
            ctx.ok(t)
        seen: T.Set[T.Tuple[str, str]] = set()
        for d in self.diffs:
            if d.rule == rule and (d.func, d.construct) not in seen:
                seen.add((d.func, d.construct))
                ctx.violation(self.f.mod, d.func, d.construct, d.msg, d.node)

    def require_decided(self) -> None:
        if self.pending:
            raise Undecided('; '.join(dict.fromkeys(self.pending)))


def model(ctx: RuleCtx) -> Model:
    m = getattr(ctx.check, '_c18_model', None)
    if m is None:
        try:
            m = Model(ctx)
        except Exception as e:
            m = e
        setattr(ctx.check, '_c18_model', m)
    if isinstance(m, Exception):
        raise m
    return T.cast(Model, m)


def _understood(table: tables.Table) -> None:
    """Closed world: a table is only judged when every item of every row is a condition or a plain effect (no loop, `with`, handler)."""
    for r_ in table.rows:
        for it in T.cast(Row, r_).items:
            if it.eff is not None and it.eff.kind in ('loop', 'with', 'exc'):
                raise Undecided(f'{table.name}: a row runs through a {it.eff.kind} construct (`{short(it.raw, 50)}`), which the tables do not model')


def _split(m: Model, table: tables.Table, bad: T.List[T.Tuple[Row, T.Any, T.Any, T.Dict[str, T.Optional[bool]]]],
           rule_of: T.Dict[str, str], n: int, what: T.Dict[str, str]) -> None:
    """Attribute component-wise differences of (got, want) dicts to rules; record one ok per rule when clean."""
    _understood(table)
    hit: T.Set[str] = set()
    # witness order: worlds in which the free (foreign) inputs are unset first - the plainest entry state
    for row, got, want, view in sorted(bad, key=lambda b: sum(1 for k, v in b[3].items() if k.startswith('free:') and v)):
        for part in want:
            if got.get(part) != want[part]:
                rule = rule_of[part]
                hit.add(rule)
                vw = ', '.join(f'{"" if v else "not "}{k}' for k, v in view.items() if v is not None)
                node = row.items[-1].raw if row.items else None
                m.diff(rule, f'{table.name}: {part}', f'{table.name}, row [{vw}]: {part} is {got.get(part)!r}; the reference row has {want[part]!r}', node)
    for rule in sorted(set(rule_of.values())):
        if rule not in hit:
            m.ok(rule, f'{table.name}: {what[rule]} agree with the reference rows on {n} worlds ({len(table.rows)} rows)')


# ----------------------------------------------------------------------------------------------
# the state / blank prefix of parse_line
# ----------------------------------------------------------------------------------------------
def _line_shape(e: ast.AST) -> T.Optional[str]:
    """What an expression over the line parameter keeps of the line: 'raw', 'stripped' (only trailing characters removed) or
    'left-stripped' (leading characters may be removed: strip / lstrip / a slice with a lower bound); None = some other transformation."""
    if isinstance(e, ast.Name) and e.id == 'ARG1':
        return 'raw'
    if isinstance(e, ast.Call) and isinstance(e.func, ast.Attribute) and not e.keywords and len(e.args) <= 1:
        base = _line_shape(e.func.value)
        if base is None:
            return None
        if e.func.attr == 'rstrip':
            return 'left-stripped' if base == 'left-stripped' else 'stripped'
        if e.func.attr in ('strip', 'lstrip'):
            return 'left-stripped'
        return None
    if isinstance(e, ast.Subscript) and isinstance(e.slice, ast.Slice) and e.slice.step is None:
        base = _line_shape(e.value)
        if base is None:
            return None
        return 'left-stripped' if (e.slice.lower is not None or base == 'left-stripped') else 'stripped'
    return None


def _line_text(s: Sections, text: str) -> T.Optional[str]:
    """'raw' for the unstripped line parameter, 'stripped' for the line as it is matched (the shape itself is judged by _check_operands)."""
    try:
        sh = _line_shape(ast.parse(text, mode='eval').body)
    except SyntaxError:
        return None
    return 'stripped' if sh == 'left-stripped' else sh


def _check_operands(m: Model) -> None:
    """K11 + K3: the line-form patterns are applied with `match` (anchored at the first character), and TAP gives meaning to `ok`,
    `1..N`, `Bail out!`, `TAP version` only at column 0 and to YAML markers only when indented: so what reaches a `.match(...)` of a
    line-form pattern, and the `startswith(<yaml indent>)` test, must be the line with at most *trailing* characters removed."""
    f, s = m.f, m.s
    sites: T.Dict[str, T.Tuple[ast.AST, ast.AST]] = {}
    for tab in s.all_tables:
        for r_ in tab.rows:
            for raw, sub, _k in T.cast(Row, r_).exprs:
                for x in ast.walk(sub):
                    rn = f.match_of(x)
                    if rn is not None:
                        sites.setdefault(f'{rn}.match({norm(x.args[0])})', (x.args[0], raw))   # type: ignore[attr-defined]
                    if isinstance(x, ast.Call) and isinstance(x.func, ast.Attribute) and x.func.attr == 'startswith' and len(x.args) == 1 \
                            and norm(x.args[0]) == 'self.yaml_indent':
                        sites.setdefault(f'<line>.startswith(self.yaml_indent) on {norm(x.func.value)}', (x.func.value, raw))
    for _, _, rn, var, mexpr in s.match_exprs:
        sites.setdefault(f'{rn}.match({norm(mexpr.args[0])})', (mexpr.args[0], mexpr))   # type: ignore[attr-defined]
    bad = 0
    for key, (operand, raw) in sites.items():
        sh = _line_shape(operand)
        if sh is None:
            raise Undecided(f'parse_line: `{key}`: the operand is not the line (or the line with characters removed at its ends)')
        if sh == 'left-stripped':
            bad += 1
            m.diff('C18.R2', f'line operand of {key.split(".match")[0].split(" on ")[0]}', f'`{key}`: the line is matched after its LEADING characters may have been '
                   f'removed (`{short(operand, 50)}`); the patterns are anchored at column 0, so an indented `ok` / `1..N` / `Bail out!` / `TAP version` '
                   f'line (nested harness output) becomes a subtest / plan / bail-out instead of an unknown line, and YAML indentation is lost', raw)
    if not bad:
        m.ok('C18.R2', f'{len(sites)} line-form matches / indentation tests see the line with at most trailing characters removed (patterns are anchored at column 0)')


def _pre_sem(m: Model) -> T.Callable[[Atom], T.Optional[T.Tuple[str, bool]]]:
    f, s = m.f, m.s

    def sem(a: Atom) -> T.Optional[T.Tuple[str, bool]]:
        st = _state_atom(f, a)
        if st:
            return 'S' + st, False
        if ((a.kind == 'cmp' and a.args[0] == 'eq') or a.kind == 'is') and f.state_of(a.args[-2]) and f.state_of(a.args[-1]):
            # a state test evaluated after the state was assigned on this row: two constants, decided by their folded values
            return ('constants equal' if f.state_of(a.args[-2]) == f.state_of(a.args[-1]) else 'constants differ'), False
        th = _thresh(a, lambda x: x == 'self.version')
        if th:
            return f'version>={th[0]}', th[1]
        if a.kind == 'cmp' and a.args[0] == 'eq' and a.args[2] in ('0', "''"):
            x0 = _e(a.args[1])
            if a.args[2] == '0' and isinstance(x0, ast.Call) and isinstance(x0.func, ast.Name) and x0.func.id == 'len' and len(x0.args) == 1:
                x0 = x0.args[0]
            elif a.args[2] == '0':
                x0 = None
            if x0 is not None and _line_text(s, norm(x0)) == 'stripped':
                return 'blank', False
        th0 = _thresh(a, lambda x: x.startswith('len(') and _line_text(s, x[4:-1]) == 'stripped')
        if th0 and th0[0] == 1:
            return 'blank', not th0[1]
        t = _truthy(a)
        if t is None:
            return None
        x, flip = t
        rn = f.match_of(x)
        if rn and FORM_OF[rn] in ('yaml_start', 'yaml_end') and _line_text(s, norm(x.args[0])):   # type: ignore[attr-defined]
            return FORM_OF[rn], flip
        if _line_text(s, norm(x)) == 'stripped':
            return 'blank', not flip
        if isinstance(x, ast.Call) and isinstance(x.func, ast.Attribute) and x.func.attr == 'startswith' and len(x.args) == 1 and _line_text(s, norm(x.func.value)):
            if isinstance(x.args[0], ast.Constant) and x.args[0].value == '#' and _line_text(s, norm(x.func.value)) == 'stripped':
                return 'diagnostic', flip
            if norm(x.args[0]) == 'self.yaml_indent':
                return 'indented', flip
        return None
    return sem


def _pre_extra(f: Facts) -> T.List[Atom]:
    texts = [f'self.state == self.{f.state_names["_AFTER_TEST"]}', f'self.state == self.{f.state_names["_YAML"]}', 'self.version < 13', 'self._RE_YAML_START.match(ARG1)',
             'self._RE_YAML_END.match(ARG1)', 'ARG1.startswith(self.yaml_indent)', 'ARG1.rstrip()', "ARG1.rstrip().startswith('#')"]
    return [canon(_e(t), True)[0] for t in texts]


def _one_state(view: T.Dict[str, T.Optional[bool]]) -> T.Optional[str]:
    on = [k for k in ('S_MAIN', 'S_AFTER_TEST', 'S_YAML') if view.get(k)]
    if len(on) > 1:
        return None
    if on:
        return on[0][1:]
    if view.get('S_MAIN') is False:
        return None          # not AFTER_TEST, not YAML, not MAIN: outside the three-state domain (closed by R1)
    return '_MAIN'


def _check_pre(m: Model) -> None:
    f, s = m.f, m.s
    tab = s.pre

    def ref(v: T.Dict[str, T.Optional[bool]]) -> T.Any:
        st = _one_state(v)
        out: T.Dict[str, T.Any] = {'state': None, 'YAML bookkeeping': False, 'events': [], 'leaves by': None}
        if st == '_AFTER_TEST':
            if v.get('version>=13') and v.get('yaml_start'):
                out.update({'state': '_YAML', 'YAML bookkeeping': True, 'leaves by': 'return'})
                return out
            out['state'] = '_MAIN'
        elif st == '_YAML':
            if v.get('yaml_end'):
                out.update({'state': '_MAIN', 'leaves by': 'return'})
                return out
            if v.get('indented') or v.get('blank'):
                # the body of the block: an indented line, or a blank one (YAML emitters write the empty lines of a literal scalar
                # without indentation); "YAML blocks after a test are ignored" - no event, the block stays open
                out['leaves by'] = 'return'
                return out
            out.update({'state': '_MAIN', 'events': ['Error']})
        out['leaves by'] = 'return' if (v.get('blank') or v.get('diagnostic')) else 'fall'
        return out

    def got(r: Row, v: T.Dict[str, T.Optional[bool]]) -> T.Any:
        fs = _final(r, 'state')
        ind, ln = r.final.get('self.yaml_indent'), _final(r, 'yaml_lineno')
        rec = ind is not None and f.role_ref(ind, 'yaml_start', 'indent') and ln is not None and ln == _final(r, 'lineno')
        return {'state': None if fs is None else (f.state_of(fs) or fs), 'YAML bookkeeping': bool(rec), 'events': _names(_events(f, r)),
                'leaves by': r.outcome[0]}
    # regex-language fact: a whitespace-only line is no YAML marker line (the marker patterns are applied with `match`, and a prefix of a
    # whitespace-only line is whitespace-only) - the worlds "blank and marker" do not exist, so the order in which a body asks is immaterial
    not_blank = {kind for n_, kind in FORM_OF.items() if kind in ('yaml_start', 'yaml_end')
                 and rx.intersects(f.regexes[n_].pattern, r'\s*', f.regexes[n_].flags, 0) is None}
    n, bad, holes = compare(tab, _pre_sem(m), ref, got, _pre_extra(f),
                            consistent=lambda v: _one_state(v) is not None and v.get('constants equal') in (None, True) and v.get('constants differ') in (None, False)
                            and not (v.get('blank') and any(v.get(k) for k in not_blank)))
    # one clause, one finding: a blank line produces no event in any state (MAIN: skipped; AFTER_TEST: skipped after leaving the state;
    # YAML: part of the block).  Reported once, not per component of the row.
    in_block = [b for b in bad if _one_state(b[3]) == '_YAML' and b[3].get('blank') and not b[3].get('yaml_end') and not b[3].get('indented')]
    if in_block:
        bad = [b for b in bad if not any(b is x for x in in_block)]
        row, g, want, _view = in_block[0]
        m.diff('C18.R2', f'{tab.name}: blank line inside a YAML block',
               f'{tab.name}: in the YAML state a blank line that does not start with the recorded indentation (an empty line: YAML emitters write the blank '
               f'lines of a literal scalar without indentation) gives events {g["events"]!r}, next state {g["state"]!r}; the reference row has '
               f'{want["events"]!r} / {want["state"]!r} (the block stays open, nothing is reported): `TAP version 13` / `ok 1` / `  ---` / `  msg: |` / `    a` / `` / `    b` / `  ...` '
               f'is a well-formed TAP 13 stream, and "YAML blocks after a test are ignored"', row.items[-1].raw if row.items else None)
    else:
        m.ok('C18.R2', f'{tab.name}: a blank line inside a YAML block is part of the block (no event, the state is kept)')
    _split(m, tab, bad, {'state': 'C18.R1', 'YAML bookkeeping': 'C18.R1', 'events': 'C18.R2', 'leaves by': 'C18.R2'}, n,
           {'C18.R1': 'next state and YAML bookkeeping', 'C18.R2': 'events and blank/diagnostic handling'})
    for v in holes:
        vw = ', '.join(f'{"" if x else "not "}{k}' for k, x in v.items() if x is not None)
        m.diff('C18.R1', f'{tab.name}: state assertion', f'no row of {tab.name} can complete for [{vw}]: an assertion on the state fails there')
    if not holes:
        m.ok('C18.R1', f'{tab.name}: some row completes in every consistent world (the state assertion never cuts a path)')
    badln = [r for r in tab.rows if _final(T.cast(Row, r), 'lineno') != 'self.lineno + 1']
    if badln:
        m.diff('C18.R3', f'{tab.name}: lineno', f'{len(badln)} of {len(tab.rows)} rows do not advance lineno by exactly one: lineno becomes '
               f'{_final(T.cast(Row, badln[0]), "lineno")!r}', badln[0].path.events[0].node if badln[0].path.events else None)
    else:
        m.ok('C18.R3', f'{tab.name}: lineno := lineno + 1 exactly once on all {len(tab.rows)} rows')


# ----------------------------------------------------------------------------------------------
# the test-line section
# ----------------------------------------------------------------------------------------------
def _is_inc(e: ast.AST, field: str) -> bool:
    return isinstance(e, ast.BinOp) and isinstance(e.op, ast.Add) and sorted((norm(e.left), norm(e.right))) == sorted((f'self.{field}', '1'))


def _new_last(f: Facts, e: ast.AST) -> T.Optional[str]:
    """Shape of the new test number: 'both' = last_test + 1 if <number group> is None else int(<number group>);
    'implicit' = last_test + 1; 'explicit' = int(<number group>)."""
    def conv(x: ast.AST) -> bool:
        return isinstance(x, ast.Call) and isinstance(x.func, ast.Name) and x.func.id == 'int' and len(x.args) == 1 and f.role_ref(x.args[0], 'test', 'digits')
    if _is_inc(e, 'last_test'):
        return 'implicit'
    if conv(e):
        return 'explicit'
    if isinstance(e, ast.IfExp):
        a, v = canon(e.test, True)
        t = _truthy(a)
        if t is not None and f.role_ref(t[0], 'test', 'digits'):
            isset = v != t[1]          # the test being true means: the number group is set
            set_br, none_br = (e.body, e.orelse) if isset else (e.orelse, e.body)
            if conv(set_br) and _is_inc(none_br, 'last_test'):
                return 'both'
    return None


def _check_test(m: Model) -> None:
    f, s = m.f, m.s
    sec = s.by_kind['test']
    tab = sec.table

    def sem(a: Atom) -> T.Optional[T.Tuple[str, bool]]:
        if a.kind == 'cmp' and a.args[0] == 'lt' and a.args[1] == 'self.plan.num_tests' and _new_last(f, _e(a.args[2])):
            return 'number beyond plan', False
        if a.kind == 'cmp' and a.args[0] == 'lt' and a.args[1] == 'self.highest_test' and _new_last(f, _e(a.args[2])):
            return 'number above highest', False
        if a.kind == 'in' and _new_last(f, _e(a.args[0])) and a.args[1].startswith('self.') and a.args[1].count('.') == 1:
            return 'number seen before', False
        thn = _thresh(a, lambda x: _new_last(f, _e(x)) is not None)
        if thn is not None and thn[0] == 1:
            return 'number>=1', thn[1]
        if a.kind == 'cmp' and any(x in t for t in a.args[1:] for x in ('self.plan.num_tests', 'self.last_test', 'self.num_tests', 'self.highest_test')):
            m.diff('C18.R3', f'{tab.name}: counter comparison', f'{tab.name} tests `{a!r}`; the reference compares the new test number with the plan '
                   f'as `self.plan.num_tests < <new last_test>` (and nothing else among the counters)', sec.node)
            return f'other:{a!r}', False
        t = _truthy(a)
        if t is None:
            return None
        x, flip = t
        nx = norm(x)
        if nx in ('self.plan', 'self.plan.late', 'self.found_late_test'):
            return {'self.plan': 'plan', 'self.plan.late': 'late plan', 'self.found_late_test': 'late test seen'}[nx], flip
        if f.role_ref(x, 'test', 'digits'):
            return 'explicit number', flip
        return None

    def ref(v: T.Dict[str, T.Optional[bool]]) -> T.Any:
        late_err = bool(v.get('plan') and v.get('late plan') and not v.get('late test seen'))
        beyond = bool(v.get('plan') and v.get('number beyond plan'))
        dup = bool(v.get('number seen before'))
        low = v.get('number>=1') is False
        return {'events': ['Error'] * late_err + ['Error'] * low + ['Error'] * dup + ['Error'] * beyond + ['forward:parse_test'], 'late-test flag set': late_err,
                'state': '_AFTER_TEST', 'leaves by': 'return'}

    def got(r: Row, v: T.Dict[str, T.Optional[bool]]) -> T.Any:
        fs = _final(r, 'state')
        return {'events': _names(_events(f, r)), 'late-test flag set': _final(r, 'found_late_test') == 'True',
                'state': None if fs is None else (f.state_of(fs) or fs), 'leaves by': r.outcome[0]}
    extra = [canon(_e(t), True)[0] for t in ('self.plan', 'self.plan.late', 'self.found_late_test')]
    inner: T.Set[Atom] = set()
    for r_ in tab.rows:
        inner |= T.cast(Row, r_).inner_atoms()
    n, bad, holes = compare(tab, sem, ref, got, extra, inner=inner)
    _split(m, tab, bad, {'events': 'C18.R2', 'late-test flag set': 'C18.R2', 'state': 'C18.R1', 'leaves by': 'C18.R2'}, n,
           {'C18.R1': 'every row ends in AFTER_TEST', 'C18.R2': 'events (late-plan error once, beyond-plan error, subtest) and the late-test flag'})
    # R3: effect shapes, row by row
    probs: T.Dict[str, ast.AST] = {}
    for r_ in tab.rows:
        r = T.cast(Row, r_)
        node = r.items[-1].raw if r.items else sec.node
        nt = r.final.get('self.num_tests')
        if nt is None or not _is_inc(nt, 'num_tests'):
            probs.setdefault(f'num_tests becomes `{short(nt, 60)}`; every test line counts exactly once (num_tests + 1)', node)
        lt = r.final.get('self.last_test')
        shape = _new_last(f, lt) if lt is not None else None
        isset = None
        for a, v in r.conds.items():
            t = _truthy(a)
            if t is not None and f.role_ref(t[0], 'test', 'digits'):
                isset = v != t[1]
        if not (shape == 'both' or (shape == 'implicit' and isset is False) or (shape == 'explicit' and isset is True)):
            probs.setdefault(f'last_test becomes `{short(lt, 90)}`; the reference is last_test + 1 if the number group is None else int(number group)', node)
            continue
        nl = norm(lt)
        ht = r.final.get('self.highest_test')
        above = r.conds.get(Atom('cmp', ('lt', 'self.highest_test', nl)))
        if above is None and isinstance(lt, ast.IfExp):      # the comparison was decided on the branch the row takes (conditional lifted out of the atom)
            for br in (lt.body, lt.orelse):
                if above is None:
                    above = r.conds.get(Atom('cmp', ('lt', 'self.highest_test', norm(br))))
        if above is None and ht is not None and not (isinstance(ht, ast.Call) and norm(ht.func) == 'max') \
                and any('self.highest_test' in ' '.join(str(x) for x in a.args) for a in r.conds):
            raise Undecided(f'{tab.name}: highest_test is updated under a condition the table does not relate to the new number')
        ok_h = (ht is not None and isinstance(ht, ast.Call) and norm(ht.func) == 'max' and sorted(norm(x) for x in ht.args) == sorted(('self.highest_test', nl))
                and not ht.keywords) or (above is True and ht is not None and norm(ht) == nl) or (above is False and ht is None)
        if not ok_h:
            probs.setdefault(f'highest_test becomes `{short(ht, 90)}`; the reference is max(highest_test, <new last_test>)', node)
        for name, call, e in _events(f, r):
            if name == 'forward:parse_test':
                ops = _bind_call(f.parse_test, call)
                if ops is None or len(ops) < 2 or norm(ops[1]) != nl:
                    probs.setdefault(f'the subtest is numbered `{short(ops[1], 60) if ops and len(ops) > 1 else "?"}`, not with the new last_test', e.raw)
    for msg, node in probs.items():
        m.diff('C18.R3', f'{tab.name}: {msg.split(" becomes")[0].split(" is numbered")[0]}', f'{tab.name}: {msg}', node)
    if not probs:
        m.ok('C18.R3', f'{tab.name}: on all {len(tab.rows)} rows num_tests := num_tests + 1, last_test := last_test + 1 if the number group is None '
                       f'else int(group), highest_test := max(highest_test, new last_test), the subtest carries the new last_test')
    _check_retention(m, tab, sec)
    _check_lower_bound(m, tab, sec)
    # R2: operands of the forwarded subtest
    oprob: T.Dict[str, ast.AST] = {}
    for r_ in tab.rows:
        for name, call, e in _events(f, T.cast(Row, r_)):
            if name != 'forward:parse_test':
                continue
            ops = _bind_call(f.parse_test, call)
            if ops is None or len(ops) != 5:
                oprob.setdefault(f'parse_test is called with unexpected operands `{short(call, 80)}`', e.raw)
                continue
            a, v = canon(ops[0], True)
            okc = (a.kind == 'cmp' and a.args[0] == 'eq' and v and "'ok'" in a.args[1:] and
                   any(f.role_ref(_e(x), 'test', 'status') for x in a.args[1:] if x != "'ok'"))
            if not okc:
                oprob.setdefault(f'`ok` operand is `{short(ops[0], 60)}`, not <status group> == \'ok\'', e.raw)
            for i, role in ((2, 'name'), (3, 'directive'), (4, 'text')):
                if not f.role_ref(ops[i], 'test', role):
                    oprob.setdefault(f'operand {i + 1} of parse_test is `{short(ops[i], 60)}`, not the {role} group of the test pattern', e.raw)
    for msg, node in oprob.items():
        m.diff('C18.R2', f'{tab.name}: subtest operands', f'{tab.name}: {msg}', node)
    if not oprob:
        m.ok('C18.R2', f'{tab.name}: parse_test receives (<status> == \'ok\', number, <name>, <directive>, <explanation>) by group role')


def _check_retention(m: Model, tab: tables.Table, sec: Section) -> None:
    """K3 (what can a test number influence?): "duplicate or missing numbers produce an error" needs some error to depend on more
    of the numbers seen than their count and their maximum.  Enumerate every use of the new test number on the test-line rows
    (conditions, field updates, calls) and every use of the number-derived fields at end of stream.  If the only uses are
    `last_test := number` (overwritten by the next line), `highest_test := max(highest_test, number)`, the comparison with
    plan.num_tests and the Test event itself, then `ok 1, ok 1, ok 3` and `ok 1, ok 2, ok 3` leave the parser in the same state
    and produce the same errors: a duplicate (and the number it displaces) cannot be reported.  Any other use (a set of seen
    numbers, a comparison with the previous number, ...) makes this clause silent - it never guesses what that use achieves."""
    f = m.f
    uses: T.Dict[str, ast.AST] = {}
    other: T.List[str] = []
    sums: T.Set[str] = set()
    nrows = 0
    for r_ in tab.rows:
        r = T.cast(Row, r_)
        lt = r.final.get('self.last_test')
        if lt is None or _new_last(f, lt) is None:
            return                      # the shape of the new number is not understood here (reported / undecided elsewhere)
        nl = norm(lt)
        nls = {nl} | ({norm(lt.body), norm(lt.orelse)} if isinstance(lt, ast.IfExp) else set())    # a comparison may be decided per branch
        nrows += 1
        explicit = [norm(x) for x in ast.walk(lt) if _is_int_of(f, x, 'test')]
        if not explicit:
            continue                    # a row without an explicit number

        def reads(e: T.Optional[ast.AST]) -> bool:
            t = norm(e) if e is not None else ''
            return nl in t or any(x in t for x in explicit)
        for a in r.conds:
            t = ' '.join(str(x) for x in a.args)
            if nl in t or any(x in t for x in explicit):
                if a.kind == 'cmp' and a.args[0] == 'lt' and a.args[1] == 'self.plan.num_tests' and a.args[2] in nls:
                    uses['compared with plan.num_tests'] = sec.node
                elif a.kind == 'cmp' and a.args[0] == 'lt' and a.args[1] == 'self.highest_test' and a.args[2] in nls:
                    uses['running maximum'] = sec.node
                elif _truthy(a) is not None and f.role_ref(_truthy(a)[0], 'test', 'digits'):   # type: ignore[index]
                    pass                # is there an explicit number at all
                elif a.kind == 'cmp' and any(_int_const(x) is not None for x in a.args[1:] if isinstance(x, str)):
                    uses['compared with a constant bound'] = sec.node
                else:
                    other.append(f'condition `{a!r}`')
        for chain, val in r.final.items():
            if not reads(val):
                continue
            if chain == 'self.last_test':
                uses['last_test := number (overwritten by the next test line)'] = sec.node
            elif chain == 'self.highest_test' and ((isinstance(val, ast.Call) and norm(val.func) == 'max') or norm(val) == nl):
                uses['running maximum'] = sec.node
            elif chain not in ('self.num_tests', 'self.lineno') and isinstance(val, ast.BinOp) and isinstance(val.op, ast.Add) \
                    and {norm(val.left), norm(val.right)} & (nls | set(explicit)) and chain in (norm(val.left), norm(val.right)):
                # `field := field + number`: a running sum - one more scalar, equal for multisets of equal sum
                uses[f'running sum ({chain} := {chain} + number)'] = sec.node
                sums.add(chain)
            else:
                other.append(f'{chain} := `{short(val, 60)}`')
        for e in r.effs(own=True):
            if e.kind == 'call' and reads(e.value):
                other.append(f'call `{short(e.value, 60)}`')
            if e.kind in ('yield', 'yieldfrom') and reads(e.value):
                uses['the Test event itself'] = e.raw
    if not nrows or not uses:
        return
    # end of stream: which number-derived fields are read there
    for r_ in m.s.eof.rows:
        for a in r_.conds:
            t = ' '.join(str(x) for x in a.args)
            if 'self.last_test' in t or ('self.highest_test' in t and not {a.args[1], a.args[2]} <= {'self.highest_test', 'self.num_tests'}):
                other.append(f'end-of-stream condition `{a!r}`')
    if other:
        m.ok('C18.R3', f'{tab.name}: test numbers are also used by {sorted(set(other))[:3]}: more than count and maximum is retained')
        return
    if sums:
        m.diff('C18.R3', 'test numbers: only their count, maximum and sum are retained',
               f'the explicit number of a test line is used only as: {sorted(uses)}; end of stream reads the count, the maximum and the running sum '
               f'{sorted(sums)}. So the streams `ok 1, ok 1, ok 4, ok 4` and `ok 1, ok 2, ok 3, ok 4` (count 4, maximum 4, sum 10) reach the same parser '
               f'state and yield the same end-of-stream events: duplicated and missing numbers that cancel in the sum produce no Error event '
               f'(property: "duplicate or missing numbers ... each produce an error"); a set of the numbers seen is needed', sec.node)
        return
    m.diff('C18.R3', 'test numbers: only their count and maximum are retained',
           f'the explicit number of a test line is used only as: {sorted(uses)}; end of stream compares highest_test with num_tests. So the streams '
           f'`ok 1, ok 1, ok 3` and `ok 1, ok 2, ok 3` reach the same parser state and yield the same events: a duplicate number (and the '
           f'number it displaces) produces no Error event (property: "duplicate or missing numbers ... each produce an error")', sec.node)


def _check_lower_bound(m: Model, tab: tables.Table, sec: Section) -> None:
    """K3, second clause of "missing numbers produce an error": the end-of-stream checks (count, maximum, number of distinct numbers)
    conclude "1..n all present" only if every number is >= 1.  So either a test-line row compares the new number with a lower bound
    (and reports), or end of stream looks at the retained numbers in some other way (then this clause is silent).  Otherwise
    `ok 0, ok 2` (count = maximum = distinct = 2) passes although test 1 is missing."""
    f = m.f
    rows = [T.cast(Row, r) for r in tab.rows]
    if not rows or any(r.final.get('self.last_test') is None or _new_last(f, r.final['self.last_test']) is None for r in rows):
        return
    for r in rows:
        nl = norm(r.final['self.last_test'])
        for a in r.conds:
            if a.kind == 'cmp' and (nl in a.args[1:] or any(_is_int_of(f, _e(x), 'test') for x in a.args[1:] if isinstance(x, str))) \
                    and any(_int_const(x) is not None and _int_const(x) <= 1 for x in a.args[1:] if isinstance(x, str)):
                m.ok('C18.R3', f'{tab.name}: the new test number is compared with a lower bound (`{a!r}`)')
                return
    for r_ in m.s.eof.rows:
        for a in r_.conds:
            t = ' '.join(str(x) for x in a.args)
            if ('min(' in t or ' in self.' in f' {t}' and a.kind == 'in') or ('self.last_test' in t):
                m.ok('C18.R3', f'{m.s.eof.name}: the retained numbers are examined by `{a!r}` (not judged)')
                return
    m.diff('C18.R3', 'test numbers: no lower bound',
           'no test-line row compares the new test number with a lower bound and end of stream only compares count, maximum and the number of '
           'distinct numbers: `ok 0, ok 2` (count = maximum = distinct = 2) yields no Error although test 1 is missing and 0 is not a test number '
           '(property: "duplicate or missing numbers ... each produce an error")', sec.node)


def _bind_call(fn: T.Any, call: ast.Call) -> T.Optional[T.List[ast.AST]]:
    """Operands of a call of method `fn` in parameter order (positional and keywords), None if they do not bind."""
    ps = list(param_names(fn))
    if any(isinstance(a, ast.Starred) for a in call.args) or len(call.args) > len(ps):
        return None
    out: T.Dict[str, ast.AST] = dict(zip(ps, call.args))
    for k in call.keywords:
        if k.arg is None or k.arg not in ps or k.arg in out:
            return None
        out[k.arg] = k.value
    if set(out) != set(ps):
        return None
    return [out[p] for p in ps]


# ----------------------------------------------------------------------------------------------
# plan, Bail out!, version, unknown line
# ----------------------------------------------------------------------------------------------
def _is_int_of(f: Facts, e: ast.AST, kind: str) -> bool:
    return isinstance(e, ast.Call) and isinstance(e.func, ast.Name) and e.func.id == 'int' and len(e.args) == 1 and not e.keywords \
        and f.role_ref(e.args[0], kind, 'digits')


def _skip_prefix(f: Facts, x: ast.AST, kind: str) -> bool:
    """`<directive group>.upper().startswith('SKIP')` (or lower/'skip')."""
    if not (isinstance(x, ast.Call) and isinstance(x.func, ast.Attribute) and x.func.attr == 'startswith' and len(x.args) == 1
            and isinstance(x.args[0], ast.Constant)):
        return False
    recv = x.func.value
    if not (isinstance(recv, ast.Call) and isinstance(recv.func, ast.Attribute) and not recv.args and f.role_ref(recv.func.value, kind, 'directive')):
        return False
    return (recv.func.attr, x.args[0].value) in (('upper', 'SKIP'), ('lower', 'skip'), ('casefold', 'skip'))


def _under(expr: ast.AST, view: T.Dict[str, T.Optional[bool]], sem: T.Callable[[Atom], T.Optional[T.Tuple[str, bool]]]) -> T.Optional[bool]:
    """Truth value of a boolean operand in a world of the table's atoms (and/or/not/constants over atoms of the vocabulary); None = not decided by the world."""
    if isinstance(expr, ast.Constant) and isinstance(expr.value, bool):
        return expr.value
    if isinstance(expr, ast.UnaryOp) and isinstance(expr.op, ast.Not):
        v = _under(expr.operand, view, sem)
        return None if v is None else not v
    if isinstance(expr, ast.BoolOp):
        vals = [_under(x, view, sem) for x in expr.values]
        is_and = isinstance(expr.op, ast.And)
        if any(v is (not is_and) for v in vals):
            return not is_and
        return None if any(v is None for v in vals) else is_and
    if isinstance(expr, ast.Call) and isinstance(expr.func, ast.Name) and expr.func.id == 'bool' and len(expr.args) == 1:
        return _under(expr.args[0], view, sem)
    a, pol = canon(expr, True)
    s_ = sem(a)
    if s_ is None or view.get(s_[0]) is None:
        return None
    truth = bool(view[s_[0]]) != s_[1]
    return truth if pol else not truth


def _untouched(m: Model, tab: tables.Table, fields: T.Dict[str, str]) -> None:
    for fld, rule in fields.items():
        rows = [r for r in tab.rows if ('self.' + fld) in T.cast(Row, r).final]
        if rows:
            r = T.cast(Row, rows[0])
            m.diff(rule, f'{tab.name}: writes {fld}', f'{tab.name} writes self.{fld} := `{short(r.final["self." + fld], 60)}`; only a test line changes it',
                   r.items[-1].raw if r.items else None)


def _check_plan(m: Model) -> None:
    f, s = m.f, m.s
    sec = s.by_kind['plan']
    tab = sec.table

    def sem(a: Atom) -> T.Optional[T.Tuple[str, bool]]:
        th = _thresh(a, lambda x: _is_int_of(f, _e(x), 'plan'))
        if th:
            return f'count>={th[0]}', th[1]
        if a.kind == 'cmp' and a.args[0] == 'eq' and a.args[2] == '0' and _is_int_of(f, _e(a.args[1]), 'plan'):
            return 'count>=1', True
        th = _thresh(a, lambda x: x == 'self.num_tests')
        if th and th[0] == 1:
            return 'tests seen', th[1]
        if a.kind == 'cmp' and a.args[0] == 'eq' and a.args[1] == 'self.num_tests' and a.args[2] == '0':
            return 'tests seen', True
        t = _truthy(a)
        if t is None:
            return None
        x, flip = t
        if norm(x) == 'self.num_tests':
            return 'tests seen', flip
        if _is_int_of(f, x, 'plan'):
            return 'count>=1', flip
        if norm(x) == 'self.plan':
            return 'plan seen', flip
        if f.role_ref(x, 'plan', 'directive'):
            return 'directive', flip
        if _skip_prefix(f, x, 'plan'):
            return 'SKIP directive', flip
        return None

    def sem_or_free(a: Atom) -> T.Optional[T.Tuple[str, bool]]:
        r = sem(a)
        if r is None and a.kind == 'cmp' and a.args[0] == 'eq' and f.group_ref(_e(a.args[1])) and a.args[2][:1] in '\'"':
            return f'free:{a!r}', False      # a capture group compared with a text: not part of the reference vocabulary, explored both ways
        return r

    def ref(v: T.Dict[str, T.Optional[bool]]) -> T.Any:
        if v.get('plan seen'):
            return {'events': ['Error'], 'plan': None, 'leaves by': 'return'}
        skip = bool(v.get('directive') and v.get('SKIP directive'))
        errs = int(bool(skip and v.get('count>=1'))) + int(bool(v.get('directive') and not v.get('SKIP directive')))
        return {'events': ['Error'] * errs + ['Plan'], 'leaves by': 'return',
                'plan': ('num_tests=int(count group)', f'late={bool(v.get("tests seen"))}', f'skipped={bool(skip or not v.get("count>=1"))}',
                         'explanation=text group', 'yielded')}

    def got(r: Row, v: T.Dict[str, T.Optional[bool]]) -> T.Any:
        evs = _events(f, r)
        p = r.final.get('self.plan')
        desc: T.Any = None
        if p is not None:
            c = f.ctor(p)
            if c is None or c[0] != 'Plan' or c[2]:
                desc = 'self.plan := ' + short(p, 80)
            else:
                ops = c[1]
                lv_, sv_ = _under(ops['late'], v, sem_all), _under(ops['skipped'], v, sem_all)
                if lv_ is None or sv_ is None:
                    raise Undecided(f'{tab.name}: the late / skipped operand of the plan is not a boolean over the conditions of the table: '
                                    f'late=`{short(ops["late"], 50)}`, skipped=`{short(ops["skipped"], 50)}`')
                late, sk = f'late={lv_}', f'skipped={sv_}'

                yielded = any(n == 'Plan' and norm(e.value) == norm(p) for n, _, e in evs)
                desc = ('num_tests=int(count group)' if _is_int_of(f, ops['num_tests'], 'plan') else 'num_tests=' + short(ops['num_tests'], 40), late, sk,
                        'explanation=text group' if f.role_ref(ops['explanation'], 'plan', 'text') else 'explanation=' + short(ops['explanation'], 40),
                        'yielded' if yielded else 'a different plan is yielded')
        return {'events': _names(evs), 'plan': desc, 'leaves by': r.outcome[0]}
    didx = next(i for i, r in f.forms['plan'][1].roles.items() if r == 'directive')
    cidx = next(i for i, r in f.forms['plan'][1].roles.items() if r == 'digits')

    def leaves(e: ast.AST) -> T.List[Atom]:
        if isinstance(e, ast.UnaryOp) and isinstance(e.op, ast.Not):
            return leaves(e.operand)
        if isinstance(e, ast.BoolOp):
            return [a for x in e.values for a in leaves(x)]
        if isinstance(e, ast.Constant):
            return []
        if isinstance(e, ast.Call) and isinstance(e.func, ast.Name) and e.func.id == 'bool' and len(e.args) == 1:
            return leaves(e.args[0])
        return [canon(e, True)[0]]
    operand_atoms: T.List[Atom] = []      # conditions that only occur inside the late / skipped operands of the recorded plan
    for r_ in tab.rows:
        p_ = T.cast(Row, r_).final.get('self.plan')
        c_ = f.ctor(p_) if p_ is not None else None
        if c_ is not None and not c_[2]:
            operand_atoms += leaves(c_[1]['late']) + leaves(c_[1]['skipped'])
    free_names: T.Dict[Atom, str] = {}
    fadmit = _foreign(f)

    def sem_all(a: Atom) -> T.Optional[T.Tuple[str, bool]]:
        r = sem_or_free(a)
        if r is None and a in operand_atoms:
            nm = fadmit(a, [b for b in list(tab.atoms()) + operand_atoms if b != a]) if _truthy(a) else _foreign_cmp(f, a)
            if nm is not None:
                free_names[a] = nm
                return nm, False
        return r
    extra = list(dict.fromkeys(operand_atoms)) + [canon(_e('self.plan'), True)[0], canon(_e(f'self.{sec.regex}.match({s.line_def}).group({didx})'), True)[0],
             canon(_e('self.num_tests > 0'), True)[0], canon(_e(f'int(self.{sec.regex}.match({s.line_def}).group({cidx})) > 0'), True)[0]]
    n, bad, _ = compare(tab, sem_all, ref, got, extra)
    _split(m, tab, bad, {'events': 'C18.R2', 'plan': 'C18.R2', 'leaves by': 'C18.R2'}, n, {'C18.R2': 'events and the recorded plan (count, late, skipped, explanation)'})
    _untouched(m, tab, {'state': 'C18.R1', 'num_tests': 'C18.R3', 'last_test': 'C18.R3', 'highest_test': 'C18.R3'})


def _check_small(m: Model) -> None:
    f, s = m.f, m.s
    # Bail out!
    tab = s.by_kind['bailout'].table
    probs: T.List[str] = []
    for r_ in tab.rows:
        r = T.cast(Row, r_)
        evs = _events(f, r)
        if _names(evs) != ['Bailout'] or evs[0][1][2] or not f.role_ref(evs[0][1][1]['message'], 'bailout', 'text'):
            probs.append(f'events {[short(e.value, 50) for _, _, e in evs]}; the reference row yields Bailout(<message group>)')
        if _final(r, 'bailed_out') != 'True':
            probs.append(f'bailed_out becomes {_final(r, "bailed_out")!r}; the reference row sets it (end of stream is silent after a bail-out)')
        if r.outcome[0] != 'return':
            probs.append(f'the row leaves by {r.outcome[0]}: the following line forms are consulted too')
    for p in dict.fromkeys(probs):
        m.diff('C18.R2', f'{tab.name}: {p.split(" ")[0]}', f'{tab.name}: {p}', s.by_kind['bailout'].node)
    if not probs:
        m.ok('C18.R2', f'{tab.name}: Bailout(<message group>), bailed_out := True, return on all {len(tab.rows)} rows')
    _untouched(m, tab, {'state': 'C18.R1', 'num_tests': 'C18.R3', 'last_test': 'C18.R3', 'highest_test': 'C18.R3'})
    # version
    sec = s.by_kind['version']
    tab = sec.table
    cur_line = ('self.lineno', 'self.lineno + 1')
    vidx = next(i for i, r in f.forms['version'][1].roles.items() if r == 'digits')

    def sem(a: Atom) -> T.Optional[T.Tuple[str, bool]]:
        if a.kind == 'cmp' and a.args[0] == 'eq' and a.args[1] in cur_line and a.args[2] == '1':
            return 'first line', False
        th = _thresh(a, lambda x: _is_int_of(f, _e(x), 'version'))
        if th:
            return f'version>={th[0]}', th[1]
        th = _thresh(a, lambda x: x in cur_line)
        if th:
            return f'lineno>={th[0]}', th[1]
        return None

    def ref(v: T.Dict[str, T.Optional[bool]]) -> T.Any:
        if not v.get('first line'):
            return {'events': ['Error'], 'version': None, 'leaves by': 'return'}
        return {'events': ['Version(version=int(group))'] if v.get('version>=13') else ['Error'], 'version': 'int(version group)', 'leaves by': 'return'}

    def got(r: Row, v: T.Dict[str, T.Optional[bool]]) -> T.Any:
        names = []
        for n_, c, e in _events(f, r):
            if n_ == 'Version' and not c[2] and _is_int_of(f, c[1]['version'], 'version'):
                names.append('Version(version=int(group))')
            else:
                names.append(n_ if n_ != 'Version' else 'Version(' + short(e.value, 40) + ')')
        fv = r.final.get('self.version')
        return {'events': names, 'version': None if fv is None else ('int(version group)' if _is_int_of(f, fv, 'version') else short(fv, 50)), 'leaves by': r.outcome[0]}
    extra = [canon(_e('self.lineno + 1 == 1'), True)[0], canon(_e(f'int(self.{sec.regex}.match({s.line_def}).group({vidx})) < 13'), True)[0]]
    n, bad, _ = compare(tab, sem, ref, got, extra, foreign=_foreign(f))
    _split(m, tab, bad, {'events': 'C18.R2', 'version': 'C18.R1', 'leaves by': 'C18.R2'}, n,
           {'C18.R1': 'the recorded version (gates YAML)', 'C18.R2': 'events (only on line 1, only >= 13)'})
    _untouched(m, tab, {'state': 'C18.R1', 'num_tests': 'C18.R3', 'last_test': 'C18.R3', 'highest_test': 'C18.R3'})
    # unknown line
    tab = s.post
    probs = []
    for r_ in tab.rows:
        r = T.cast(Row, r_)
        evs = _events(f, r)
        okk = _names(evs) == ['UnknownLine'] and not evs[0][1][2] and norm(evs[0][1][1]['message']) == s.line_def and norm(evs[0][1][1]['lineno']) in cur_line
        if not okk:
            probs.append(f'events {[short(e.value, 60) for _, _, e in evs]}; the reference row yields UnknownLine(<stripped line>, lineno)')
        if r.final:
            probs.append(f'fields written: {sorted(r.final)}')
    for p in dict.fromkeys(probs):
        m.diff('C18.R2', f'{tab.name}: {p.split(" ")[0]}', f'{tab.name}: {p}', tab.rows[0].path.events[0].node if tab.rows and tab.rows[0].path.events else None)
    if not probs:
        m.ok('C18.R2', f'{tab.name}: UnknownLine(<stripped line>, lineno) and nothing else')


# ----------------------------------------------------------------------------------------------
# end of stream, parse_test
# ----------------------------------------------------------------------------------------------
def _check_eof(m: Model) -> None:
    f, s = m.f, m.s
    tab = s.eof
    pairs = {('self.num_tests', 'self.plan.num_tests'): ('count', 'plan'), ('self.highest_test', 'self.num_tests'): ('highest', 'count')}

    def sem(a: Atom) -> T.Optional[T.Tuple[str, bool]]:
        st = _state_atom(f, a)
        if st:
            return 'state' + st, False
        if a.kind == 'cmp':
            for (x, y), (nx, ny) in pairs.items():
                if {a.args[1], a.args[2]} == {x, y}:
                    if a.args[0] == 'eq':
                        return f'{nx}=={ny}', False
                    return (f'{nx}<{ny}', False) if a.args[1] == x else (f'{nx}>{ny}', False)
            # the number of distinct test numbers seen (a collection field the test lines add to) against the count
            coll = [x for x in a.args[1:] if x.startswith('len(self.') and x.endswith(')') and x[9:-1] not in FIELDS and x[9:-1].isidentifier()]
            if len(coll) == 1 and 'self.num_tests' in a.args[1:]:
                if a.args[0] == 'eq':
                    return 'distinct==count', False
                return ('distinct<count', False) if a.args[1] == coll[0] else ('distinct>count', False)
            return None
        t = _truthy(a)
        if t is not None and norm(t[0]) in ('self.bailed_out', 'self.plan'):
            return {'self.bailed_out': 'bailed out', 'self.plan': 'plan'}[norm(t[0])], t[1]
        return None

    def ref(v: T.Dict[str, T.Optional[bool]]) -> T.Any:
        errs = int(bool(v.get('state_YAML')))
        if not v.get('bailed out'):
            if v.get('plan') and not v.get('count==plan'):
                errs += 1
            elif not v.get('highest==count') or v.get('distinct==count') is False or v.get('distinct<count') or v.get('distinct>count'):
                errs += 1       # duplicate / missing numbers (a parser that also counts the distinct numbers may report more of them)
        return {'events': ['Error'] * errs, 'fields written': []}

    def got(r: Row, v: T.Dict[str, T.Optional[bool]]) -> T.Any:
        return {'events': _names(_events(f, r)), 'fields written': sorted(r.final)}
    extra = [canon(_e(t), True)[0] for t in (f'self.state == self.{f.state_names["_YAML"]}', 'self.bailed_out', 'self.plan', 'self.num_tests == self.plan.num_tests',
                                             'self.highest_test == self.num_tests')]
    n, bad, _ = compare(tab, sem, ref, got, extra, foreign=_foreign(f),
                        consistent=lambda v: not (v.get('distinct==count') and (v.get('distinct<count') or v.get('distinct>count')))
                        and not (v.get('distinct<count') and v.get('distinct>count')))
    _split(m, tab, bad, {'events': 'C18.R2', 'fields written': 'C18.R2'}, n,
           {'C18.R2': 'errors (open YAML block; silent after bail-out; plan/count mismatch; duplicate/missing numbers)'})


def _check_parse_test(m: Model) -> None:
    f = m.f
    fn = f.parse_test
    qn = f'{PARSER}.parse_test'
    if len(param_names(fn)) != 5:
        raise Undecided(f'{qn}: expected (ok, num, name, directive, explanation)')
    tab, _ = build(fn, fn.body, 'parse_test', helpers=f.helper, normal=f.normal())
    ups = {'ARG4.upper()': ('SKIP', "'TODO'"), 'ARG4.lower()': ('skip', "'todo'"), 'ARG4.casefold()': ('skip', "'todo'")}

    def word(recv: str, const: T.Any, prefix: bool, node_text: str) -> T.Optional[str]:
        """Which directive word a test on the directive parameter denotes; structural deviations from the reference
        vocabulary (case-sensitive test, TODO as a prefix, SKIP as equality) are reported."""
        if not isinstance(const, str) or 'ARG4' not in recv:
            return None
        w = {'SKIP': 'SKIP*', 'TODO': 'TODO'}.get(const.upper())
        if w is None:
            return None
        want_case = {'upper': const.isupper(), 'lower': const.islower(), 'casefold': const.islower()}
        norms = [k for k in want_case if recv.endswith(f'.{k}()') or f'.{k}().' in recv]
        if not norms or not all(want_case[k] for k in norms):
            m.diff('C18.R2', 'parse_test: directive case', f'parse_test tests `{node_text}`: the directive is not case-normalised to match {const!r} '
                   f'(TAP directives are case-insensitive)', fn, qn)
        if (w == 'TODO') == prefix:
            m.diff('C18.R2', f'parse_test: {w} test', f'parse_test tests `{node_text}`: the reference vocabulary is SKIP as a prefix (SKIP, SKIPPED, ...) and '
                   f'TODO as the whole word', fn, qn)
        return w

    def sem(a: Atom) -> T.Optional[T.Tuple[str, bool]]:
        if a.kind == 'cmp' and a.args[0] == 'eq':
            c = ast.literal_eval(a.args[2]) if a.args[2][:1] in '\'"' else None
            w = word(a.args[1], c, False, repr(a))
            if w:
                return w, False
        t = _truthy(a)
        if t is None:
            return None
        x, flip = t
        if norm(x) == 'ARG4':
            return 'directive', flip
        if norm(x) == 'ARG1':
            return 'ok', flip
        if isinstance(x, ast.Call) and isinstance(x.func, ast.Attribute) and x.func.attr == 'startswith' and len(x.args) == 1 \
                and isinstance(x.args[0], ast.Constant):
            w = word(norm(x.func.value), x.args[0].value, True, repr(a))
            if w:
                return w, flip
        return None

    def ref(v: T.Dict[str, T.Optional[bool]]) -> T.Any:
        ok = bool(v.get('ok'))
        plain = 'Test OK' if ok else 'Test FAIL'
        if not v.get('directive'):
            return {'events': [plain]}
        if v.get('SKIP*'):
            return {'events': ['Test SKIP' if ok else 'Test FAIL']}
        if v.get('TODO'):
            return {'events': ['Test UNEXPECTEDPASS' if ok else 'Test EXPECTEDFAIL']}
        return {'events': ['Error', plain]}

    def result(e: ast.AST, v: T.Dict[str, T.Optional[bool]]) -> str:
        if isinstance(e, ast.IfExp):
            a, val = canon(e.test, True)
            if a == Atom('truth', ('ARG1',)) and v.get('ok') is not None:
                return result(e.body if bool(v.get('ok')) == val else e.orelse, v)
        c = attr_chain(e) or ''
        if not c.startswith('TestResult.'):
            raise Undecided(f'parse_test: the result operand `{short(e, 60)}` does not resolve to a TestResult member')
        return c.split('.')[-1]

    def explained(e: ast.AST) -> bool:
        if not isinstance(e, ast.IfExp):
            return False
        a, val = canon(e.test, True)
        if a != Atom('truth', ('ARG5',)):
            return False
        setb, noneb = (e.body, e.orelse) if val else (e.orelse, e.body)
        return norm(setb) == 'ARG5.strip()' and norm(noneb) == 'None'

    def got(r: Row, v: T.Dict[str, T.Optional[bool]]) -> T.Any:
        out = []
        for n_, c, e in _events(f, r):
            if n_ == 'Test' and not c[2]:
                ops = c[1]
                okops = norm(ops['number']) == 'ARG2' and norm(ops['name']) == 'ARG3.strip()' and explained(ops['explanation'])
                if not okops:
                    import re as _re
                    for k_ in ('number', 'name', 'explanation'):      # a deviation is only reported for operands built from the parameters alone
                        if _re.sub(r'ARG[1-5]|\.strip\(\)| if | else |None|not |\s', '', norm(ops[k_])):
                            raise Undecided(f'parse_test: the {k_} operand `{short(ops[k_], 60)}` of the Test event is not a plain use of the parameters')
                out.append('Test ' + result(ops['result'], v) + ('' if okops else f' with operands {short(e.value, 90)}'))
            else:
                out.append(n_)
        return {'events': out}
    n, bad, _ = compare(tab, sem, ref, got, [canon(_e(t), True)[0] for t in ('ARG1', 'ARG4 is None', "ARG4.upper().startswith('SKIP')", "ARG4.upper() == 'TODO'")],
                        consistent=lambda v: not (v.get('SKIP*') and v.get('TODO')))
    hit = False
    for row, g, want, view in bad:
        hit = True
        vw = ', '.join(f'{"" if x else "not "}{k}' for k, x in view.items() if x is not None)
        m.diff('C18.R2', f'parse_test row [{vw}]', f'parse_test, row [{vw}]: yields {g["events"]}; the reference row (A.17) yields {want["events"]} '
               f'(Test(num, name.strip(), result, explanation.strip() or None))', row.items[-1].raw if row.items else None, qn)
    if not hit:
        m.ok('C18.R2', f'parse_test: the seven reference rows (directive none/SKIP*/TODO/other x ok) agree on {n} worlds ({len(tab.rows)} rows), operands by role')


# ----------------------------------------------------------------------------------------------
# R1 state machine
# ----------------------------------------------------------------------------------------------
def _expand_pred(f: Facts, t: ast.AST, depth: int = 0) -> ast.AST:
    """A test read through named predicates: `self.p` (read-only property) / `self.h()` whose body is one `return <expr>` -> that expression;
    `bool(x)` -> x."""
    meths = f.mod.methods(PARSER)

    class X(ast.NodeTransformer):
        def visit_Attribute(self, n: ast.Attribute) -> ast.AST:
            self.generic_visit(n)
            fn_ = meths.get(n.attr) if isinstance(n.ctx, ast.Load) and attr_chain(n.value) == 'self' else None
            if fn_ is not None and [attr_chain(d) for d in fn_.decorator_list] == ['property'] and depth < 3:
                b = [x for x in fn_.body if not (isinstance(x, ast.Expr) and isinstance(x.value, ast.Constant))]
                if len(b) == 1 and isinstance(b[0], ast.Return) and b[0].value is not None:
                    return _expand_pred(f, _copy(b[0].value), depth + 1)
            return n

        def visit_Call(self, n: ast.Call) -> ast.AST:
            self.generic_visit(n)
            if isinstance(n.func, ast.Name) and n.func.id == 'bool' and len(n.args) == 1 and not n.keywords:
                return n.args[0]
            fn_ = meths.get(n.func.attr) if isinstance(n.func, ast.Attribute) and attr_chain(n.func.value) == 'self' and not n.args and not n.keywords else None
            if fn_ is not None and not fn_.decorator_list and isinstance(fn_, ast.FunctionDef) and len(fn_.args.args) == 1 and depth < 3:
                b = [x for x in fn_.body if not (isinstance(x, ast.Expr) and isinstance(x.value, ast.Constant))]
                if len(b) == 1 and isinstance(b[0], ast.Return) and b[0].value is not None:
                    return _expand_pred(f, _copy(b[0].value), depth + 1)
            return n
    return X().visit(_copy(t))


def _state_flow(f: Facts) -> T.Tuple[CFG, T.Dict[int, T.FrozenSet[int]], bool]:
    """Constant propagation of self.state over {_MAIN, _AFTER_TEST, _YAML} on the CFG of parse_line, refined on the
    true/false edges of `self.state ==/!= <constant>` tests.  Returns the set of possible states on entry of every node."""
    fn = f.sections().text_fn
    cfg = CFG(fn)
    allv = frozenset(f.states.values())

    def const_of(e: ast.AST) -> T.Optional[int]:
        n = f.state_of(attr_chain(e) or '')
        return f.states[n] if n else None

    def state_test(t: ast.AST) -> T.Optional[T.Tuple[int, bool]]:
        if isinstance(t, ast.Compare) and len(t.ops) == 1 and isinstance(t.ops[0], (ast.Eq, ast.NotEq, ast.Is, ast.IsNot)):
            l, r = t.left, t.comparators[0]
            for x, y in ((l, r), (r, l)):
                if attr_chain(x) == 'self.state' and const_of(y) is not None:
                    return T.cast(int, const_of(y)), isinstance(t.ops[0], (ast.Eq, ast.Is))
        return None

    meths = f.mod.methods(PARSER)
    opaque = [False]     # a called method stores into self.state (or a test on the state is not followed): the per-function propagation is only a may-analysis there

    def expand(t: ast.AST) -> ast.AST:
        return _expand_pred(f, t)

    def reads_state(e: ast.AST) -> bool:
        """The expression looks at self.state in a way the refinement below does not follow (directly, or through a parser method)."""
        for n in ast.walk(e):
            if isinstance(n, ast.Attribute) and attr_chain(n) == 'self.state':
                return True
            if isinstance(n, ast.Attribute) and attr_chain(n.value) == 'self' and n.attr in meths and n.attr not in ('parse_test',) \
                    and any(isinstance(x, ast.Attribute) and attr_chain(x) == 'self.state' for x in ast.walk(meths[n.attr])):
                return True
        return False

    def refine(t: ast.AST, label: bool, s_: T.FrozenSet[int]) -> T.FrozenSet[int]:
        """States in which the (expanded) test `t` can take the value `label`."""
        if isinstance(t, ast.UnaryOp) and isinstance(t.op, ast.Not):
            return refine(t.operand, not label, s_)
        if isinstance(t, ast.NamedExpr):
            return refine(t.value, label, s_)
        if isinstance(t, ast.BoolOp):
            if isinstance(t.op, ast.And) == label:          # every operand takes `label`
                for v in t.values:
                    s_ = refine(v, label, s_)
                return s_
            out_: T.FrozenSet[int] = frozenset()           # some operand takes `label`
            for v in t.values:
                out_ |= refine(v, label, s_)
            return out_
        st_ = state_test(t)
        if st_ is not None:
            return (s_ & {st_[0]}) if st_[1] == label else (s_ - {st_[0]})
        if isinstance(t, ast.Compare) and len(t.ops) == 1 and isinstance(t.ops[0], (ast.In, ast.NotIn)) and attr_chain(t.left) == 'self.state' \
                and isinstance(t.comparators[0], (ast.Tuple, ast.List, ast.Set)) and all(const_of(x) is not None for x in t.comparators[0].elts):
            members = frozenset(T.cast(int, const_of(x)) for x in t.comparators[0].elts)
            return (s_ & members) if isinstance(t.ops[0], ast.In) == label else (s_ - members)
        if reads_state(t):
            opaque[0] = True      # a test on the state this propagation cannot follow: the prefix table decides (helpers spliced in)
        return s_

    def writes_state(st: ast.AST) -> T.Optional[ast.AST]:
        if isinstance(st, ast.Assign):
            for t in st.targets:
                for n in ast.walk(t):
                    if isinstance(n, ast.Attribute) and attr_chain(n) == 'self.state':
                        return st.value if len(st.targets) == 1 and t is n else ast.Constant(value='?')
        if isinstance(st, (ast.AugAssign, ast.AnnAssign)) and attr_chain(st.target) == 'self.state':
            return ast.Constant(value='?')
        return None
    def call_writes(st: ast.AST) -> T.Optional[T.FrozenSet[int]]:
        """States a statement may leave behind through calls of parser methods that store into self.state (may-write)."""
        out: T.Set[int] = set()
        hit = False
        for c in ast.walk(st):
            if isinstance(c, ast.Call) and isinstance(c.func, ast.Attribute) and attr_chain(c.func.value) == 'self' and 'state' in f.writes(c.func.attr):
                hit = True
                callee = f.mod.methods(PARSER)[c.func.attr]
                for n in walk_no_nested(callee):
                    w = writes_state(n)
                    if w is not None:
                        k = const_of(w)
                        if k is None:
                            raise Undecided(f'{c.func.attr}: self.state is assigned `{short(w)}`, not one of the three state constants')
                        out.add(k)
        return frozenset(out) if hit else None
    IN: T.Dict[int, T.FrozenSet[int]] = {cfg.entry.id: allv}
    work = [cfg.entry.id]
    while work:
        nid = work.pop()
        node = cfg.nodes[nid]
        s_in = IN[nid]
        for succ, label in cfg.succ[nid]:
            out = s_in
            if label != 'exc':
                if node.kind == 'stmt' and node.ast is not None:
                    w = writes_state(node.ast)
                    if w is not None:
                        c = const_of(w)
                        if c is None:
                            raise Undecided(f'parse_line: self.state is assigned `{short(w)}`, not one of the three state constants')
                        out = frozenset([c])
                    elif isinstance(node.ast, ast.Assert):
                        out = refine(expand(node.ast.test), True, s_in)
                    else:
                        cw = call_writes(node.ast)
                        if cw is not None:
                            out = s_in | cw
                            opaque[0] = True
                elif node.kind == 'test' and label in (True, False):
                    out = refine(expand(node.ast.test), bool(label), s_in)   # type: ignore[union-attr]
            new = IN.get(succ, frozenset()) | out
            if succ not in IN or new != IN[succ]:
                IN[succ] = new
                work.append(succ)
    return cfg, IN, opaque[0]


def r1(ctx: RuleCtx) -> None:
    f = facts(ctx)
    mod = f.mod
    names = {v: k for k, v in f.states.items()}
    ctx.require(len(names) == 3, 'the three state constants are distinct', mod, PARSER, '_MAIN/_AFTER_TEST/_YAML', f'state constants collide: {f.states}')
    init = f.default('state')
    ctx.require(init == f.states['_MAIN'], 'a new parser starts in _MAIN', mod, PARSER, 'state', f'class default of state is {init!r}, not _MAIN')
    v0 = f.default('version')
    ctx.require(isinstance(v0, int) and v0 < 13, 'a new parser assumes TAP 12 (no YAML) until a version line', mod, PARSER, 'version',
                f'class default of version is {v0!r}')
    # who writes the parser fields: only the step function (a write elsewhere is invisible to the tables: cannot tell)
    writers = []
    for name, fn in mod.methods(PARSER).items():
        for n in walk_no_nested(fn):
            if isinstance(n, ast.Attribute) and isinstance(n.ctx, ast.Store) and n.attr in FIELDS and attr_chain(n.value) == 'self':
                writers.append((name, n))
    reach = f.reach()
    outside = sorted({f'{name} writes self.{n.attr}' for name, n in writers if name not in reach and name != '__init__'})
    if outside:
        raise Undecided(f'parser fields are written outside parse_line and the methods spliced into its tables: {"; ".join(outside)}')
    nstate = sum(1 for _, n in writers if n.attr == 'state')
    ctx.floor('writes of self.state', nstate, 2)
    ctx.ok(f'all {len(writers)} writes of the parser fields ({nstate} of self.state) are in {sorted(reach)}: the tables describe every transition')
    # constant propagation of state on the CFG
    cfg, IN, opaque = _state_flow(f)
    reach = cfg.reachable([cfg.entry])
    n_assert = n_yaml = 0
    if opaque:
        # the state transitions live (partly) in a helper whose result steers the caller: the CFG propagation cannot follow that.
        # The prefix table has the helper's paths spliced in and decides the same obligations: YAML is entered only on the
        # AFTER_TEST rows, and a world in which no row completes is an assertion that fails (reported from the table below).
        ctx.ok('state transitions are (partly) in a helper method: the assertion and the YAML entry are decided on the spliced prefix table')
    for node in ([] if opaque else cfg.nodes):
        if node.id not in reach or node.kind != 'stmt' or node.ast is None:
            continue
        st = node.ast
        s_in = IN.get(node.id, frozenset())
        if isinstance(st, ast.Assert):
            t = _expand_pred(f, st.test)
            if isinstance(t, ast.Compare) and len(t.ops) == 1 and isinstance(t.ops[0], (ast.Eq, ast.Is)) and 'self.state' in (attr_chain(t.left), attr_chain(t.comparators[0])):
                other = t.comparators[0] if attr_chain(t.left) == 'self.state' else t.left
                k = f.state_of(attr_chain(other) or '')
                if k is None:
                    raise Undecided(f'assertion `{short(st)}` compares state with an unknown constant')
                n_assert += 1
                badv = sorted(names[x] for x in s_in if x != f.states[k])
                ctx.require(not badv, f'`{short(st)}` holds: the states reaching it are {sorted(names[x] for x in s_in)} ({len(cfg.nodes)} CFG nodes)', mod,
                            f'{PARSER}.parse_line', st, f'`{short(st)}` can be reached in state {badv}: AssertionError escapes the parser', st)
            else:
                raise Undecided(f'assertion `{short(st)}` is not about the state')
        elif isinstance(st, ast.Assign) and any(attr_chain(t) == 'self.state' for t in st.targets) and f.state_of(attr_chain(st.value) or '') == '_YAML':
            n_yaml += 1
            badv = sorted(names[x] for x in s_in if x != f.states['_AFTER_TEST'])
            ctx.require(not badv, 'a YAML block is entered only from AFTER_TEST (states reaching the assignment: '
                        f'{sorted(names[x] for x in s_in)})', mod, f'{PARSER}.parse_line', st,
                        f'state := _YAML is reachable from state {badv}: YAML blocks are only accepted directly after a test line', st)
    ctx.floor('state assertions', n_assert, 0)
    ctx.floor('YAML entries', n_yaml, 0 if opaque else 1)
    m = model(ctx)
    m.emit(ctx, 'C18.R1')
    m.require_decided()


# ----------------------------------------------------------------------------------------------
# R2 events, R3 counters
# ----------------------------------------------------------------------------------------------
def r2(ctx: RuleCtx) -> None:
    f = facts(ctx)
    mod = f.mod
    for name, kind in FORM_OF.items():
        if kind in f.forms:
            form = f.forms[kind][1]
            ctx.ok(f'{name} denotes the {kind} form: groups {dict(form.roles)}, optional {sorted(i for i, o in form.optional.items() if o)}, '
                   f'{form.samples} specification samples')
    for name, kind, cat, txt in f.form_problems:
        if cat == 'sample':
            ctx.violation(mod, PARSER, f'{name}: {txt}', f'the pattern {name} = {f.regexes[name].pattern!r} {txt} (TAP specification sample)',
                          mod.assign_value(name, f.cls))
    f.require_forms()
    ctx.floor('regex constants denoting a TAP line form', len(f.forms), 6)
    # TAP numbers (test number, plan count, version) are ASCII decimal digits: the language of a digits group stays within [0-9]
    n_digit_groups = 0
    for kind, (name, form) in f.forms.items():
        dg = sorted(i for i, r_ in form.roles.items() if r_ == 'digits')
        if not dg:
            continue
        wit = c18_rx.non_ascii_digit_groups(f.regexes[name].pattern, f.regexes[name].flags)
        for i in dg:
            n_digit_groups += 1
            ctx.require(i not in wit, f'{name} group {i} (the {kind}-line number) matches ASCII digits only', mod, PARSER,
                        f'{name}: the {kind}-line number group matches non-ASCII digits',
                        f'group {i} of {name} = {f.regexes[name].pattern!r} also matches U+{ord(wit.get(i, "0")):04X} (a str pattern without the ASCII flag: '
                        f'\\d is every Unicode decimal digit, and int() converts them): a {kind} line such as '
                        + {'test': f'`ok {wit.get(i, "")} tests in this group` takes the first character of the description as the test number',
                           'plan': f'`1..{wit.get(i, "")}` becomes a plan', 'version': f'`TAP version {wit.get(i, "")}` becomes a version line'}.get(kind, 'is misread')
                        + '; TAP numbers are ASCII decimal digits', mod.assign_value(name, f.cls))
    ctx.floor('digits groups of the line-form patterns', n_digit_groups, 3)
    # the status word of a test line is a word: `ok` / `not ok` ends at white space or at the end of the line (regex-language fact of the folded pattern)
    c18_rx.status_word_selfcheck()
    n_status = 0
    for kind, (name, form) in f.forms.items():
        if 'status' not in form.roles.values():
            continue
        n_status += 1
        pat = f.regexes[name]
        taken, refused = c18_rx.status_word_problems(pat.pattern, pat.flags)
        ctx.require(not taken, f'{name}: a line that continues the status word with a word character (okay, ok_then, ok1) is no {kind} line', mod, PARSER,
                    f'{kind}-line pattern: the status word is not delimited',
                    f'{name} = {pat.pattern!r} has no boundary after the status word: `re.match` takes {", ".join(repr(t) for t in taken)} for {kind} lines '
                    f'(e.g. the output line `okay then` becomes the passed test 1 named "ay then", `not okay` a failed test named "ay"), although a TAP 12/13 '
                    f'{kind} line is `ok` / `not ok` followed by white space or the end of the line (consumers read /^(not )?ok\\b/): such a line is an unknown '
                    f'line (an error under TAP 13, ignored under TAP 12), not a test result', mod.assign_value(name, f.cls))
        ctx.require(not refused, f'{name}: the delimited {kind} lines (status word, then white space or the end of the line) are accepted', mod, PARSER,
                    f'{kind}-line pattern: a delimited status word is refused',
                    f'{name} = {pat.pattern!r} does not match the {kind} line(s) {", ".join(repr(t) for t in refused)}', mod.assign_value(name, f.cls))
    ctx.floor('line-form patterns with a status word', n_status, 1)
    for i, a in enumerate(MAIN_KINDS):
        for b in MAIN_KINDS[i + 1:]:
            pa, pb = f.regexes[f.forms[a][0]], f.regexes[f.forms[b][0]]
            wit = rx.intersects(pa.pattern + r'[\s\S]*', pb.pattern + r'[\s\S]*', pa.flags, pb.flags)
            if wit is not None:
                raise Undecided(f'a line can be both a {a} and a {b} line (e.g. {wit!r}): the line-form atoms are not exclusive')
            ctx.ok(f'no line is both a {a} line and a {b} line (prefix languages disjoint): the order of the sections is immaterial')
    m = model(ctx)
    if not m.pt_checked:
        m.pt_checked = True
        try:
            _check_parse_test(m)
        except Undecided as e:
            m.pending.append(str(e))
    for kind in MAIN_KINDS:
        tab = m.s.by_kind[kind].table
        nr = [r for r in tab.rows if r.outcome[0] != 'return']
        ctx.require(not nr, f'{tab.name}: all {len(tab.rows)} rows return (no line is handled by two sections)', mod, f'{PARSER}.parse_line',
                    f'{tab.name}: falls through', f'{len(nr)} rows of {tab.name} fall through to the following line forms', m.s.by_kind[kind].node)
    m.emit(ctx, 'C18.R2')
    for q in ('parse', 'parse_async'):
        _driver(ctx, mod, q)
    m.require_decided()


def r3(ctx: RuleCtx) -> None:
    m = model(ctx)
    m.emit(ctx, 'C18.R3')
    ctx.floor('rows of the test-line table', len(m.s.by_kind['test'].table.rows), 3)
    for tab in (m.s.by_kind['plan'].table, m.s.by_kind['bailout'].table, m.s.by_kind['version'].table, m.s.post, m.s.eof):
        if not any(d.rule == 'C18.R3' and d.construct.startswith(tab.name) for d in m.diffs):
            ctx.ok(f'{tab.name}: num_tests / last_test / highest_test are not written ({len(tab.rows)} rows)')
    m.require_decided()


def _params(fn: T.Any) -> T.List[str]:
    return list(param_names(fn))


def _input_wrapper(mod: Module, fn: T.Any, it: ast.AST, inp: str) -> T.Optional[T.Tuple[T.Any, int]]:
    """`self._h(<input>)` / `TAPParser._h(<input>)` / `_h(<input>)` where _h is a (possibly async, static, nested or module-level) generator
    that re-yields every item of its parameter in order and then yields k constant None markers - the generator spelling of
    `itertools.chain(<input>, (None,) * k)`.  Returns (helper, k); None when `it` is no such call.  Decided on the helper's paths:
    every path yields [item per iteration of the loop over the parameter] + [None] * k and contains nothing else."""
    if not isinstance(it, ast.Call) or any(isinstance(a, ast.Starred) for a in it.args):
        return None
    helper: T.Any = None
    bound_first = False
    if isinstance(it.func, ast.Attribute) and attr_chain(it.func.value) in ('self', PARSER, 'cls', 'type(self)', 'self.__class__'):
        helper = mod.methods(PARSER).get(it.func.attr)
        bound_first = True
    elif isinstance(it.func, ast.Name):
        nested = [n for n in fn.body if isinstance(n, (ast.FunctionDef, ast.AsyncFunctionDef)) and n.name == it.func.id]
        helper = nested[0] if len(nested) == 1 else mod.funcs().get(it.func.id)
    if helper is None or helper is fn:
        return None
    decos = [attr_chain(d) for d in helper.decorator_list]
    if any(d not in ('staticmethod', 'classmethod') for d in decos) or len(decos) > 1:
        return None
    hps = [a.arg for a in helper.args.posonlyargs + helper.args.args]
    if bound_first and 'staticmethod' not in decos:
        if attr_chain(it.func.value) == PARSER and not decos:        # TAPParser._h(self, lines): the instance is passed explicitly
            return None
        hps = hps[1:]
    if len(hps) != 1 or helper.args.vararg or helper.args.kwarg or helper.args.kwonlyargs:
        return None
    operand = it.args[0] if len(it.args) == 1 and not it.keywords else \
        (it.keywords[0].value if not it.args and len(it.keywords) == 1 and it.keywords[0].arg == hps[0] else None)
    if operand is None or norm(operand) != inp:
        return None
    hp = hps[0]
    body = [b for b in helper.body if not (isinstance(b, ast.Expr) and isinstance(b.value, ast.Constant))]
    loops = [b for b in body if isinstance(b, (ast.For, ast.AsyncFor))]
    markers: T.Set[int] = set()
    n_paths = 0
    for p_ in enumerate_paths(body, unroll=2):
        n_paths += 1
        if p_.outcome not in ('fall', 'return') or (p_.outcome == 'return' and p_.value is not None):
            return None
        seq: T.List[str] = []
        iters = 0
        for e in p_.events:
            if e.node is None:
                continue
            if e.kind == 'iter':
                lp = e.node
                if not (len(loops) == 1 and lp is loops[0] and norm(lp.iter) == hp and isinstance(lp.target, ast.Name) and not lp.orelse):
                    return None
                iters += 1 if e.val == 'iter' else 0
            elif e.kind == 'stmt' and isinstance(e.node, ast.Expr) and isinstance(e.node.value, ast.Yield):
                v = e.node.value.value
                if v is None or (isinstance(v, ast.Constant) and v.value is None):
                    seq.append('EOF')
                elif loops and isinstance(v, ast.Name) and v.id == loops[0].target.id:
                    seq.append('item')
                else:
                    return None
            elif e.kind == 'stmt' and isinstance(e.node, ast.Expr) and isinstance(e.node.value, ast.YieldFrom) and norm(e.node.value.value) == hp \
                    and not loops and not isinstance(helper, ast.AsyncFunctionDef):
                seq.append('all')           # `yield from <input>`: every item, in order
            elif e.kind == 'stmt' and isinstance(e.node, (ast.Pass, ast.Return)):
                continue
            else:
                return None                 # a condition, another statement: not a plain pass-through
        k = len(seq) - (iters if loops else 1)
        if k < 0 or seq != (['item'] * iters if loops else ['all']) + ['EOF'] * k:
            return None
        markers.add(k)
    if len(markers) != 1 or not n_paths:
        return None
    return helper, next(iter(markers))


def _driver(ctx: RuleCtx, mod: Module, q: str) -> None:
    """parse / parse_async: every line goes to parse_line in order, then exactly one parse_line(None); all events forwarded."""
    qn = f'{PARSER}.{q}'
    fn = mod.func(qn)
    ps = _params(fn)
    loops = [s for s in fn.body if isinstance(s, (ast.For, ast.AsyncFor))]
    outer = [l for l in loops if ps and ps[0] in {n.id for n in ast.walk(l.iter) if isinstance(n, ast.Name)}]
    if len(outer) != 1 or not isinstance(outer[0].target, ast.Name):
        raise Undecided(f'{qn}: expected one loop over the input lines')
    loop = outer[0]
    # what the loop iterates: the input itself, or itertools.chain(<input>, <constant tuple>) whose None items are end-of-stream markers
    sentinels = 0
    wrapper: T.Any = None
    it = loop.iter
    if isinstance(it, ast.Call) and (call_name(it) or '').split('.')[-1] == 'chain' and len(it.args) == 2 and not it.keywords and norm(it.args[0]) == ps[0]:
        extra = it.args[1]
        if isinstance(extra, ast.Name):      # a local bound once to a display
            defs_ = [st.value for st in ast.walk(fn) if isinstance(st, (ast.Assign, ast.AnnAssign)) and st.value is not None
                     and any(isinstance(t, ast.Name) and t.id == extra.id for t in (st.targets if isinstance(st, ast.Assign) else [st.target]))]
            extra = defs_[0] if len(defs_) == 1 else extra
        if not (isinstance(extra, (ast.Tuple, ast.List)) and all(isinstance(x, ast.Constant) and x.value is None for x in extra.elts)):
            raise Undecided(f'{qn}: the loop iterates `{short(it)}`; the appended items are not a display of None markers')
        sentinels = len(extra.elts)
    elif _input_wrapper(mod, fn, it, ps[0]) is not None:
        wrapper, sentinels = T.cast(T.Tuple[T.Any, int], _input_wrapper(mod, fn, it, ps[0]))
        if sentinels == 0:      # a plain pass-through of the input
            wrapper = None
    elif norm(it) != ps[0]:
        raise Undecided(f'{qn}: the loop does not iterate the input itself: {short(loop.iter)}')
    pm = mod.parent_map()
    others = sorted({call_name(c) or '' for c in ast.walk(fn) if isinstance(c, ast.Call) and (call_name(c) or '').startswith('self.')
                     and call_name(c) != 'self.parse_line' and c is not it})
    if others:
        raise Undecided(f'{qn}: calls {others}; the line/EOF sequence is only decided for a driver that calls parse_line directly')

    def forwarded(call: ast.Call) -> bool:
        par = pm.get(call)
        if isinstance(par, ast.YieldFrom):
            return True
        if isinstance(par, (ast.For, ast.AsyncFor)) and par.iter is call and isinstance(par.target, ast.Name) and len(par.body) == 1:
            b = par.body[0]
            return isinstance(b, ast.Expr) and isinstance(b.value, ast.Yield) and isinstance(b.value.value, ast.Name) and b.value.value.id == par.target.id
        return False

    def call_seq(p: T.Any) -> T.List[ast.Call]:
        """parse_line calls along the path; the iterator expression of a loop is evaluated once per loop execution."""
        out: T.List[ast.Call] = []
        active: T.Set[int] = set()
        for e in p.events:
            if e.node is None:
                continue
            if e.kind == 'iter':
                if id(e.node) not in active:
                    active.add(id(e.node))
                    out.extend(c for c in walk_no_nested(e.node.iter) if isinstance(c, ast.Call))
                if e.val == 'done':
                    active.discard(id(e.node))
                if e.node is loop:
                    active = {id(loop)} if e.val != 'done' else set()
            elif e.kind in ('stmt', 'cond'):
                out.extend(c for c in walk_no_nested(e.node) if isinstance(c, ast.Call))
        return [c for c in out if call_name(c) == 'self.parse_line']
    n = 0
    for p in enumerate_paths(fn.body, unroll=2):
        n += 1
        seq = []
        for c in call_seq(p):
            a = c.args[0] if len(c.args) == 1 and not c.keywords else None
            if isinstance(a, ast.Constant) and a.value is None:
                seq.append('EOF')
            elif isinstance(a, ast.Name) and a.id == loop.target.id:
                seq.append('line')
            else:
                seq.append(f'?{short(c)}')
            if not forwarded(c):
                par = pm.get(c)
                dropped = (isinstance(par, ast.Expr) and par.value is c) or (isinstance(par, (ast.For, ast.AsyncFor)) and par.iter is c
                                                                            and not any(isinstance(x, (ast.Yield, ast.YieldFrom)) for x in ast.walk(par)))
                if not dropped:
                    raise Undecided(f'{qn}: cannot follow what happens to the events of `{short(c)}`')
                ctx.violation(mod, qn, c, f'the events of `{short(c)}` are dropped (not yielded to the caller)', c)
        iters = sum(1 for e in p.events if e.kind == 'iter' and e.node is loop and e.val == 'iter')
        if any(x.startswith('?') for x in seq):
            raise Undecided(f'{qn}: parse_line is called with {seq}: an operand that is neither the loop variable nor None')
        # with a None marker chained to the input, the marker is the last item the loop passes on; every path of the enumeration
        # that iterates at least once stands for "k lines, then the marker(s)"
        want = ['line'] * iters + ['EOF'] * (0 if sentinels else 1)
        if sentinels and iters == 0:
            continue
        if not (p.outcome in ('fall', 'return') and seq == want and sentinels <= 1):
            ctx.violation(mod, qn, f'path with {iters} line(s)', f'for {iters} input line(s) the calls are {seq} plus {sentinels} chained None marker(s) '
                          f'(leaving by {p.outcome}); expected every line in order, then exactly one end-of-stream call', fn)
    ctx.ok(f'{qn}: {n} paths: each line is passed to parse_line in order, then exactly one parse_line(None)'
           + (' (a None marker chained to the input' + (f' by the generator {wrapper.name}' if wrapper is not None else '') + ')' if sentinels else '')
           + ', all events yielded')


def _body_nodes(fn: T.Any) -> T.Iterator[ast.AST]:
    """Nodes of the statements of fn (no nested definitions, no annotations)."""
    stack: T.List[ast.AST] = list(reversed(fn.body))
    while stack:
        n = stack.pop()
        yield n
        if isinstance(n, (ast.FunctionDef, ast.AsyncFunctionDef, ast.ClassDef, ast.Lambda)):
            continue
        for name, val in ast.iter_fields(n):
            if name in ('annotation', 'returns'):
                continue
            if isinstance(val, ast.AST):
                stack.append(val)
            elif isinstance(val, list):
                stack.extend(x for x in reversed(val) if isinstance(x, ast.AST))


# ----------------------------------------------------------------------------------------------
# R4 no exception escapes
# ----------------------------------------------------------------------------------------------
_EXC_PARENTS = {'ValueError': 'Exception', 'TypeError': 'Exception', 'AttributeError': 'Exception', 'IndexError': 'LookupError',
                'LookupError': 'Exception', 'Exception': 'BaseException'}


def _catches(handler: ast.ExceptHandler, exc: str) -> T.Optional[bool]:
    if handler.type is None:
        return True
    names = []
    for t in (handler.type.elts if isinstance(handler.type, ast.Tuple) else [handler.type]):
        n = attr_chain(t)
        if n is None:
            return None
        names.append(n.split('.')[-1])
    cur: T.Optional[str] = exc
    while cur:
        if cur in names:
            return True
        cur = _EXC_PARENTS.get(cur)
    return False


def _guarded_by_handler(cfg: CFG, site: ast.AST, exc: str) -> bool:
    """Every CFG node evaluating `site` has an exception edge, and all its exception edges lead to handlers catching `exc`."""
    nodes = cfg.node_containing(site)
    if not nodes:
        raise Undecided(f'`{short(site)}` is not on the CFG')
    for n in nodes:
        exc_succ = [cfg.nodes[b] for b, lab in cfg.succ[n.id] if lab == 'exc']
        if not exc_succ:
            return False
        ok = False
        for h in exc_succ:
            if h.kind != 'handler':
                continue
            c = _catches(T.cast(ast.ExceptHandler, h.ast), exc)
            if c is None:
                raise Undecided(f'cannot tell whether `except {short(h.ast.type)}` catches {exc}')   # type: ignore[union-attr]
            ok = ok or c
        if not ok:
            return False
    return True


def _unguarded(e: ast.AST, known: T.Dict[str, bool], optional: T.Callable[[ast.AST], bool]) -> T.List[T.Tuple[str, ast.AST]]:
    """Dereferences (`X.attr`, `int(X)`) of an optional X that no condition known at that point shows to be set."""
    out: T.List[T.Tuple[str, ast.AST]] = []

    def learn(t: ast.AST, val: bool, k: T.Dict[str, bool]) -> T.Dict[str, bool]:
        a, v = canon(t, val)
        tt = _truthy(a)
        if tt is None:
            return k
        k2 = dict(k)
        k2[norm(tt[0])] = (v != tt[1])
        return k2

    def walk(x: ast.AST, k: T.Dict[str, bool]) -> None:
        if isinstance(x, ast.IfExp):
            walk(x.test, k)
            walk(x.body, learn(x.test, True, k))
            walk(x.orelse, learn(x.test, False, k))
            return
        if isinstance(x, ast.BoolOp):
            kk = k
            for v in x.values:
                walk(v, kk)
                kk = learn(v, isinstance(x.op, ast.And), kk)
            return
        if isinstance(x, ast.Attribute) and isinstance(x.ctx, ast.Load) and optional(x.value) and not k.get(norm(x.value)):
            out.append((norm(x.value), x))
        if isinstance(x, ast.Call) and isinstance(x.func, ast.Name) and x.func.id == 'int' and len(x.args) == 1 and optional(x.args[0]) \
                and not k.get(norm(x.args[0])):
            out.append((norm(x.args[0]), x))
        for ch in ast.iter_child_nodes(x):
            walk(ch, k)
    walk(e, known)
    return out


def r4(ctx: RuleCtx) -> None:
    m = model(ctx)
    f = m.f
    mod = f.mod
    pt_tab, _ = build(f.parse_test, f.parse_test.body, 'parse_test', helpers=f.helper, normal=f.normal())
    all_tabs: T.List[T.Tuple[str, tables.Table]] = [(f'{PARSER}.parse_line', t) for t in m.s.all_tables] + [(f'{PARSER}.parse_test', pt_tab)]
    # (1) int() fed by a capture group whose language is an unbounded digit run
    seen_args: T.Dict[int, T.Dict[str, ast.AST]] = {}
    for _, tab in all_tabs:
        for r_ in tab.rows:
            for call, arg in T.cast(Row, r_).ints:
                seen_args.setdefault(id(call), {})[norm(arg)] = arg
    n_int = n_assert = 0
    covered = [(f'{PARSER}.parse_line', f.parse_line), (f'{PARSER}.parse_test', f.parse_test)] + \
        [(f'{PARSER}.{h}', mod.func(f'{PARSER}.{h}')) for h in sorted(f.reach() - {'parse_line'})]
    for _, fn0 in list(covered):      # private module-level helpers they call
        for n in walk_no_nested(fn0):
            if isinstance(n, ast.Call) and isinstance(n.func, ast.Name) and f.helper('.' + n.func.id) is not None \
                    and all(x[1] is not f.helper('.' + n.func.id) for x in covered):
                covered.append((n.func.id, f.helper('.' + n.func.id)))
    for qn, fn in covered:
        cfg = CFG(fn)
        for n in _body_nodes(fn):
            if isinstance(n, ast.Assert):
                n_assert += 1
            if not (isinstance(n, ast.Call) and isinstance(n.func, ast.Name) and n.func.id == 'int'):
                continue
            n_int += 1
            if len(n.args) != 1 or n.keywords:
                raise Undecided(f'{qn}: `{short(n)}` is not int(<one operand>)')
            guarded = _guarded_by_handler(cfg, n, 'ValueError')
            args = seen_args.get(id(n))
            if not args:
                if guarded:
                    ctx.ok(f'{qn}: `{short(n, 50)}` is not on a normal row of the tables and sits under a ValueError handler')
                    continue
                raise Undecided(f'{qn}: `{short(n)}` is on no row of the decision tables')
            for text, arg in args.items():
                ref = f.group_ref(arg)
                if ref is not None and ref[1] not in f.forms[ref[0]][1].roles:
                    continue     # no such group: reported below as an IndexError
                if ref is None or f.role(ref) != 'digits':
                    raise Undecided(f'{qn}: int() of `{short(arg, 70)}`, which is not a digits-only capture group of a line-form pattern')
                kind, idx, rn = ref
                lo, hi = f.forms[kind][1].bounds[idx]
                unbounded = hi is None or hi > INT_MAX_STR_DIGITS
                fact = f'{rn} group {idx} matches {lo}..{"unbounded" if hi is None else hi} digits'
                ctx.require(guarded or not unbounded, f'{qn}: `{short(n, 50)}` converts the {kind}-line number ({fact}); '
                            + ('ValueError is caught (CFG exception edge)' if guarded else 'bounded, cannot raise'), mod, qn,
                            f'int() of the {kind}-line number ({rn} group {idx})',
                            f'`{short(n, 60)}` converts {rn} group {idx}; {fact}, int() raises ValueError beyond {INT_MAX_STR_DIGITS} digits and no handler '
                            f'catches it: the exception leaves parse_line / parse', n)
    ctx.floor('int() sites', n_int, 1)
    ctx.floor('assert sites', n_assert, 0)
    # the assertion(s): discharged by the constant propagation of R1
    cfg1, IN, opaque1 = _state_flow(f)
    if opaque1:
        held = not any(d.rule == 'C18.R1' and 'state assertion' in d.construct for d in m.diffs) and not m.pending
        if not held and m.pending:
            raise Undecided('the state assertion is decided on the prefix table, which is undecided: ' + m.pending[0])
        ctx.require(held, 'the state assertion cannot fail (decided on the prefix table with the helper spliced in, see C18.R1)', mod, f'{PARSER}.parse_line',
                    'state assertion', 'a world of the prefix table has no completing row: the state assertion fails there (see C18.R1)')
    for node in ([] if opaque1 else cfg1.nodes):
        if node.kind == 'stmt' and isinstance(node.ast, ast.Assert):
            t = _expand_pred(f, node.ast.test)
            ok = False
            if isinstance(t, ast.Compare) and len(t.ops) == 1 and isinstance(t.ops[0], (ast.Eq, ast.Is)):
                for x, y in ((t.left, t.comparators[0]), (t.comparators[0], t.left)):
                    k = f.state_of(attr_chain(y) or '')
                    if attr_chain(x) == 'self.state' and k:
                        ok = IN.get(node.id, frozenset()) <= {f.states[k]}
            ctx.require(ok, f'`{short(node.ast)}` cannot fail (constant propagation of state, see C18.R1)', mod, f'{PARSER}.parse_line', node.ast,
                        f'`{short(node.ast)}` can fail: AssertionError leaves parse_line', node.ast)
    # (2) group indices, (3) optional values dereferenced only under a guard, (4) constructor operands
    opt_params = set()
    for a, name in zip([x for x in f.parse_test.args.args if x.arg != 'self'], param_names(f.parse_test).values()):
        if a.annotation is not None and 'Optional' in norm(a.annotation):
            opt_params.add(name)
    n_grp = n_deref = n_ctor = 0
    meth_names = set(mod.methods(PARSER)) - set(f.tuples)
    probs: T.Dict[T.Tuple[str, str], T.Tuple[str, ast.AST]] = {}
    for qn, tab in all_tabs:
        in_pt = qn.endswith('parse_test')

        def optional(v: ast.AST) -> bool:
            r = f.group_ref(v)
            if r is not None:
                return bool(f.forms[r[0]][1].optional.get(r[1]))
            return norm(v) == 'self.plan' or (in_pt and norm(v) in opt_params)
        for r_ in tab.rows:
            r = T.cast(Row, r_)
            for raw, sub, upto in r.exprs:
                known: T.Dict[str, bool] = {}
                for it in r.items[:upto]:
                    if it.atom is not None:
                        tt = _truthy(it.atom)
                        if tt is not None:
                            known[norm(tt[0])] = (it.val != tt[1])
                for x in ast.walk(sub):
                    g = f.group_ref(x)
                    if g is not None:
                        n_grp += 1
                        ng = len(f.forms[g[0]][1].roles)
                        if not 0 <= g[1] <= ng:
                            probs.setdefault((qn, f'group {g[1]} of {g[2]}'), (f'`{short(x, 60)}`: {g[2]} has {ng} groups, group({g[1]}) raises IndexError', raw))
                    c = f.ctor(x)
                    if c is not None:
                        n_ctor += 1
                        if c[2]:
                            probs.setdefault((qn, f'{c[0]}(...) operands'), (f'`{short(x, 70)}`: {c[2]} (TypeError)', raw))
                for base, x in _unguarded(sub, known, optional):
                    hidden = sorted({nm for it in r.items[:upto] if it.atom is not None for a_ in it.atom.args if isinstance(a_, str)
                                     for nm in re.findall(r'\bself\.(\w+)', a_) + re.findall(r'\b(_opaque_\w+)', a_) if nm in meth_names or nm.startswith('_opaque_')})
                    if hidden:      # a condition of the row is a predicate method/property that was not read: it may be the guard
                        raise Undecided(f'{qn}: `{short(x, 60)}` is evaluated under the condition(s) {", ".join(hidden)} (a predicate / value that was not read): '
                                        f'cannot tell whether `{short(base, 40)}` is known to be set there')
                    what = 'an optional capture group' if f.group_ref(_e(base)) else 'an Optional value'
                    probs.setdefault((qn, f'{short(base, 60)} used while None'), (f'`{short(x, 70)}` dereferences {what} `{short(base, 60)}` on a row where no '
                                     f'condition shows it is set ({tab.name}): AttributeError/TypeError on None', raw))
                n_deref += sum(1 for x in ast.walk(sub) if isinstance(x, ast.Attribute) and optional(x.value))
    for (qn, construct), (msg, node) in probs.items():
        ctx.violation(mod, qn, construct, msg, node)
    if not probs:
        ctx.ok(f'{n_grp} capture-group reads name existing groups; {n_deref} dereferences of optional groups / self.plan / Optional parameters are guarded on '
               f'their row; {n_ctor} event constructors get exactly their fields')
    ctx.floor('capture-group reads on rows', n_grp, 5)
    # (4b) K9, the other direction of the integer/text limit: an int obtained from an unbounded digit run has at most the limit's
    # digits, but `+ 1` on it can exceed it, and formatting such a value (f-string, str(), %) raises ValueError like int() does
    def unbounded_src(e: ast.AST) -> bool:
        for x in ast.walk(e):
            if isinstance(x, ast.Call) and isinstance(x.func, ast.Name) and x.func.id == 'int' and len(x.args) == 1:
                g = f.group_ref(x.args[0])
                if g is not None and f.role(g) == 'digits':
                    lo, hi = f.forms[g[0]][1].bounds[g[1]]
                    if hi is None or hi >= INT_MAX_STR_DIGITS:
                        return True
        return False

    def chains_of(e: ast.AST) -> T.Set[str]:
        return {attr_chain(x) or '' for x in ast.walk(e) if isinstance(x, ast.Attribute)} - {''}
    every_row = [T.cast(Row, r_) for _, tab in all_tabs for r_ in list(tab.rows) + list(getattr(tab, 'handler_rows', []))]
    finals: T.Dict[str, T.List[ast.AST]] = {}
    for r in every_row:
        for c_, v_ in r.final.items():
            finals.setdefault(c_, []).append(v_)
    holds = {c_ for c_, vs in finals.items() if any(unbounded_src(v_) for v_ in vs)}           # fields that can hold such an int

    def grows(e: ast.AST, big: T.Set[str]) -> bool:
        return any(isinstance(x, ast.BinOp) and isinstance(x.op, (ast.Add, ast.Mult, ast.Pow, ast.LShift))
                   and any(unbounded_src(o) or (chains_of(o) & big) for o in (x.left, x.right)) for x in ast.walk(e))
    exceed: T.Set[str] = set()
    for _ in range(4):
        holds |= {c_ for c_, vs in finals.items() if any(chains_of(v_) & holds for v_ in vs)}
        exceed |= {c_ for c_, vs in finals.items() if any(grows(v_, holds | exceed) or (chains_of(v_) & exceed) for v_ in vs)}
    bounded_by_check = [a for _, tab in all_tabs for r_ in tab.rows for a in r_.conds
                        if a.kind == 'cmp' and any((_int_const(x) or 0) >= 2 for x in a.args[1:] if isinstance(x, str))
                        and any(unbounded_src(_e(x)) and f'self.{f.forms["test"][0]}.match' in x for x in a.args[1:] if isinstance(x, str) and _int_const(x) is None)]
    if bounded_by_check:      # an explicit upper bound on the number: a value-range argument this pack does not follow
        exceed = set()
        ctx.note(f'the converted number is compared with a constant upper bound (`{bounded_by_check[0]!r}`): the text-conversion clause is not judged')
    tprob: T.Dict[str, T.Tuple[str, ast.AST]] = {}
    n_fmt = 0
    for qn, tab in all_tabs:
        for r_ in list(tab.rows) + list(getattr(tab, 'handler_rows', [])):
            for raw, sub, _k in T.cast(Row, r_).exprs:
                for x in ast.walk(sub):
                    vals = [v_.value for v_ in x.values if isinstance(v_, ast.FormattedValue)] if isinstance(x, ast.JoinedStr) else \
                        (list(x.args) if isinstance(x, ast.Call) and isinstance(x.func, ast.Name) and x.func.id in ('str', 'repr') else [])
                    for v_ in vals:
                        n_fmt += 1
                        hit = sorted(chains_of(v_) & exceed) or (['<new number>'] if grows(v_, holds | exceed) else [])
                        if not hit:
                            continue
                        owner = next((fn0 for _, fn0 in covered if any(y is raw for y in ast.walk(fn0))), None)
                        if owner is not None and _guarded_by_handler(CFG(owner), raw, 'ValueError'):
                            continue
                        tprob.setdefault(hit[0], (f'`{short(x, 70)}` turns {hit[0]} into text; that value can be (an int read from an unbounded digit run) + 1, i.e. '
                                                  f'one digit more than int()/str() accept ({INT_MAX_STR_DIGITS}): e.g. `ok ` + {INT_MAX_STR_DIGITS} nines, then `ok` '
                                                  f'makes this conversion raise ValueError out of the parser ({tab.name})', raw))
    for fld, (msg, node) in tprob.items():
        ctx.violation(mod, f'{PARSER}.parse_line', f'text conversion of {fld}', msg, node)
    if not tprob:
        ctx.ok(f'{n_fmt} text conversions on the rows: none formats a number that can exceed the integer/text conversion limit (fields that can: {sorted(exceed)})')
    # (5) no explicit raise is reachable; the drivers contain no partial operation of their own
    for q in ['parse_line', 'parse_test', 'parse', 'parse_async'] + sorted(f.reach() - {'parse_line'}):
        fn = mod.func(f'{PARSER}.{q}')
        cfg = CFG(fn)
        reach = cfg.reachable([cfg.entry])
        rs = [n for n in cfg.nodes if n.kind == 'stmt' and isinstance(n.ast, ast.Raise) and n.id in reach and cfg.can_reach(n, cfg.exit_raise)]
        for n in rs:
            ctx.violation(mod, f'{PARSER}.{q}', n.ast, f'`{short(n.ast)}` is reachable and leaves {q}', n.ast)
        if not rs:
            ctx.ok(f'{PARSER}.{q}: no reachable raise statement leaves the function ({len(cfg.nodes)} CFG nodes)')
    for q in ('parse', 'parse_async'):
        fn = mod.func(f'{PARSER}.{q}')
        safe = ('self.parse_line', 'itertools.chain', 'chain', 'iter')
        inp = (_params(fn) or [''])[0]
        partial = [n for n in _body_nodes(fn) if isinstance(n, (ast.Subscript, ast.Assert))
                   or (isinstance(n, ast.Call) and call_name(n) not in safe and _input_wrapper(mod, fn, n, inp) is None)]
        if partial:     # not a finding: the pack simply does not know whether these can raise
            raise Undecided(f'{PARSER}.{q} contains operations of its own the inventory does not classify: {[short(x, 40) for x in partial]}')
        ctx.ok(f'{PARSER}.{q}: only iterates its input (possibly chained with constant markers) and calls parse_line')


# ----------------------------------------------------------------------------------------------
# R5 verdict fold
# ----------------------------------------------------------------------------------------------
TAP_RESULTS = ['OK', 'FAIL', 'SKIP', 'UNEXPECTEDPASS', 'EXPECTEDFAIL']
BAD_SUBTEST = {'FAIL', 'UNEXPECTEDPASS'}        # property statement: "some subtest failed or unexpectedly passed"
_NEVER = object()


def _enum(e: T.Union[ast.AST, str, None]) -> T.Optional[str]:
    c = (e if isinstance(e, str) else attr_chain(e)) if e is not None else None
    return c.split('.', 1)[1] if c and c.startswith('TestResult.') and c.count('.') == 1 else None


def _bad_set(mod: Module) -> T.Set[str]:
    """Members of the constant set in `TestResult.is_bad`: `return self in {TestResult.A, ...}`."""
    fn = mod.func('TestResult.is_bad')
    body = [s for s in fn.body if not (isinstance(s, ast.Expr) and isinstance(s.value, ast.Constant))]
    if len(body) == 1 and isinstance(body[0], ast.Return) and isinstance(body[0].value, ast.Compare):
        c = body[0].value
        if len(c.ops) == 1 and isinstance(c.ops[0], ast.In) and norm(c.left) == 'self':
            coll = c.comparators[0]
            if isinstance(coll, ast.Call) and isinstance(coll.func, ast.Name) and coll.func.id in ('frozenset', 'set', 'tuple') and len(coll.args) == 1:
                coll = coll.args[0]
            if isinstance(coll, (ast.Name, ast.Attribute)):       # a named constant table: fold it (policy form c)
                from ..consteval import fold_expr, EnumMember
                try:
                    vals = fold_expr(mod.repo, mod, coll)
                except Undecided:
                    vals = None
                if isinstance(vals, (set, frozenset, tuple, list)) and all(isinstance(v, EnumMember) and v.cls == 'TestResult' for v in vals):
                    return {v.name for v in vals}
            if isinstance(coll, (ast.Set, ast.Tuple, ast.List)):
                names = [_enum(x) for x in coll.elts]
                if all(names):
                    return set(T.cast(T.List[str], names))
    if len(body) == 1 and isinstance(body[0], ast.Return) and isinstance(body[0].value, ast.BoolOp) and isinstance(body[0].value.op, ast.Or):
        names = []
        for x in body[0].value.values:      # self is A or self is B ...
            if isinstance(x, ast.Compare) and len(x.ops) == 1 and isinstance(x.ops[0], (ast.Is, ast.Eq)) and norm(x.left) == 'self':
                names.append(_enum(x.comparators[0]))
            else:
                names.append(None)
        if names and all(names):
            return set(T.cast(T.List[str], names))
    raise Undecided('TestResult.is_bad is not `return self in {<members>}`')


def _all_rows(tab: tables.Table, sem: T.Any, got: T.Any, extra: T.List[Atom], consistent: T.Any) -> T.List[T.Tuple[Row, T.Any, T.Dict[str, T.Optional[bool]]]]:
    _, rows, _ = compare(tab, sem, lambda v: _NEVER, got, extra, consistent=consistent)
    return [(r, g, v) for r, g, _, v in rows]


def _is_allskip(e: ast.AST) -> T.Optional[bool]:
    """`all(<x>.result is TestResult.SKIP for <x> in self.results)` -> True;
    `any(<x>.result is not TestResult.SKIP for <x> in self.results)` -> False (its negation); anything else -> None."""
    if not (isinstance(e, ast.Call) and isinstance(e.func, ast.Name) and e.func.id in ('all', 'any') and len(e.args) == 1
            and isinstance(e.args[0], (ast.GeneratorExp, ast.ListComp))):
        return None
    g = e.args[0]
    pos = e.func.id == 'all'
    if len(g.generators) != 1 or g.generators[0].ifs or attr_chain(g.generators[0].iter) != 'self.results' or not isinstance(g.generators[0].target, ast.Name):
        return None
    v = g.generators[0].target.id
    c = g.elt
    if isinstance(c, ast.UnaryOp) and isinstance(c.op, ast.Not):
        c, pos2 = c.operand, False
    else:
        pos2 = True
    if not (isinstance(c, ast.Compare) and len(c.ops) == 1 and isinstance(c.ops[0], (ast.Is, ast.Eq, ast.IsNot, ast.NotEq))):
        return None
    if {attr_chain(c.left), attr_chain(c.comparators[0])} != {f'{v}.result', 'TestResult.SKIP'}:
        return None
    elt_is_skip = isinstance(c.ops[0], (ast.Is, ast.Eq)) == pos2
    if pos and elt_is_skip:
        return True
    if not pos and not elt_is_skip:
        return False
    return None


def _expand_type_dispatch(fn: T.Any, body: T.List[ast.stmt]) -> T.List[ast.stmt]:
    """Normal form of a dispatch table keyed by the event class: with `D = {K1: h1, K2: h2}` bound once in the function,
    `if type(x) in D: ... D[type(x)](...) ...` stands for `if isinstance(x, K1): ... h1(...) ... elif isinstance(x, K2): ...`
    (the events are NamedTuple classes without subclasses)."""
    import copy
    tables_: T.Dict[str, ast.Dict] = {}
    for st in fn.body:
        tgt = st.targets[0] if isinstance(st, ast.Assign) and len(st.targets) == 1 else (st.target if isinstance(st, ast.AnnAssign) else None)
        val = getattr(st, 'value', None)
        if isinstance(tgt, ast.Name) and isinstance(val, ast.Dict) and val.keys and all(k is not None and attr_chain(k) for k in val.keys):
            others = [n for n in ast.walk(fn) if isinstance(n, ast.Name) and n.id == tgt.id and isinstance(n.ctx, ast.Store)]
            if len(others) == 1:
                tables_[tgt.id] = val
    if not tables_:
        return body

    def is_type_of(e: ast.AST) -> T.Optional[ast.AST]:
        return e.args[0] if isinstance(e, ast.Call) and isinstance(e.func, ast.Name) and e.func.id == 'type' and len(e.args) == 1 else None

    class Use(ast.NodeTransformer):
        def __init__(self, d: str, x: str, repl: ast.AST):
            self.d, self.x, self.repl = d, x, repl

        def visit_Subscript(self, n: ast.Subscript) -> ast.AST:
            self.generic_visit(n)
            t = is_type_of(n.slice)
            if isinstance(n.value, ast.Name) and n.value.id == self.d and t is not None and norm(t) == self.x:
                return copy.deepcopy(self.repl)
            return n

    class Expand(ast.NodeTransformer):
        def visit_If(self, n: ast.If) -> ast.AST:
            self.generic_visit(n)
            t = n.test
            if isinstance(t, ast.Compare) and len(t.ops) == 1 and isinstance(t.ops[0], ast.In) and isinstance(t.comparators[0], ast.Name) \
                    and t.comparators[0].id in tables_ and is_type_of(t.left) is not None:
                d, x = t.comparators[0].id, norm(is_type_of(t.left))
                chain: T.List[ast.stmt] = list(n.orelse)
                for k, v in reversed(list(zip(tables_[d].keys, tables_[d].values))):
                    test = ast.Call(func=ast.Name(id='isinstance', ctx=ast.Load()), args=[copy.deepcopy(is_type_of(t.left)), copy.deepcopy(k)], keywords=[])
                    bdy = [Use(d, x, v).visit(copy.deepcopy(b)) for b in n.body]
                    chain = [ast.copy_location(ast.If(test=test, body=bdy, orelse=chain), n)]
                return ast.fix_missing_locations(chain[0])
            return n
    return [Expand().visit(copy.deepcopy(b)) for b in body]


def r5(ctx: RuleCtx) -> None:
    mod = ctx.repo.module(MTEST)
    f = facts(ctx)
    bad_set = _bad_set(mod)
    for name in TAP_RESULTS + ['ERROR', 'RUNNING', 'TIMEOUT', 'INTERRUPT']:
        want = name in BAD_SUBTEST or name in ('ERROR', 'TIMEOUT', 'INTERRUPT')
        ctx.require((name in bad_set) == want, f'TestResult.{name} is {"" if want else "not "}in the is_bad set', mod, 'TestResult.is_bad', f'TestResult.{name}',
                    f'TestResult.{name} is {"" if name in bad_set else "not "}in the is_bad set; the property counts it as {"bad" if want else "not bad"}')
    fn = mod.func(f'{RUNNER}.parse')
    qn = f'{RUNNER}.parse'
    loops = [s for s in fn.body if isinstance(s, (ast.For, ast.AsyncFor))]
    if len(loops) != 1 or not isinstance(loops[0].target, ast.Name):
        raise Undecided(f'{qn}: expected one loop over the parser events')
    loop = loops[0]
    ps = _params(fn)
    if not (isinstance(loop.iter, ast.Call) and isinstance(loop.iter.func, ast.Attribute) and loop.iter.func.attr in ('parse_async', 'parse')
            and len(loop.iter.args) == 1 and isinstance(loop.iter.args[0], ast.Name) and loop.iter.args[0].id in ps):
        raise Undecided(f'{qn}: the loop iterates `{short(loop.iter)}`, which is not <parser>.parse_async(<lines>)')
    recv = loop.iter.func.value
    if isinstance(recv, ast.Name):      # a local bound once in this function: its reaching definition
        defs_ = [st_.value for st_ in ast.walk(fn) if isinstance(st_, (ast.Assign, ast.AnnAssign)) and getattr(st_, 'value', None) is not None
                 and any(isinstance(t, ast.Name) and t.id == recv.id for t in (st_.targets if isinstance(st_, ast.Assign) else [st_.target]))]
        if len(defs_) == 1:
            recv = defs_[0]
    if isinstance(recv, ast.Call) and norm(recv) == f'{PARSER}()':
        ctx.ok(f'{qn}: the events are those of a fresh {PARSER}() over the test output')
    elif (attr_chain(recv) or '').startswith('self.') or (isinstance(recv, ast.Name) and recv.id not in {n.id for n in ast.walk(fn) if isinstance(n, ast.Name)
                                                                                                   and isinstance(n.ctx, ast.Store)} | set(ps)):
        ctx.violation(mod, qn, loop.iter, f'the loop iterates `{short(loop.iter)}`: the parser object outlives this run (its state, plan and counters '
                      f'carry over from an earlier stream); a fresh {PARSER}() per run is required', loop.iter)
    else:
        raise Undecided(f'{qn}: cannot tell which parser object `{short(loop.iter)}` uses')
    idx = fn.body.index(loop)
    tail = fn.body[idx + 1:]
    ev = loop.target.id
    acc = None
    for s in ast.walk(fn):
        if isinstance(s, ast.Assign) and any(attr_chain(t) == 'self.res' for t in s.targets) and isinstance(s.value, ast.Name):
            acc = s.value.id
    if acc is None:
        raise Undecided(f'{qn}: no local verdict is stored into self.res')
    # the finite domain of the verdict local: the constants assigned to it anywhere in the function
    domain: T.List[T.Optional[str]] = []
    used_helpers = [mod.methods(RUNNER)[n.attr] for n in ast.walk(fn) if isinstance(n, ast.Attribute) and attr_chain(n.value) == 'self'
                    and n.attr in mod.methods(RUNNER) and n.attr not in ('parse', 'complete')]
    sources: T.List[T.Tuple[ast.AST, ast.AST]] = [(s_, s_.value) for s_ in ast.walk(fn) if isinstance(s_, ast.Assign)
                                                  and any(isinstance(t, ast.Name) and t.id == acc for t in s_.targets)]
    for h in used_helpers:      # verdict values produced by handler methods (assignments to their own verdict parameter / local, and returns)
        sources += [(s_, s_.value) for s_ in ast.walk(h) if isinstance(s_, ast.Return) and s_.value is not None]
        sources += [(s_, s_.value) for s_ in ast.walk(h) if isinstance(s_, ast.Assign) and isinstance(s_.value, (ast.Attribute, ast.Constant))
                    and all(isinstance(t, ast.Name) for t in s_.targets)]
    def leaves(v: ast.AST) -> T.List[ast.AST]:
        """`a or b` / `a and b` / `a if c else b` produce one of their operands."""
        if isinstance(v, ast.BoolOp):
            return [x for o in v.values for x in leaves(o)]
        if isinstance(v, ast.IfExp):
            return leaves(v.body) + leaves(v.orelse)
        return [v]
    sources = [(s_, x) for s_, val in sources for x in leaves(val)]
    for s_, val in sources:
        if isinstance(val, ast.Name) or (isinstance(val, ast.Call) and (attr_chain(val.func) or '').startswith('self.')) \
                or (isinstance(val, ast.Call) and isinstance(val.func, ast.Subscript)):
            continue        # the verdict passed through / produced by a handler whose own returns are collected
        v = None if (isinstance(val, ast.Constant) and val.value is None) else _enum(val)
        if v is None and not (isinstance(val, ast.Constant) and val.value is None):
            if isinstance(s_, ast.Assign) and any(isinstance(t, ast.Name) and t.id == acc for t in s_.targets) and s_ in list(ast.walk(fn)):
                raise Undecided(f'{qn}: `{short(s_)}` assigns something else than None / a TestResult member to the verdict')
            continue
        if v not in domain:
            domain.append(v)
    members = [v for v in domain if v is not None]

    def verdict_of(view: T.Dict[str, T.Optional[bool]]) -> T.Any:
        c = [v for v in domain if view.get('verdict set') in (None, v is not None)
             and all(view.get(f'verdict=={x}') in (None, v == x) for x in members)]
        return c[0] if len(c) == 1 else _NEVER

    def vsem(a: Atom) -> T.Optional[T.Tuple[str, bool]]:
        if a.kind == 'truth' and a.args[0] == acc:
            return 'verdict set', False
        if a.kind == 'is' and a.args[0] == acc and a.args[1] == 'None':
            return 'verdict set', True
        if a.kind in ('cmp', 'is') and acc in a.args and (a.kind == 'is' or a.args[0] == 'eq'):
            other = [x for x in a.args[-2:] if x != acc]
            if len(other) == 1 and _enum(other[0]):
                return f'verdict=={_enum(other[0])}', False
        if a.kind == 'truth' and _enum(a.args[0]):
            return 'a TestResult member is truthy', False
        return None
    vextra = [canon(_e(acc), True)[0]] + [canon(_e(f'{acc} == TestResult.{x}'), True)[0] for x in members]

    def rhelper(name: str) -> T.Optional[T.Any]:
        h = mod.methods(RUNNER).get(name)
        return h if h is not None and name not in ('parse', 'complete') and not isinstance(h, ast.AsyncFunctionDef) else None

    def closed(tab: tables.Table) -> None:
        """The verdict tables are only compared when every repository method called on the rows was spliced in."""
        for r_ in tab.rows:
            for e in T.cast(Row, r_).effs():
                v = e.value.value if isinstance(e.value, ast.Await) else e.value
                if e.kind in ('call', 'yieldfrom') and isinstance(v, ast.Call):
                    c = attr_chain(v.func) or ''
                    if c.startswith('self.') and c.count('.') == 1 and ctx.repo.find_method(mod, mod.cls(RUNNER), c[5:]) is not None:
                        raise Undecided(f'{tab.name}: `{short(v, 60)}` calls a repository method the table cannot follow (it may change the verdict)')

    # ---- tail: what becomes of self.res
    ttab, _ = build(fn, tail, f'{RUNNER}.parse[after the loop]', helpers=rhelper, normal=f.normal(RUNNER))
    closed(ttab)

    def tsem(a: Atom) -> T.Optional[T.Tuple[str, bool]]:
        s = vsem(a)
        if s:
            return s
        if a.kind == 'truth' and _is_allskip(_e(a.args[0])) is not None:
            return 'all results SKIP', not _is_allskip(_e(a.args[0]))
        if a.kind in ('cmp', 'is') and 'self.res' in a.args and 'TestResult.RUNNING' in a.args and (a.kind == 'is' or a.args[0] == 'eq'):
            return 'still running', False
        reads = {n.id for n in ast.walk(_e(a.args[0] if a.kind in ('truth', 'is') else a.args[1])) if isinstance(n, ast.Name)}
        if acc not in reads and not any('self.res' in str(x) or 'returncode' in str(x) for x in a.args):
            return f'free:{a!r}', False       # warnings / version bookkeeping: reads nothing the verdict depends on
        return None

    def tgot(r: Row, v: T.Dict[str, T.Optional[bool]]) -> T.Any:
        fin = r.final.get('self.res')
        if fin is None:
            return 'unchanged'
        if norm(fin) == acc:
            vd = verdict_of(v)
            return 'None' if vd is None else vd
        return _enum(fin) or ('?' + short(fin, 40))
    textra = vextra + [canon(_e('self.res == TestResult.RUNNING'), True)[0]]
    trows = _all_rows(ttab, tsem, tgot, textra,
                      lambda v: verdict_of(v) is not _NEVER and v.get('a TestResult member is truthy') in (None, True) and v.get('all results SKIP') is not None)
    ctx.floor('worlds after the loop', len(trows), 4)
    protected = set()
    for x in members:
        outs = {g for _, g, v in trows if verdict_of(v) == x and v.get('all results SKIP') and v.get('still running')}
        if x in bad_set and outs and all(o in bad_set for o in outs):
            protected.add(x)
    tmsgs: T.Dict[str, ast.AST] = {}
    for r, g, v in trows:
        vd, allskip, running = verdict_of(v), bool(v.get('all results SKIP')), bool(v.get('still running'))
        node = r.items[-1].raw if r.items else fn
        if isinstance(g, str) and g.startswith('?'):
            raise Undecided(f'{qn}: self.res receives `{g[1:]}`')
        if not running:
            if g != 'unchanged':
                tmsgs.setdefault(f'a harness verdict (self.res is not RUNNING) is overwritten with {g}', node)
        elif vd is None:
            want = 'SKIP' if allskip else 'unchanged'
            if g != want and not (g == 'None' and want == 'unchanged'):
                tmsgs.setdefault(f'no bad event, all-SKIP={allskip}: self.res receives {g}, the reference row has {want}', node)
        elif vd in bad_set:
            if allskip and vd not in protected:
                continue    # infeasible: an unprotected bad verdict comes with a non-SKIP result in self.results (event rows below)
            if g not in bad_set:
                tmsgs.setdefault(f'verdict {vd} (all-SKIP={allskip}) ends as self.res {g}: a bad run is not reported bad', node)
    for msg, node in tmsgs.items():
        ctx.violation(mod, qn, 'verdict after the event loop: ' + msg.split(':')[0][:60], msg, node)
    if not tmsgs:
        ctx.ok(f'{ttab.name}: bad verdict kept, all-SKIP -> SKIP unless the verdict is in {sorted(protected)}, harness verdicts untouched '
               f'({len(trows)} worlds, {len(ttab.rows)} rows; verdict domain {domain})')
    # ---- loop body: one table per event
    ltab, _ = build(fn, _expand_type_dispatch(fn, loop.body), f'{RUNNER}.parse[per event]', helpers=rhelper, normal=f.normal(RUNNER))
    closed(ltab)
    kinds = sorted(f.tuples)

    def lsem(a: Atom) -> T.Optional[T.Tuple[str, bool]]:
        if a.kind == 'isinstance' and a.args[0] == ev and len(a.args[1]) == 1 and a.args[1][0].split('.')[-1] in f.tuples:
            return 'is ' + a.args[1][0].split('.')[-1], False
        if a.kind == 'truth' and a.args[0] == f'{ev}.result.is_bad()':
            return 'bad result', False
        if a.kind in ('is', 'cmp') and f'{ev}.result' in a.args and (a.kind == 'is' or a.args[0] == 'eq'):
            other = [x for x in a.args[-2:] if x != f'{ev}.result']
            if len(other) == 1 and _enum(other[0]):
                return f'result is {_enum(other[0])}', False
        return vsem(a)

    def lgot(r: Row, v: T.Dict[str, T.Optional[bool]]) -> T.Any:
        sets = [e for e in r.effs('set') if e.target == acc]
        appended = any((e.kind == 'call' and norm(e.value) in (f'self.results.append({ev})', f'self.results.extend([{ev}])', f'self.results.extend(({ev},))',
                                                                f'self.results.insert(len(self.results), {ev})'))
                       or (e.kind == 'aug' and e.target == 'self.results' and e.op == 'Add' and norm(e.value) in (f'[{ev}]', f'({ev},)'))
                       or (e.kind == 'set' and e.target == 'self.results' and norm(e.value) in (f'self.results + [{ev}]', f'[*self.results, {ev}]'))
                       for e in r.effs())
        if not sets or norm(sets[-1].value) == acc:
            return ('unchanged', appended)
        val = sets[-1].value
        if isinstance(val, ast.Constant) and val.value is None:
            return ('None', appended)
        return (_enum(val) or '?' + short(val, 40), appended)
    lextra = [canon(_e(f'isinstance({ev}, {PARSER}.{k})'), True)[0] for k in kinds] + [canon(_e(f'{ev}.result.is_bad()'), True)[0]]
    def lconsistent(v: T.Dict[str, T.Optional[bool]]) -> bool:
        if sum(1 for k in kinds if v.get('is ' + k)) > 1 or v.get('a TestResult member is truthy') is False:
            return False
        res_true = [k[len('result is '):] for k, x in v.items() if k.startswith('result is ') and x]
        if len(res_true) > 1:
            return False
        return not res_true or v.get('bad result') in (None, res_true[0] in bad_set)    # the is_bad set is a declared finite table
    lrows = _all_rows(ltab, lsem, lgot, lextra, lconsistent)
    ctx.floor('event-kind worlds', len(lrows), 4)
    by_kind: T.Dict[str, T.List[T.Tuple[Row, T.Any, T.Dict[str, T.Optional[bool]]]]] = {}
    for r, g, v in lrows:
        k = next((k for k in kinds if v.get('is ' + k)), 'other')
        if k == 'Test':
            k = 'Test with a bad result' if v.get('bad result') else 'Test with a good result'
        by_kind.setdefault(k, []).append((r, g, v))
    for k, lst in by_kind.items():
        msgs: T.Dict[str, ast.AST] = {}
        for r, (val, appended), v in lst:
            node = r.items[-1].raw if r.items else loop
            if isinstance(val, str) and val.startswith('?'):
                raise Undecided(f'{qn}: the verdict receives `{val[1:]}`')
            if k in ('Bailout', 'Error'):
                if val not in bad_set:
                    msgs.setdefault(f'after a {k} event the verdict `{acc}` is {val}: the run is not marked bad', node)
                elif val not in protected:
                    msgs.setdefault(f'after a {k} event `{acc}` is {val}, which the all-results-SKIP override replaces by SKIP', node)
            elif k == 'Test with a bad result':
                if val not in bad_set:
                    msgs.setdefault(f'a subtest with a bad result leaves the verdict `{acc}` {val}', node)
            elif val != 'unchanged':
                msgs.setdefault(f'a {k} event changes the verdict `{acc}` to {val}', node)
            if k.startswith('Test') and not appended and any('self.results' in repr(e) for e in r.effs()):
                raise Undecided(f'{qn}: the subtest list self.results is updated in a form the table does not understand')
            if k.startswith('Test') and not appended:
                msgs.setdefault(f'a {k} is not appended to self.results (the all-SKIP test and the subtest list miss it)', node)
        for msg, node in msgs.items():
            ctx.violation(mod, qn, f'{k} event', msg, node)
        if not msgs:
            ctx.ok(f'{ltab.name}: {k}: ' + ('marks the run bad with a verdict the tail keeps' if k in ('Bailout', 'Error') else
                                           'marks the run bad and is recorded' if k == 'Test with a bad result' else 'leaves the verdict unchanged')
                   + f' ({len(lst)} worlds)')
    ctx.require('SKIP' not in bad_set, 'a subtest with a bad result is not a SKIP (an unprotected bad verdict implies a non-SKIP entry in self.results)',
                mod, 'TestResult.is_bad', 'TestResult.SKIP', 'SKIP counts as bad')
    # ---- complete(): non-zero exit status
    cfn = mod.func(f'{RUNNER}.complete')
    cq = f'{RUNNER}.complete'
    supers = [s for s in cfn.body if isinstance(s, ast.Expr) and isinstance(s.value, ast.Call) and norm(s.value.func) == 'super().complete']
    ctx.require(len(supers) == 1 and cfn.body[-1] is supers[0], f'{cq}: ends with super().complete()', mod, cq, cfn, 'complete() does not end with exactly one super().complete()')
    ctab, _ = build(cfn, cfn.body[:-1] if supers and cfn.body[-1] is supers[0] else cfn.body, cq, helpers=rhelper, normal=f.normal(RUNNER))
    closed(ctab)

    def csem(a: Atom) -> T.Optional[T.Tuple[str, bool]]:
        if a.kind == 'cmp' and a.args[0] == 'eq' and a.args[1] == 'self.returncode' and a.args[2] == '0':
            return 'exit status 0', False
        th = _thresh(a, lambda x: x == 'self.returncode')
        if th:
            return f'exit status>={th[0]}', th[1]
        if a.kind == 'truth' and a.args[0] == 'self.res.is_bad()':
            return 'already bad', False
        if a.kind in ('is', 'cmp') and 'self.res' in a.args and (a.kind == 'is' or a.args[0] == 'eq'):
            other = [x for x in a.args[-2:] if x != 'self.res']
            if len(other) == 1 and _enum(other[0]):
                return f'verdict is {_enum(other[0])}', False
        return None

    def cgot(r: Row, v: T.Dict[str, T.Optional[bool]]) -> T.Any:
        fin = r.final.get('self.res')
        return 'unchanged' if fin is None else (_enum(fin) or '?' + short(fin, 40))
    crows = _all_rows(ctab, csem, cgot, [canon(_e('self.returncode == 0'), True)[0], canon(_e('self.res.is_bad()'), True)[0]], lambda v: True)
    cm: T.Dict[str, ast.AST] = {}
    # atoms on self.res are decided over the members the TestResult enum declares (finite declared domain)
    tr = mod.cls('TestResult')
    declared = [t.id for st in tr.body if isinstance(st, ast.Assign) for t in st.targets if isinstance(t, ast.Name) and not t.id.startswith('_')]
    ctx.floor('TestResult members', len(declared), 5)
    declared.sort(key=lambda x: (x not in ('SKIP', 'OK', 'EXPECTEDFAIL'), x))     # witnesses: the results a TAP run can end with first
    for r, g, v in crows:
        cands = [x for x in declared if v.get('already bad') in (None, x in bad_set)
                 and all(val is None or val == (x == k[len('verdict is '):]) for k, val in v.items() if k.startswith('verdict is '))]
        for x in cands:
            if v.get('exit status 0') or x in bad_set:
                if g != 'unchanged':
                    cm.setdefault(f'exit status {"0" if v.get("exit status 0") else "non-zero"}, self.res is {x}: self.res is changed to {g}', cfn)
            elif g not in bad_set:
                cm.setdefault(f'non-zero exit status while self.res is {x} (not bad): self.res stays {x if g == "unchanged" else g}; '
                              f'a non-zero exit must be reported bad', cfn)
    ctx.floor('complete() worlds', len(crows), 2)
    for msg, node in cm.items():
        ctx.violation(mod, cq, 'exit status fold', msg, node)
    if not cm:
        ctx.ok(f'{cq}: non-zero exit status turns a not-bad verdict bad, everything else is kept ({len(crows)} worlds, {len(ctab.rows)} rows)')


RULES = [
    Rule('C18.R1', 'state machine: constant propagation of state, prefix table, AFTER_TEST after a test line', r1),
    Rule('C18.R2', 'event tables: line forms, parse_test rows, plan/EOF/version rows, drivers', r2),
    Rule('C18.R3', 'counters: symbolic row effects and the beyond-plan comparison', r3),
    Rule('C18.R4', 'the parser never raises: unbounded int(), group indices, guarded optionals, raise', r4),
    Rule('C18.R5', 'verdict fold of TestRunTAP.parse / complete as decision tables', r5),
]
