"""C18 - TAP streams are interpreted per the specification (DESIGN section 2 C18, data sheets A.4 / A.17).

`TAPParser.parse_line` is a step function  (fields, line) -> (events, fields').  Every rule below decides a
projection of the statement "for every world of a finite abstraction of (fields, line) the step computed by
the code equals the step of the reference parser written from the TAP 12/13 rules of A.17":

  R1  state: next state, YAML bookkeeping, the `assert state == _MAIN`, who writes `state`
  R2  events: the event list per line form / at end of stream, plan and flag fields, `parse_test` table,
      line-form facts of the regex constants, `parse`/`parse_async` feed every line then exactly one EOF
  R3  counters: num_tests / last_test / highest_test / lineno and the beyond-plan comparison
  R4  no exception leaves parse_line / parse_test / parse / parse_async (partial-operation inventory)
  R5  TestRunTAP.parse / complete fold the events into "bad iff bad subtest, Error, Bailout or exit != 0"

The worlds are enumerated lazily by sa.rules.c18_absint (only combinations the code or the reference consult),
the code side is the function's own AST folded over abstract values, the reference side is `_ref_line` /
`_ref_test` below.  Nothing of /repo is imported or executed.
"""
from __future__ import annotations

import ast
import typing as T

from ..core import Module, Undecided, AnchorMissing, attr_chain, call_name, norm, short, walk_no_nested
from ..report import Rule, RuleCtx
from ..paths import enumerate_paths
from ..cfg import CFG
from .. import rx
from . import c18_rx
from .c18_absint import (Static, World, Interp, Hooks, Result, Raises, NeedChoice, Unknown, Line, Match, Obj, LazyObj, LazyInt,
                         EnumVal, CallEvent, RxVal, _Huge, is_huge, NODEFAULT, INT_MAX_STR_DIGITS, explore, params_of)

MTEST = 'mesonbuild/mtest.py'
PARSER = 'TAPParser'
RUNNER = 'TestRunTAP'

EXPLANATION = (
    'Decides structural clauses of C18 by comparing, on every world of a finite abstraction of (parser fields, line form, '
    'capture groups), the step computed by TAPParser.parse_line / parse_test (their own AST folded over abstract values) with a '
    'reference TAP 12/13 step: R1 state transitions (YAML only after a test line and only for version >= 13, every test line '
    'enters AFTER_TEST, `assert state == _MAIN` holds from every state, state has no other writer); R2 the event list of every '
    'line form and of end-of-stream, the seven rows of parse_test, the six line forms denoted by the regex constants (roles of '
    'their groups, pairwise disjoint), parse/parse_async pass every line and then exactly one EOF; R3 num_tests/last_test/'
    'highest_test/lineno updates and the beyond-plan comparison; R4 no exception escapes (int() of unbounded digit runs, '
    'None dereference, group index, assert, constructor arity, explicit raise); R5 TestRunTAP.parse/complete report bad iff a bad '
    'subtest, an Error or Bailout event, or a non-zero exit. Does NOT decide that the regexes tokenise arbitrary text as the TAP '
    'grammar does beyond the stated samples/roles, nor TestRun._complete / the harness.')
ASSUMPTIONS = [
    f'CPython int(str) raises ValueError beyond {INT_MAX_STR_DIGITS} digits (default int_max_str_digits, Python >= 3.11)',
    're.match binds group n to the n-th parenthesis of the pattern; groups under the same optional construct are set together',
    'lines handed to parse_line are str or None (annotation of parse / parse_async)',
    'TestRun.res is RUNNING or a harness verdict (TIMEOUT/INTERRUPT) when TestRunTAP.parse starts',
]
TECHNIQUE = 'finite-domain abstract interpretation of the step function vs a reference step (lazy worlds), regex-structure facts, engine paths/CFG'

INDENT = ' \t '          # representative of a YAML indent (unique token, so `startswith(indent)` is recognisable)
ERR = ('Error',)

REPS: T.Dict[T.Tuple[str, str], T.List[T.Any]] = {
    ('test', 'status'): ['ok', 'not ok'], ('test', 'digits'): ['1', '5'], ('test', 'name'): ['name '],
    ('test', 'directive'): ['SKIP'], ('test', 'text'): ['why'],
    ('plan', 'digits'): ['0', '4'], ('plan', 'directive'): ['skip', 'SKIP-all', 'todo'], ('plan', 'text'): ['why'],
    ('bailout', 'text'): ['msg'], ('version', 'digits'): ['12', '13', '14'], ('yaml_start', 'indent'): [INDENT],
}
STATE_FIELDS = ('state', 'yaml_lineno', 'yaml_indent', 'version')
EVENT_FIELDS = ('plan', 'bailed_out', 'found_late_test')
COUNTER_FIELDS = ('num_tests', 'last_test', 'highest_test', 'lineno')


# ----------------------------------------------------------------------------------------------
# static facts of the parser class
# ----------------------------------------------------------------------------------------------
class Facts:
    def __init__(self, ctx: RuleCtx):
        self.repo = ctx.repo
        self.mod = ctx.repo.module(MTEST)
        self.static = Static(self.repo, self.mod)
        self.cls = self.mod.cls(PARSER)
        self.parse_line = self.mod.func(f'{PARSER}.parse_line')
        self.parse_test = self.mod.func(f'{PARSER}.parse_test')
        st = {}
        for name in ('_MAIN', '_AFTER_TEST', '_YAML'):
            v = self.static.class_attr(PARSER, name)
            if v is NODEFAULT:
                raise AnchorMissing(f'{MTEST}: {PARSER}.{name} not found')
            if not isinstance(v, int):
                raise Undecided(f'{PARSER}.{name} does not fold to an integer: {v!r}')
            st[name] = v
        self.MAIN, self.AFTER, self.YAML = st['_MAIN'], st['_AFTER_TEST'], st['_YAML']
        self.state_name = {self.MAIN: 'MAIN', self.AFTER: 'AFTER_TEST', self.YAML: 'YAML'}
        # regex constants: the line form each is meant to denote (anchor by name) and what its structure denotes
        self.forms: T.Dict[str, T.Tuple[str, c18_rx.Form]] = {}
        self.regexes: T.Dict[str, RxVal] = {}
        self.form_problems: T.List[T.Tuple[str, str, str, str]] = []    # (constant, kind, category, text)
        for n, kind in FORM_OF.items():
            v = self.static.class_attr(PARSER, n)
            if v is NODEFAULT:
                raise AnchorMissing(f'{MTEST}: {PARSER}.{n} not found')
            if not isinstance(v, RxVal):
                raise Undecided(f'{PARSER}.{n} does not fold to a compiled pattern: {v!r}')
            self.regexes[n] = v
            if v.form is not None and v.form.kind == kind:
                self.forms[kind] = (n, v.form)
            else:
                probs = c18_rx.diagnose(v.pattern, v.flags, kind) or [('structure', f'denotes the {v.form.kind if v.form else "?"} form')]
                self.form_problems.extend((n, kind, cat, txt) for cat, txt in probs)


FORM_OF = {'_RE_TEST': 'test', '_RE_PLAN': 'plan', '_RE_BAILOUT': 'bailout', '_RE_VERSION': 'version',
           '_RE_YAML_START': 'yaml_start', '_RE_YAML_END': 'yaml_end'}


def facts(ctx: RuleCtx) -> Facts:
    f = getattr(ctx.check, '_c18_facts', None)
    if f is None:
        try:
            f = Facts(ctx)
        except Exception as e:
            f = e
        setattr(ctx.check, '_c18_facts', f)
    if isinstance(f, Exception):
        raise f
    return T.cast(Facts, f)


# ----------------------------------------------------------------------------------------------
# inputs of parse_line: lazy domains shared by the code side and the reference side
# ----------------------------------------------------------------------------------------------
class LineDom(Hooks):
    opaque_methods = frozenset({'parse_test'})

    def __init__(self, facts: Facts, world: World):
        self.f = facts
        self.w = world
        self.initial_plan = LazyObj(f'{PARSER}.Plan', self._plan_attr, 'plan seen earlier')

    def is_eof(self) -> bool:
        return self.w.choose(('line',), ['text', 'eof']) == 'eof'

    def conc(self, v: T.Any) -> T.Any:
        if isinstance(v, LazyInt):
            return self.w.choose(v.key, v.domain) + v.off
        return v

    def _plan_attr(self, attr: str) -> T.Any:
        dom = {'num_tests': [0, 4, 9], 'late': [False, True], 'skipped': [False], 'explanation': [None]}.get(attr)
        if dom is None:
            return Unknown(f'plan.{attr}')
        return self.w.choose(('field', 'plan.' + attr), dom)

    def field(self, name: str) -> T.Any:
        f = self.f
        key = ('field', name)
        if name == 'state':
            return self.w.choose(key, [f.MAIN, f.AFTER, f.YAML])
        if name == 'version':
            return self.w.choose(key, [12, 13])
        if name == 'plan':
            return self.initial_plan if self.w.choose(key, ['none', 'seen']) == 'seen' else None
        if name in ('found_late_test', 'bailed_out'):
            return self.w.choose(key, [False, True])
        if name == 'lineno':
            return LazyInt(key, [0, 1])
        if name == 'num_tests':
            return LazyInt(key, [0, 4, 6] if self.is_eof() else [0, 2])
        if name == 'last_test':
            return LazyInt(key, [0, 3])
        if name == 'highest_test':
            return LazyInt(key, [0, 4, 7])
        if name == 'yaml_lineno':
            return self.w.choose(key, [7])
        if name == 'yaml_indent':
            return self.w.choose(key, [INDENT])
        return NODEFAULT

    def atom(self, name: str) -> bool:
        return bool(self.w.choose(('atom', name), [False, True]))

    def line_class(self) -> str:
        return T.cast(str, self.w.choose(('atom', 'class'), ['test', 'plan', 'bailout', 'version', 'unknown']))

    def indent_token(self) -> T.Any:
        return INDENT

    def group(self, form: c18_rx.Form, index: int) -> T.Any:
        role = form.roles[index]
        reps = list(REPS.get((form.kind, role), []))
        if not reps:
            raise Undecided(f'no representatives for group {index} ({role}) of the {form.kind} form')
        if role == 'digits':
            lo, hi = form.bounds[index]
            if hi is None or hi > INT_MAX_STR_DIGITS:
                reps.append(_Huge(f'{form.kind}-line number ({self.f.forms[form.kind][0]} group {index})'))
        if form.optional.get(index):
            lead = form.leader.get(index, index)
            if lead != index:
                if self.group(form, lead) is None:
                    return None
            else:
                reps = [None] + reps
        return self.w.choose(('group', form.kind, role), reps)

    def grp(self, kind: str, role: str) -> T.Any:
        if kind not in self.f.forms:
            raise Undecided(f'no regex constant denotes the {kind} line form')
        form = self.f.forms[kind][1]
        for i, r in form.roles.items():
            if r == role:
                return self.group(form, i)
        raise Undecided(f'{kind} form has no {role} group')


class Ref(T.NamedTuple):
    label: str
    events: T.List[T.Any]
    upd: T.Dict[str, T.Any]
    lenient: bool = False            # over-long number: only "no exception, an Error is reported" is required
    alt: T.Optional[T.List[T.Any]] = None   # the event list with the beyond-plan decision flipped (attributes a mismatch to R3)


def _ref_line(d: LineDom) -> Ref:
    """Reference TAP 12/13 step (DESIGN A.17), written independently of the code under analysis."""
    f, F, c = d.f, d.field, d.conc
    ev: T.List[T.Any] = []
    upd: T.Dict[str, T.Any] = {}
    if d.is_eof():
        if F('state') == f.YAML:
            ev.append(ERR)                                   # unterminated YAML block
        if F('bailed_out'):
            return Ref('end of stream', ev, upd)             # silent after Bail out!
        plan = F('plan')
        if plan is not None and c(F('num_tests')) != plan.getter('num_tests'):
            ev.append(ERR)                                   # too few / too many
            return Ref('end of stream', ev, upd)
        if c(F('highest_test')) != c(F('num_tests')):
            ev.append(ERR)                                   # duplicate / missing numbers
        return Ref('end of stream', ev, upd)
    lineno = F('lineno') + 1
    upd['lineno'] = lineno
    st = F('state')
    if st == f.AFTER:
        if F('version') >= 13 and d.atom('yaml_start'):
            upd.update(state=f.YAML, yaml_lineno=lineno, yaml_indent=d.grp('yaml_start', 'indent'))
            return Ref('YAML block start', ev, upd)
        upd['state'] = f.MAIN
    elif st == f.YAML:
        if d.atom('yaml_end'):
            upd['state'] = f.MAIN
            return Ref('YAML block end', ev, upd)
        if d.atom('indented'):
            return Ref('YAML block body', ev, upd)
        ev.append(ERR)                                       # YAML block not terminated
        upd['state'] = f.MAIN
    if d.atom('blank') or d.atom('comment'):
        return Ref('blank/diagnostic line', ev, upd)
    k = d.line_class()
    if k == 'test':
        plan = F('plan')
        if plan is not None and plan.getter('late') and not F('found_late_test'):
            ev.append(ERR)                                   # test after a late plan, once
            upd['found_late_test'] = True
        upd['num_tests'] = F('num_tests') + 1
        g = d.grp('test', 'digits')
        if is_huge(g):
            return Ref('test line', ev, upd, lenient=True)
        num = F('last_test') + 1 if g is None else int(g)
        upd['last_test'] = num
        n = c(num)
        upd['highest_test'] = max(c(F('highest_test')), n)
        exceeds = plan is not None and n > plan.getter('num_tests')
        call = ('call', 'parse_test', [d.grp('test', 'status') == 'ok', n, d.grp('test', 'name'), d.grp('test', 'directive'), d.grp('test', 'text')])
        upd['state'] = f.AFTER
        return Ref('test line', ev + ([ERR] if exceeds else []) + [call], upd, alt=ev + ([] if exceeds else [ERR]) + [call])
    if k == 'plan':
        if F('plan') is not None:
            ev.append(ERR)                                   # second plan
            return Ref('plan line', ev, upd)
        g = d.grp('plan', 'digits')
        if is_huge(g):
            return Ref('plan line', ev, upd, lenient=True)
        n = int(g)
        skipped = n == 0
        dv = d.grp('plan', 'directive')
        if dv:
            if dv.upper().startswith('SKIP'):
                if n > 0:
                    ev.append(ERR)
                skipped = True
            else:
                ev.append(ERR)
        p = ('Plan', n, c(F('num_tests')) > 0, skipped, d.grp('plan', 'text'))
        ev.append(p)
        upd['plan'] = p
        return Ref('plan line', ev, upd)
    if k == 'bailout':
        ev.append(('Bailout', d.grp('bailout', 'text')))
        upd['bailed_out'] = True
        return Ref('Bail out! line', ev, upd)
    if k == 'version':
        if c(lineno) != 1:
            ev.append(ERR)
            return Ref('version line', ev, upd)
        g = d.grp('version', 'digits')
        if is_huge(g):
            return Ref('version line', ev, upd, lenient=True)
        v = int(g)
        if v < 13:
            ev.append(ERR)
            upd['version'] = ('<13',)
        else:
            ev.append(('Version', v))
            upd['version'] = v
        return Ref('version line', ev, upd)
    ev.append(('UnknownLine', 'LINE', c(lineno)))
    return Ref('unknown line', ev, upd)


def _nf(d: T.Any, v: T.Any) -> T.Any:
    """Normal form of an event / value produced by the code, comparable with the reference's."""
    v = d.conc(v)
    if isinstance(v, Line):
        return 'LINE'
    if isinstance(v, Obj):
        name = v.cls.split('.')[-1]
        if name == 'Error':
            return ERR
        return (name,) + tuple(_nf(d, x) for x in v.fields.values())
    if isinstance(v, LazyObj):
        return ('initial', v.label)
    if isinstance(v, CallEvent):
        return ('call', v.name, [_nf(d, x) for x in v.args.values()])
    if isinstance(v, Unknown):
        return ('?', v.why)
    return v


class Diff(T.NamedTuple):
    kind: str        # state | events | flags | counters | exceeds | raise
    what: str
    msg: str


class LineRun(T.NamedTuple):
    label: str
    state0: T.Optional[int]
    res: Result
    diffs: T.List[Diff]


def _field_diffs(d: LineDom, res: Result, ref: Ref) -> T.List[Diff]:
    out: T.List[Diff] = []
    f = d.f
    for name in STATE_FIELDS + EVENT_FIELDS + COUNTER_FIELDS:
        chain = 'self.' + name
        in_code, in_ref = chain in res.heap, name in ref.upd
        if not in_code and not in_ref:
            continue
        if name in ('yaml_lineno', 'yaml_indent') and not in_ref:
            continue          # only meaningful while a YAML block is open
        got = res.heap[chain] if in_code else d.field(name)
        want = ref.upd[name] if in_ref else d.field(name)
        if isinstance(got, LazyInt) and got.same(want):
            continue
        g, w = _nf(d, got), _nf(d, want)
        if name == 'plan' and not in_ref:
            ok = got is want
        elif name == 'version' and w == ('<13',):
            ok = isinstance(g, int) and g < 13
        elif name == 'state':
            ok = g == w
            g, w = f.state_name.get(g, g), f.state_name.get(w, w)
        else:
            ok = (g == w) and type(g) is type(w)
        if not ok:
            kind = 'state' if name in STATE_FIELDS else 'flags' if name in EVENT_FIELDS else 'counters'
            out.append(Diff(kind, f'field {name}', f'{name} becomes {g!r}, the reference step gives {w!r}'))
    return out


def _run_line(facts: Facts, w: World) -> LineRun:
    d = LineDom(facts, w)
    fn = facts.parse_line
    ps = params_of(fn)
    if len(ps) != 1:
        raise Undecided('parse_line: expected exactly one parameter (the line)')
    line = None if d.is_eof() else Line(False)
    it = Interp(facts.static, w, d)
    res = it.run(fn.body, PARSER, {ps[0]: line})
    ref = _ref_line(d)
    state0 = w.vals.get(('field', 'state'))
    diffs: T.List[Diff] = []
    if res.raised is not None:
        diffs.append(Diff('raise', res.raised.exc, str(res.raised)))
        return LineRun(ref.label, state0, res, diffs)
    got = [_nf(d, e) for e in res.events]
    if ref.lenient:
        if ERR not in got:
            diffs.append(Diff('events', 'over-long number', f'no Error event for a number of more than {INT_MAX_STR_DIGITS} digits; events: {got}'))
        return LineRun(ref.label, state0, res, diffs)
    if got != ref.events:
        if ref.alt is not None and got == ref.alt:
            diffs.append(Diff('exceeds', 'beyond-plan test', f'events {got}; the reference compares the test number with plan.num_tests by `>` and gives {ref.events}'))
        else:
            diffs.append(Diff('events', 'event list', f'events {got}; the reference step gives {ref.events}'))
    diffs.extend(_field_diffs(d, res, ref))
    return LineRun(ref.label, state0, res, diffs)


class Model:
    """All abstract runs of parse_line and parse_test, computed once per check."""

    def __init__(self, ctx: RuleCtx):
        self.facts = facts(ctx)
        f = self.facts
        if f.form_problems:
            raise Undecided('the line-form abstraction needs all six regex constants to denote their TAP line form: '
                            + '; '.join(f'{n} ({k}): {t}' for n, k, c, t in f.form_problems[:4]))
        self.gaps: T.List[str] = []
        self.line_runs = explore(lambda w: _run_line(f, w))
        self.test_runs = _explore_parse_test(f)
        self._coverage(f.parse_line, 'parse_line')
        self._coverage(f.parse_test, 'parse_test')

    def _coverage(self, fn: T.Any, name: str) -> None:
        """Every condition atom / polarity the engine's path enumeration sees was exercised by some world."""
        miss: T.Dict[str, None] = {}
        n = 0
        for p in enumerate_paths(fn.body, unroll=1):
            for e in p.events:
                if e.kind == 'cond' and e.node is not None:
                    n += 1
                    if (id(e.node), bool(e.val)) not in self.facts.static.cov:
                        miss.setdefault(f'`{short(e.node, 60)}` {"true" if e.val else "false"}')
        if miss:
            self.gaps.append(f'{name}: branches outside the abstraction (no world exercises them): ' + '; '.join(list(miss)[:6]))
        setattr(self, f'atoms_{name}', n)

    def require_covered(self) -> None:
        """Differences found in some world are definite; *agreement* is only claimed when every branch was exercised."""
        if self.gaps:
            raise Undecided('; '.join(self.gaps))


def model(ctx: RuleCtx) -> Model:
    m = getattr(ctx.check, '_c18_model', None)
    if m is None:
        try:
            m = Model(ctx)
        except Exception as e:
            m = e
        setattr(ctx.check, '_c18_model', m)
    if isinstance(m, Exception):
        raise m
    return T.cast(Model, m)


def _report(ctx: RuleCtx, mod: Module, func: str, runs: T.Sequence[T.Any], kinds: T.Tuple[str, ...], group: T.Callable[[T.Any], str],
            what: str, only_exc: T.Optional[T.Callable[[str], bool]] = None) -> None:
    """One obligation per group of worlds: discharged, or one violation per distinct (group, difference)."""
    by: T.Dict[str, T.List[T.Any]] = {}
    for w, r in runs:
        by.setdefault(group(r), []).append((w, r))
    for g, items in by.items():
        bad: T.Dict[T.Tuple[str, str], T.List[T.Any]] = {}
        for w, r in items:
            for df in r.diffs:
                if df.kind in kinds and (df.kind != 'raise' or only_exc is None or only_exc(df.what)):
                    bad.setdefault((df.kind, df.what), []).append((w, r, df))
        if not bad:
            ctx.ok(f'{g}: {what} agree with the reference in {len(items)} worlds')
            continue
        for (kind, wt), lst in bad.items():
            w, r, df = lst[0]
            node = r.res.raised.node if (kind == 'raise' and r.res.raised is not None and r.res.raised.node is not None) else r.res.last
            ctx.violation(mod, func, f'{g}: {wt}', f'{df.msg} - in {len(lst)} of {len(items)} worlds, e.g. [{w.describe()}]', node)


# ----------------------------------------------------------------------------------------------
# R1 state machine
# ----------------------------------------------------------------------------------------------
def r1(ctx: RuleCtx) -> None:
    m = model(ctx)
    f = m.facts
    mod = f.mod
    # domain: three distinct constants, the initial state is _MAIN
    ctx.require(len({f.MAIN, f.AFTER, f.YAML}) == 3, 'the three state constants are distinct', mod, PARSER, '_MAIN/_AFTER_TEST/_YAML',
                f'state constants collide: _MAIN={f.MAIN} _AFTER_TEST={f.AFTER} _YAML={f.YAML}')
    init = f.static.class_attr(PARSER, 'state')
    ctx.require(init == f.MAIN, 'a new parser starts in _MAIN', mod, PARSER, 'state', f'class default of state is {init!r}, not _MAIN')
    v0 = f.static.class_attr(PARSER, 'version')
    ctx.require(isinstance(v0, int) and v0 < 13, 'a new parser assumes TAP 12 (no YAML) until a version line', mod, PARSER, 'version',
                f'class default of version is {v0!r}')
    # who writes the parser fields: only the step function (and helpers it calls, which are inlined).  A write elsewhere
    # is invisible to the transition table: the analysis cannot tell (undecided), it is not by itself a defect.
    reach = _self_callees(f, 'parse_line')
    fields = set(STATE_FIELDS + EVENT_FIELDS + COUNTER_FIELDS)
    writers = []
    for name, fn in mod.methods(PARSER).items():
        for n in walk_no_nested(fn):
            if isinstance(n, ast.Attribute) and isinstance(n.ctx, ast.Store) and n.attr in fields and attr_chain(n.value) == 'self':
                writers.append((name, n))
    outside = sorted({f'{name} writes self.{n.attr}' for name, n in writers if name not in reach})
    if outside:
        raise Undecided(f'parser fields are written outside parse_line and the helpers it calls: {"; ".join(outside)}')
    nstate = sum(1 for _, n in writers if n.attr == 'state')
    ctx.floor('writes of self.state', nstate, 4)
    ctx.ok(f'all {len(writers)} writes of the parser fields ({nstate} of self.state) are in {sorted(reach)}: the step table describes every transition')
    # transitions
    runs = [(w, r) for w, r in m.line_runs]
    ctx.floor('abstract worlds of parse_line', len(runs), 1200)

    def grp(r: LineRun) -> str:
        return f'state {f.state_name.get(r.state0, "any")}, {r.label}'
    _report(ctx, mod, f'{PARSER}.parse_line', runs, ('state', 'raise'), grp, 'next state / YAML bookkeeping / state assertion',
            only_exc=lambda e: e == 'AssertionError')
    asserts = [n for n in walk_no_nested(f.parse_line) if isinstance(n, ast.Assert)]
    for a in asserts:
        hits = f.static.hits.get(id(a), 0)
        if hits == 0:
            raise Undecided(f'assert `{short(a.test)}` is never reached in the abstraction')
        ctx.note(f'`{short(a)}` evaluated in {hits} abstract runs')
    m.require_covered()
    ctx.note(f'all {m.atoms_parse_line} condition events on the engine paths of parse_line are exercised by some world; {f.static.runs} abstract runs in total')   # type: ignore[attr-defined]


def _self_callees(f: Facts, root: str) -> T.Set[str]:
    meths = f.mod.methods(PARSER)
    seen = {root}
    todo = [root]
    while todo:
        fn = meths.get(todo.pop())
        if fn is None:
            continue
        for n in walk_no_nested(fn):
            if isinstance(n, ast.Call) and isinstance(n.func, ast.Attribute) and attr_chain(n.func.value) == 'self' \
                    and n.func.attr in meths and n.func.attr not in seen and n.func.attr not in LineDom.opaque_methods:
                seen.add(n.func.attr)
                todo.append(n.func.attr)
    return seen


# ----------------------------------------------------------------------------------------------
# R2 events
# ----------------------------------------------------------------------------------------------
DIRECTIVES = [None, 'SKIP', 'skip', 'Skipped', 'TODO', 'todo', 'ToDo', 'FIXME', 'TODOS', 'SKI', '']
EXPLANATIONS = [None, '', ' why ']


class TestDom(Hooks):
    def __init__(self, w: World):
        self.w = w


class TestRunRow(T.NamedTuple):
    label: str
    res: Result
    diffs: T.List[Diff]


def _ref_test(ok: bool, num: int, name: str, directive: T.Optional[str], explanation: T.Optional[str]) -> T.Tuple[str, T.List[T.Any]]:
    """A.17: (directive, ok) -> events."""
    expl = explanation.strip() if explanation else None
    nm = name.strip()

    def test(res: str) -> T.Any:
        return ('Test', num, nm, EnumVal('TestResult', res), expl)
    plain = test('OK' if ok else 'FAIL')
    if directive is None:
        return 'no directive', [plain]
    d = directive.upper()
    if d.startswith('SKIP'):
        return 'SKIP directive', [test('SKIP') if ok else test('FAIL')]
    if d == 'TODO':
        return 'TODO directive', [test('UNEXPECTEDPASS' if ok else 'EXPECTEDFAIL')]
    return 'other directive', [ERR, plain]


def _explore_parse_test(f: Facts) -> T.List[T.Tuple[World, TestRunRow]]:
    fn = f.parse_test
    ps = params_of(fn)
    if len(ps) != 5:
        raise Undecided(f'parse_test: expected (ok, num, name, directive, explanation), found {ps}')
    out: T.List[T.Tuple[World, TestRunRow]] = []
    for ok in (True, False):
        for dv in DIRECTIVES:
            for ex in EXPLANATIONS:
                vals: T.List[T.Any] = [ok, 7, ' name ', dv, ex]
                w = World({('param', p): v for p, v in zip(ps, vals)})
                d = TestDom(w)
                it = Interp(f.static, w, d)
                res = it.run(fn.body, PARSER, dict(zip(ps, vals)))
                label, want = _ref_test(*vals)   # type: ignore[arg-type]
                diffs: T.List[Diff] = []
                if res.raised is not None:
                    diffs.append(Diff('raise', res.raised.exc, str(res.raised)))
                else:
                    got = [_nf(_ConcOnly(), e) for e in res.events]
                    if got != want:
                        diffs.append(Diff('events', 'subtest row', f'events {got}; the reference row gives {want}'))
                out.append((w, TestRunRow(f'{label}, {"ok" if ok else "not ok"}', res, diffs)))
    return out


class _ConcOnly:
    def conc(self, v: T.Any) -> T.Any:
        return v


def r2(ctx: RuleCtx) -> None:
    f = facts(ctx)
    mod = f.mod
    # K11: the six line forms, their group roles, pairwise disjoint prefix languages
    for name, kind in FORM_OF.items():
        if kind in f.forms:
            form = f.forms[kind][1]
            ctx.ok(f'{name} denotes the {kind} form: groups {dict(form.roles)}, optional {sorted(i for i, o in form.optional.items() if o)}, '
                   f'{form.samples} specification samples')
    for name, kind, cat, txt in f.form_problems:
        if cat == 'sample':
            ctx.violation(mod, PARSER, f'{name}: {txt}', f'the pattern {name} = {f.regexes[name].pattern!r} {txt} (TAP specification sample)',
                          mod.assign_value(name, f.cls))
    m = model(ctx)
    ctx.floor('regex constants denoting a TAP line form', len(f.forms), 6)
    main = ['test', 'plan', 'bailout', 'version']
    for i, a in enumerate(main):
        for b in main[i + 1:]:
            pa, pb = f.regexes[f.forms[a][0]], f.regexes[f.forms[b][0]]
            wit = rx.intersects(pa.pattern + r'[\s\S]*', pb.pattern + r'[\s\S]*', pa.flags, pb.flags)
            if wit is not None:
                raise Undecided(f'a line can be both a {a} and a {b} line (e.g. {wit!r}): the line-form abstraction is not a partition')
            ctx.ok(f'no line is both a {a} line and a {b} line (prefix languages disjoint)')
    # event lists per line form
    _report(ctx, mod, f'{PARSER}.parse_line', m.line_runs, ('events', 'flags'), lambda r: r.label, 'events, plan and flags')
    # parse_test: the seven rows
    ctx.floor('abstract worlds of parse_test', len(m.test_runs), 66)
    _report(ctx, mod, f'{PARSER}.parse_test', m.test_runs, ('events',), lambda r: r.label, 'subtest events')
    # drivers
    for q in ('parse', 'parse_async'):
        _driver(ctx, mod, q)
    m.require_covered()


def _driver(ctx: RuleCtx, mod: Module, q: str) -> None:
    """parse / parse_async: every line goes to parse_line in order, then exactly one parse_line(None); all events forwarded."""
    qn = f'{PARSER}.{q}'
    fn = mod.func(qn)
    ps = params_of(fn)
    loops = [s for s in fn.body if isinstance(s, (ast.For, ast.AsyncFor))]
    outer = [l for l in loops if ps and ps[0] in {n.id for n in ast.walk(l.iter) if isinstance(n, ast.Name)}]
    if len(outer) != 1 or not isinstance(outer[0].target, ast.Name):
        raise Undecided(f'{qn}: expected one loop over the input lines')
    loop = outer[0]
    if norm(loop.iter) != ps[0]:
        raise Undecided(f'{qn}: the loop does not iterate the input itself: {short(loop.iter)}')
    pm = mod.parent_map()

    def forwarded(call: ast.Call) -> bool:
        par = pm.get(call)
        if isinstance(par, ast.YieldFrom):
            return True
        if isinstance(par, (ast.For, ast.AsyncFor)) and par.iter is call and isinstance(par.target, ast.Name) and len(par.body) == 1:
            b = par.body[0]
            return isinstance(b, ast.Expr) and isinstance(b.value, ast.Yield) and isinstance(b.value.value, ast.Name) and b.value.value.id == par.target.id
        return False
    def call_seq(p: T.Any) -> T.List[ast.Call]:
        """parse_line calls along the path; the iterator expression of a loop is evaluated once per loop execution."""
        out: T.List[ast.Call] = []
        active: T.Set[int] = set()
        for e in p.events:
            if e.node is None:
                continue
            if e.kind == 'iter':
                if id(e.node) not in active:
                    active.add(id(e.node))
                    out.extend(c for c in walk_no_nested(e.node.iter) if isinstance(c, ast.Call))
                if e.val == 'done':
                    active.discard(id(e.node))
                if e.node is loop:
                    active = {id(loop)} if e.val != 'done' else set()
            elif e.kind in ('stmt', 'cond'):
                out.extend(c for c in walk_no_nested(e.node) if isinstance(c, ast.Call))
        return [c for c in out if call_name(c) == 'self.parse_line']
    paths = enumerate_paths(fn.body, unroll=2)
    n = 0
    for p in paths:
        calls = call_seq(p)
        n += 1
        seq = []
        for c in calls:
            a = c.args[0] if len(c.args) == 1 and not c.keywords else None
            if isinstance(a, ast.Constant) and a.value is None:
                seq.append('EOF')
            elif isinstance(a, ast.Name) and a.id == loop.target.id:
                seq.append('line')
            else:
                seq.append(f'?{short(c)}')
            if not forwarded(c):
                ctx.violation(mod, qn, c, f'the events of `{short(c)}` are not yielded to the caller', c)
        iters = sum(1 for e in p.events if e.kind == 'iter' and e.node is loop and e.val == 'iter')
        ok = p.outcome in ('fall', 'return') and seq == ['line'] * iters + ['EOF']
        if not ok:
            ctx.violation(mod, qn, f'path with {iters} line(s)', f'for {iters} input line(s) the calls are {seq} (leaving by {p.outcome}); '
                          f'expected {["line"] * iters + ["EOF"]}', fn)
    ctx.ok(f'{qn}: {n} paths: each line is passed to parse_line in order, then exactly one parse_line(None), all events yielded')


# ----------------------------------------------------------------------------------------------
# R3 counters
# ----------------------------------------------------------------------------------------------
def r3(ctx: RuleCtx) -> None:
    m = model(ctx)
    f = m.facts
    _report(ctx, f.mod, f'{PARSER}.parse_line', m.line_runs, ('counters', 'exceeds'), lambda r: r.label,
            'num_tests / last_test / highest_test / lineno and the beyond-plan comparison')
    tests = sum(1 for w, r in m.line_runs if r.label == 'test line')
    ctx.floor('abstract worlds with a test line', tests, 600)
    m.require_covered()


# ----------------------------------------------------------------------------------------------
# R4 no exception escapes
# ----------------------------------------------------------------------------------------------
def r4(ctx: RuleCtx) -> None:
    m = model(ctx)
    f = m.facts
    mod = f.mod
    pm = mod.parent_map()

    def stmt_of(n: ast.AST) -> ast.AST:
        while n in pm and not isinstance(n, ast.stmt):
            n = pm[n]
        return n
    raised: T.Dict[int, T.List[T.Tuple[World, Raises]]] = {}
    escapes: T.List[T.Tuple[str, World, Raises]] = []
    for qn, runs in ((f'{PARSER}.parse_line', m.line_runs), (f'{PARSER}.parse_test', m.test_runs)):
        for w, r in runs:
            if r.res.raised is not None:
                escapes.append((qn, w, r.res.raised))
                if r.res.raised.node is not None:
                    raised.setdefault(id(r.res.raised.node), []).append((w, r.res.raised))
    # inventory of partial operations
    n_int = n_assert = n_group = 0
    site_ids: T.Set[int] = set()
    for qn, fn in ((f'{PARSER}.parse_line', f.parse_line), (f'{PARSER}.parse_test', f.parse_test)):
        for n in _body_nodes(fn):
            kind = None
            if isinstance(n, ast.Call) and isinstance(n.func, ast.Name) and n.func.id == 'int':
                kind, n_int = 'int()', n_int + 1
            elif isinstance(n, ast.Assert):
                kind, n_assert = 'assert', n_assert + 1
            elif isinstance(n, ast.Call) and isinstance(n.func, ast.Attribute) and n.func.attr == 'group':
                kind, n_group = 'group()', n_group + 1
            elif isinstance(n, ast.Subscript) and isinstance(n.ctx, ast.Load):
                kind = 'subscript'
            if kind is None:
                continue
            site_ids.add(id(n))
            hits = f.static.hits.get(id(n), 0)
            bad = raised.get(id(n), [])
            if bad:
                w, r = bad[0]
                ctx.violation(mod, qn, f'int() of the {r.origin}' if r.origin else stmt_of(n),
                              f'{kind} `{short(n, 60)}` raises {r.exc} ({r.msg}) and nothing catches it - in {len(bad)} of {hits} '
                              f'abstract runs, e.g. [{w.describe()}]' + _int_fact(f, n), n)
            elif hits == 0:
                if kind == 'subscript':
                    raise Undecided(f'{qn}: subscript `{short(n)}` is outside the abstraction')
                raise Undecided(f'{qn}: {kind} `{short(n)}` is never evaluated in the abstraction')
            else:
                ctx.ok(f'{qn}: {kind} `{short(n, 50)}` evaluated in {hits} abstract runs, never raises past the function' + _int_fact(f, n))
    ctx.floor('int() sites', n_int, 3)
    ctx.floor('assert sites', n_assert, 1)
    ctx.floor('match.group() sites', n_group, 10)
    # anything else that escapes (None dereference, constructor arity, ...)
    other: T.Dict[str, T.List[T.Tuple[str, World, Raises]]] = {}
    for qn, w, r in escapes:
        if r.node is not None and id(r.node) in site_ids:
            continue
        other.setdefault(f'{qn}|{norm(stmt_of(r.node)) if r.node is not None else r.exc}', []).append((qn, w, r))
    for key, lst in other.items():
        qn, w, r = lst[0]
        ctx.violation(mod, qn, stmt_of(r.node) if r.node is not None else r.exc, f'{r.exc} ({r.msg}) escapes in {len(lst)} abstract runs, '
                      f'e.g. [{w.describe()}]', r.node)
    if not other:
        ctx.ok(f'no other exception (None dereference, arity, type error) in {len(m.line_runs) + len(m.test_runs)} abstract runs')
    # no explicit raise is reachable; the drivers contain no partial operation of their own
    for q in ('parse_line', 'parse_test', 'parse', 'parse_async'):
        fn = mod.func(f'{PARSER}.{q}')
        cfg = CFG(fn)
        reach = cfg.reachable([cfg.entry])
        rs = [n for n in cfg.nodes if n.kind == 'stmt' and isinstance(n.ast, ast.Raise) and n.id in reach and cfg.can_reach(n, cfg.exit_raise)]
        for n in rs:
            ctx.violation(mod, f'{PARSER}.{q}', n.ast, f'`{short(n.ast)}` is reachable and leaves {q}', n.ast)
        if not rs:
            ctx.ok(f'{PARSER}.{q}: no reachable raise statement leaves the function ({len(cfg.nodes)} CFG nodes)')
    for q in ('parse', 'parse_async'):
        fn = mod.func(f'{PARSER}.{q}')
        partial = [n for n in _body_nodes(fn) if isinstance(n, (ast.Subscript, ast.Assert))
                   or (isinstance(n, ast.Call) and call_name(n) not in ('self.parse_line',))]
        ctx.require(not partial, f'{PARSER}.{q}: only iterates its input and calls parse_line', mod, f'{PARSER}.{q}', fn,
                    f'{q} contains operations of its own that can raise: {[short(x, 40) for x in partial]}')
    m.require_covered()


def _body_nodes(fn: T.Any) -> T.Iterator[ast.AST]:
    """Nodes of the statements of fn (no nested definitions, no annotations)."""
    stack: T.List[ast.AST] = list(reversed(fn.body))
    while stack:
        n = stack.pop()
        yield n
        if isinstance(n, (ast.FunctionDef, ast.AsyncFunctionDef, ast.ClassDef, ast.Lambda)):
            continue
        for name, val in ast.iter_fields(n):
            if name in ('annotation', 'returns'):
                continue
            if isinstance(val, ast.AST):
                stack.append(val)
            elif isinstance(val, list):
                stack.extend(x for x in reversed(val) if isinstance(x, ast.AST))


def _int_fact(f: Facts, call: ast.AST) -> str:
    """Which capture group feeds an int() call, and whether its digit run is bounded (regex-structure fact)."""
    if not (isinstance(call, ast.Call) and isinstance(call.func, ast.Name) and call.func.id == 'int' and call.args):
        return ''
    a = call.args[0]
    if isinstance(a, ast.Call) and isinstance(a.func, ast.Attribute) and a.func.attr == 'group' and a.args and isinstance(a.args[0], ast.Constant):
        n = a.args[0].value
        facts = []
        for kind, (name, form) in f.forms.items():
            if form.roles.get(n) == 'digits':
                lo, hi = form.bounds[n]
                facts.append(f'{name} group {n} = {lo}..{"unbounded" if hi is None else hi} digits')
        if facts:
            return ' [' + '; '.join(facts) + ']'
    return ''


# ----------------------------------------------------------------------------------------------
# R5 verdict fold
# ----------------------------------------------------------------------------------------------
TAP_RESULTS = ['OK', 'FAIL', 'SKIP', 'UNEXPECTEDPASS', 'EXPECTEDFAIL']
BAD_SUBTEST = {'FAIL', 'UNEXPECTEDPASS'}        # property statement: "some subtest failed or unexpectedly passed"


def _tr(name: str) -> EnumVal:
    return EnumVal('TestResult', name)


class FoldDom(Hooks):
    """Inputs of TestRunTAP.parse / complete."""

    def __init__(self, w: World, tracked: T.Set[str], selfres: T.List[str], allskip: T.Callable[[ast.AST], bool]):
        self.w = w
        self.tracked = tracked
        self.selfres = selfres
        self.allskip = allskip

    def field(self, name: str) -> T.Any:
        if name == 'res':
            return _tr(self.w.choose(('field', 'res'), self.selfres))
        if name == 'returncode':
            return self.w.choose(('field', 'returncode'), [0, 1])
        return NODEFAULT

    def skip_loop(self, st: ast.AST) -> bool:
        for n in ast.walk(st):
            if isinstance(n, (ast.Return, ast.Yield, ast.YieldFrom, ast.Await)):
                return False
            if isinstance(n, (ast.Name, ast.Attribute)) and isinstance(n.ctx, ast.Store) and (attr_chain(n) or '') in self.tracked:
                return False
        return True

    def free(self, node: ast.AST, why: str) -> T.Optional[T.Any]:
        if self.allskip(node):
            return 'all results are SKIP'
        reads = {n.id for n in ast.walk(node) if isinstance(n, ast.Name)} | {attr_chain(n) or '' for n in ast.walk(node) if isinstance(n, ast.Attribute)}
        if reads & self.tracked:
            return None
        return norm(node)


def _is_allskip(e: ast.AST) -> bool:
    """`all(<x>.result is TestResult.SKIP for <x> in self.results)`"""
    if not (isinstance(e, ast.Call) and isinstance(e.func, ast.Name) and e.func.id == 'all' and len(e.args) == 1 and isinstance(e.args[0], ast.GeneratorExp)):
        return False
    g = e.args[0]
    if len(g.generators) != 1 or g.generators[0].ifs or attr_chain(g.generators[0].iter) != 'self.results' or not isinstance(g.generators[0].target, ast.Name):
        return False
    v = g.generators[0].target.id
    c = g.elt
    if not (isinstance(c, ast.Compare) and len(c.ops) == 1 and isinstance(c.ops[0], (ast.Is, ast.Eq))):
        return False
    sides = {attr_chain(c.left), attr_chain(c.comparators[0])}
    return sides == {f'{v}.result', 'TestResult.SKIP'}


def _assigned(stmts: T.List[ast.stmt]) -> T.Set[str]:
    out: T.Set[str] = set()
    for s in stmts:
        for n in ast.walk(s):
            if isinstance(n, ast.Name) and isinstance(n.ctx, ast.Store):
                out.add(n.id)
    return out


def r5(ctx: RuleCtx) -> None:
    mod = ctx.repo.module(MTEST)
    static = Static(ctx.repo, mod)
    fn = mod.func(f'{RUNNER}.parse')
    qn = f'{RUNNER}.parse'
    # which TestResult values are "bad": folded from TestResult.is_bad
    def is_bad(name: str) -> bool:
        it = Interp(static, World(), Hooks())
        v = it.enum_method(_tr(name), 'is_bad', [], fn)
        if not isinstance(v, bool):
            raise Undecided(f'TestResult.is_bad() does not fold for {name}: {v!r}')
        return v
    for name in TAP_RESULTS + ['ERROR', 'RUNNING', 'TIMEOUT', 'INTERRUPT']:
        want = name in BAD_SUBTEST or name in ('ERROR', 'TIMEOUT', 'INTERRUPT')
        ctx.require(is_bad(name) == want, f'TestResult.{name}.is_bad() is {want}', mod, 'TestResult.is_bad', f'TestResult.{name}',
                    f'TestResult.{name}.is_bad() is {is_bad(name)}; the property counts it as {"bad" if want else "not bad"}')
    # shape: locals; one loop over TAPParser().parse_async(lines); tail
    loops = [s for s in fn.body if isinstance(s, (ast.For, ast.AsyncFor))]
    if len(loops) != 1 or not isinstance(loops[0].target, ast.Name):
        raise Undecided(f'{qn}: expected one loop over the parser events')
    loop = loops[0]
    ps = params_of(fn)
    it_ok = (isinstance(loop.iter, ast.Call) and isinstance(loop.iter.func, ast.Attribute) and loop.iter.func.attr in ('parse_async', 'parse')
             and isinstance(loop.iter.func.value, ast.Call) and norm(loop.iter.func.value) == f'{PARSER}()'
             and len(loop.iter.args) == 1 and isinstance(loop.iter.args[0], ast.Name) and loop.iter.args[0].id in ps)
    ctx.require(it_ok, f'{qn}: the events are those of a fresh {PARSER}() over the test output', mod, qn, loop.iter,
                f'the loop iterates `{short(loop.iter)}`, not {PARSER}().parse_async(<lines>)')
    idx = fn.body.index(loop)
    pre, tail = fn.body[:idx], fn.body[idx + 1:]
    ev_name = loop.target.id
    # the verdict accumulator: the local that is finally stored into self.res
    acc = None
    for s in ast.walk(fn):
        if isinstance(s, ast.Assign) and any(attr_chain(t) == 'self.res' for t in s.targets) and isinstance(s.value, ast.Name):
            acc = s.value.id
    if acc is None:
        raise Undecided(f'{qn}: no local verdict is stored into self.res')
    tracked = {acc, 'self.res', 'self.returncode'}
    havoc = _assigned(loop.body) - {acc}
    plan_cls, test_cls = f'{PARSER}.Plan', f'{PARSER}.Test'
    events: T.Dict[str, T.Callable[[], T.Any]] = {
        'Version': lambda: Obj(f'{PARSER}.Version', {'version': 13}),
        'Plan': lambda: Obj(plan_cls, {'num_tests': 2, 'late': False, 'skipped': False, 'explanation': None}),
        'Bailout': lambda: Obj(f'{PARSER}.Bailout', {'message': 'msg'}),
        'UnknownLine': lambda: Obj(f'{PARSER}.UnknownLine', {'message': 'x', 'lineno': 3}),
        'Error': lambda: Obj(f'{PARSER}.Error', {'message': 'msg'}),
    }
    for r in TAP_RESULTS:
        events[f'Test {r}'] = (lambda r=r: Obj(test_cls, {'number': 1, 'name': 'n', 'result': _tr(r), 'explanation': None}))
    ACC = [None, 'FAIL', 'ERROR']

    def accval(x: T.Optional[str]) -> T.Any:
        return None if x is None else _tr(x)

    class Step(T.NamedTuple):
        ev: str
        acc0: T.Optional[str]
        acc1: T.Any
        appended: bool
        res: Result

    def pre_env(w: World, d: Hooks) -> T.Dict[str, T.Any]:
        it = Interp(static, w, d)
        r = it.run(pre, RUNNER, {p: Unknown('parameter') for p in ps})
        if r.raised is not None or r.outcome != 'fall':
            raise Undecided(f'{qn}: statements before the loop do not fall through')
        return r.locals

    def run_step(w: World) -> Step:
        d = FoldDom(w, tracked, ['RUNNING'], _is_allskip)
        env = pre_env(w, d)
        kind = w.choose(('event',), list(events))
        a0 = w.choose(('acc',), ACC)
        for h in havoc:
            env[h] = Unknown('set by an earlier event')
        ev = events[kind]()
        env[acc] = accval(a0)
        env[ev_name] = ev
        it = Interp(static, w, d)
        r = it.run(loop.body, RUNNER, env)
        if r.raised is not None:
            raise Undecided(f'{qn}: loop body would raise {r.raised} for a {kind} event')
        if r.outcome not in ('fall', 'continue'):
            raise Undecided(f'{qn}: loop body leaves by {r.outcome}')
        appended = any(c == 'self.results.append' and len(a) == 1 and a[0] is ev for c, a in r.calls)
        return Step(kind, a0, r.locals.get(acc), appended, r)

    steps = explore(run_step)
    # tail: which accumulator values survive "all results are SKIP"
    class Tail(T.NamedTuple):
        acc0: T.Optional[str]
        allskip: T.Optional[bool]
        self0: str
        final: T.Any
        res: Result

    def run_tail(w: World) -> Tail:
        d = FoldDom(w, tracked, ['RUNNING', 'TIMEOUT'], _is_allskip)
        env = pre_env(w, d)
        for h in havoc:
            env[h] = Unknown('set by the events')
        a0 = w.choose(('acc',), ACC)
        env[acc] = accval(a0)
        it = Interp(static, w, d)
        r = it.run(tail, RUNNER, env)
        if r.raised is not None:
            raise Undecided(f'{qn}: statements after the loop would raise {r.raised}')
        final = r.heap['self.res'] if 'self.res' in r.heap else d.field('res')
        return Tail(a0, w.vals.get(('free', 'all results are SKIP')), w.vals[('field', 'res')] if ('field', 'res') in w.vals else 'RUNNING', final, r)

    def run_tail_full(w: World) -> Tail:
        w.choose(('field', 'res'), ['RUNNING', 'TIMEOUT'])
        w.choose(('free', 'all results are SKIP'), [False, True])
        return run_tail(w)
    tails = [t for _, t in explore(run_tail_full)]

    def bad(v: T.Any) -> bool:
        return isinstance(v, EnumVal) and is_bad(v.name)
    protected = {a for a in ('FAIL', 'ERROR') if all(bad(t.final) for t in tails if t.acc0 == a and t.self0 == 'RUNNING')}
    ctx.note(f'{qn}: verdict accumulator `{acc}`; values that survive the all-SKIP override: {sorted(protected)}')
    # step obligations
    ctx.floor('event kinds x accumulator worlds', len(steps), 30)
    by_ev: T.Dict[str, T.List[Step]] = {}
    for _, s in steps:
        by_ev.setdefault(s.ev, []).append(s)
    for kind, lst in by_ev.items():
        is_test = kind.startswith('Test ')
        bad_event = kind in ('Bailout', 'Error') or (is_test and kind.split()[1] in BAD_SUBTEST)
        msgs: T.List[str] = []
        for s in lst:
            a1 = s.acc1
            if isinstance(a1, Unknown):
                raise Undecided(f'{qn}: verdict after a {kind} event does not fold: {a1!r}')
            if bad_event:
                if not bad(a1):
                    msgs.append(f'after a {kind} event the verdict `{acc}` is {a1!r} (was {s.acc0}): the run is not marked bad')
                elif a1.name not in protected and not (is_test and s.appended and kind.split()[1] != 'SKIP'):
                    msgs.append(f'after a {kind} event `{acc}` is {a1!r}, which the all-results-SKIP override replaces by SKIP')
            else:
                if not (a1 == accval(s.acc0)):
                    msgs.append(f'a {kind} event changes the verdict `{acc}` from {s.acc0} to {a1!r}')
            if is_test and not s.appended:
                msgs.append(f'a {kind} event is not appended to self.results')
        if msgs:
            ctx.violation(mod, qn, f'{kind} event', '; '.join(dict.fromkeys(msgs)), lst[0].res.last)
        else:
            ctx.ok(f'{qn}: {kind} event: {"marks the run bad (kept by the tail)" if bad_event else "leaves the verdict unchanged"} in {len(lst)} worlds')
    # tail obligations
    ctx.floor('tail worlds', len(tails), 12)
    tmsgs: T.List[str] = []
    for t in tails:
        if isinstance(t.final, Unknown):
            raise Undecided(f'{qn}: final self.res does not fold: {t.final!r}')
        if t.acc0 is not None and t.acc0 not in protected and t.allskip:
            continue   # infeasible: an unprotected bad verdict comes with a non-SKIP result in self.results (step obligation)
        if t.self0 != 'RUNNING':
            if t.final != _tr(t.self0):
                tmsgs.append(f'a harness verdict {t.self0} is overwritten by {t.final!r}')
            continue
        if t.acc0 is not None:
            if not bad(t.final):
                tmsgs.append(f'verdict {t.acc0} (all-SKIP={t.allskip}) ends as self.res={t.final!r}: a bad run is not reported bad')
        else:
            want = _tr('SKIP') if t.allskip else _tr('RUNNING')
            if t.final != want:
                tmsgs.append(f'no bad event, all-SKIP={t.allskip}: self.res becomes {t.final!r}, expected {want!r}')
    if tmsgs:
        ctx.violation(mod, qn, 'verdict after the event loop', '; '.join(dict.fromkeys(tmsgs)), tail[-1] if tail else fn)
    else:
        ctx.ok(f'{qn}: after the loop: bad verdict kept, all-SKIP -> SKIP unless an Error/Bailout occurred, harness verdicts untouched ({len(tails)} worlds)')
    _cover(static, loop.body + tail, qn)
    # complete(): non-zero exit status
    cfn = mod.func(f'{RUNNER}.complete')
    cq = f'{RUNNER}.complete'
    supers = [s for s in cfn.body if isinstance(s, ast.Expr) and isinstance(s.value, ast.Call) and norm(s.value.func) == 'super().complete']
    ctx.require(len(supers) == 1 and cfn.body[-1] is supers[0], f'{cq}: ends with super().complete()', mod, cq, cfn, 'complete() does not end with exactly one super().complete()')

    def run_complete(w: World) -> T.Tuple[str, int, T.Any]:
        d = FoldDom(w, tracked, ['RUNNING', 'SKIP', 'OK', 'FAIL', 'ERROR', 'TIMEOUT'], _is_allskip)
        it = Interp(static, w, d)
        r = it.run(cfn.body, RUNNER, {})
        if r.raised is not None:
            raise Undecided(f'{cq} would raise {r.raised}')
        r0, rc = w.choose(('field', 'res'), d.selfres), w.choose(('field', 'returncode'), [0, 1])
        return r0, rc, (r.heap['self.res'] if 'self.res' in r.heap else _tr(r0))
    cm: T.List[str] = []
    cruns = explore(run_complete)
    for _, (r0, rc, final) in cruns:
        if isinstance(final, Unknown):
            raise Undecided(f'{cq}: self.res does not fold: {final!r}')
        if is_bad(r0) or rc == 0:
            if final != _tr(r0):
                cm.append(f'self.res={r0}, exit status {rc}: verdict changed to {final!r}')
        elif not bad(final):
            cm.append(f'self.res={r0}, exit status {rc}: verdict stays {final!r}; a non-zero exit must be reported bad')
    ctx.floor('complete() worlds', len(cruns), 12)
    if cm:
        ctx.violation(mod, cq, 'exit status fold', '; '.join(dict.fromkeys(cm)), cfn)
    else:
        ctx.ok(f'{cq}: non-zero exit status turns a not-bad verdict bad, everything else is kept ({len(cruns)} worlds)')
    _cover(static, cfn.body, cq)


def _cover(static: Static, body: T.List[ast.stmt], name: str) -> None:
    miss: T.Dict[str, None] = {}
    for p in enumerate_paths(body, unroll=1):
        for e in p.events:
            if e.kind == 'cond' and e.node is not None and (id(e.node), bool(e.val)) not in static.cov:
                miss.setdefault(f'`{short(e.node, 60)}` {"true" if e.val else "false"}')
    if miss:
        raise Undecided(f'{name}: branches outside the abstraction (no world exercises them): ' + '; '.join(list(miss)[:6]))


RULES = [
    Rule('C18.R1', 'state machine: transitions, YAML entry, state assertion, single writer', r1),
    Rule('C18.R2', 'event tables: line forms, parse_test rows, plan/EOF/version, drivers', r2),
    Rule('C18.R3', 'counters: num_tests, last_test, highest_test, beyond-plan comparison', r3),
    Rule('C18.R4', 'the parser never raises: partial-operation inventory', r4),
    Rule('C18.R5', 'verdict fold of TestRunTAP.parse / complete', r5),
]
