"""Helper for the C03 pack: origin sets with *scoped* comprehension variables,
positional projections of tuple unpacking and recorded sanitiser calls.

sa.flow.Flow (the shared E4 module) unions the iterable of a comprehension into
the value of the comprehension and keeps comprehension variables in the function
namespace; both make `[ninja_quote(i) for i in self.infilenames]` look
unsanitised.  This variant follows DESIGN B.2 but

  * a comprehension's value is the value of its element, evaluated with the
    comprehension targets bound (locally) to the iterables;
  * `a, b = x` / `for a, b in xs` with a non-display right side binds target k to
    the projection `x[k]`: origin `attr:self.elems` becomes `attr:self.elems[0]`,
    `attr:self.elems[1]`;
  * a call to a name in `cut` yields the single origin `san:<name>`; the call and
    the origin set of each of its arguments are recorded in `self.san`;
  * string constants keep their value (`const:'$DEPFILE'`), other constants are `const`;
  * methods called on a string literal are `call:str.<method>`.

It is a *may* relation, flow-insensitive inside one function (nested functions
share the namespace of the enclosing one).
"""
from __future__ import annotations

import ast
import typing as T

from ..core import attr_chain, call_name

PY_PURE = {'sorted', 'str', 'list', 'tuple', 'set', 'frozenset', 'reversed', 'len', 'repr', 'enumerate', 'zip', 'map', 'filter', 'iter', 'next', 'dict',
           'int', 'bool', 'min', 'max', 'sum', 'any', 'all', 'isinstance', 'getattr', 'format', 'bytes', 'range', 'type', 'bin', 'hex', 'ord', 'chr'}
MUTATORS = {'append', 'extend', 'insert', 'add', 'update', 'setdefault', 'appendleft', 'extendleft'}


class Proj(ast.expr):
    """value[index] produced by positional unpacking."""
    _fields = ('value',)

    def __init__(self, value: ast.AST, index: int):
        super().__init__()
        self.value = value
        self.index = index


Env = T.Dict[str, T.Tuple[ast.AST, T.Any]]   # name -> (value expression, env at binding)


class SanCall(T.NamedTuple):
    call: ast.Call
    name: str
    args: T.List[T.Set[str]]                 # origin set per positional argument
    kwargs: T.Dict[str, ast.AST]


class OFlow:
    def __init__(self, fn: T.Union[ast.FunctionDef, ast.AsyncFunctionDef], cut: T.Iterable[str] = (), opaque: bool = False):
        self.fn = fn
        self.cut = set(cut)
        self.opaque = opaque      # tag what passes through a repository callee we do not see into as `via:<callee>|origin`
        self.params: T.List[str] = []
        for f in [fn] + [n for n in ast.walk(fn) if n is not fn and isinstance(n, (ast.FunctionDef, ast.AsyncFunctionDef, ast.Lambda))]:
            a = f.args
            self.params += [x.arg for x in a.posonlyargs + a.args + a.kwonlyargs]
            if a.vararg:
                self.params.append(a.vararg.arg)
            if a.kwarg:
                self.params.append(a.kwarg.arg)
        self.defs: T.Dict[str, T.List[ast.AST]] = {}
        self.attr_defs: T.Dict[str, T.List[ast.AST]] = {}
        self.san: T.Dict[int, SanCall] = {}
        self._memo: T.Dict[str, T.Set[str]] = {}
        self._collect(fn)

    # -- definitions -----------------------------------------------------
    def _bind(self, target: ast.AST, value: ast.AST, defs: T.Dict[str, T.List[ast.AST]]) -> None:
        if isinstance(target, ast.Name):
            defs.setdefault(target.id, []).append(value)
        elif isinstance(target, (ast.Tuple, ast.List)):
            if isinstance(value, (ast.Tuple, ast.List)) and len(value.elts) == len(target.elts) \
                    and not any(isinstance(x, ast.Starred) for x in list(value.elts) + list(target.elts)):
                for t, v in zip(target.elts, value.elts):
                    self._bind(t, v, defs)
            else:
                for k, t in enumerate(target.elts):
                    if isinstance(t, ast.Starred):
                        self._bind(t.value, value, defs)
                    else:
                        self._bind(t, Proj(value, k), defs)
        elif isinstance(target, ast.Starred):
            self._bind(target.value, value, defs)
        elif isinstance(target, ast.Subscript):
            self._bind(target.value, value, defs)
        elif isinstance(target, ast.Attribute):
            c = attr_chain(target)
            if c:
                self.attr_defs.setdefault(c, []).append(value)

    def _collect(self, root: ast.AST) -> None:
        for n in ast.walk(root):
            if isinstance(n, ast.Assign):
                for t in n.targets:
                    self._bind(t, n.value, self.defs)
            elif isinstance(n, ast.AnnAssign) and n.value is not None:
                self._bind(n.target, n.value, self.defs)
            elif isinstance(n, ast.AugAssign):
                self._bind(n.target, n.value, self.defs)
            elif isinstance(n, (ast.For, ast.AsyncFor)):
                self._bind(n.target, Proj(n.iter, -1), self.defs)
            elif isinstance(n, (ast.With, ast.AsyncWith)):
                for i in n.items:
                    if i.optional_vars is not None:
                        self._bind(i.optional_vars, i.context_expr, self.defs)
            elif isinstance(n, ast.NamedExpr):
                self._bind(n.target, n.value, self.defs)
            elif isinstance(n, ast.Call) and isinstance(n.func, ast.Attribute) and n.func.attr in MUTATORS:
                for a in list(n.args) + [k.value for k in n.keywords]:
                    self._bind(n.func.value, a.value if isinstance(a, ast.Starred) else a, self.defs)

    def _is_opaque(self, e: ast.Call) -> bool:
        f = e.func
        if isinstance(f, ast.Name):
            if any(isinstance(d, ast.Call) for d in self.defs.get(f.id, [])):
                return True       # a local bound to the result of a call (a callable factory the normal form did not expand): what it does to its operand is not read
            return f.id not in PY_PURE and f.id not in self.defs and f.id not in self.params
        return isinstance(f, ast.Attribute) and isinstance(f.value, ast.Name) and f.value.id in ('self', 'cls')

    # -- evaluation ------------------------------------------------------
    def origins(self, e: ast.AST, env: T.Optional[Env] = None) -> T.Set[str]:
        out: T.Set[str] = set()
        self._leaves(e, out, frozenset(), env or {})
        return out

    def _name(self, name: str, out: T.Set[str], busy: T.FrozenSet[str], env: Env) -> None:
        if name in env:
            v, env0 = env[name]
            key = f'<env>{name}@{id(v)}'
            if key in busy:
                return
            self._leaves(v, out, busy | {key}, env0)
            return
        if name in self._memo:
            out |= self._memo[name]
            return
        if name in busy:
            return
        acc: T.Set[str] = set()
        if name in self.params:
            acc.add(f'param:{name}')
        if name not in self.defs and name not in self.params:
            acc.add(f'name:{name}')
        for v in self.defs.get(name, []):
            self._leaves(v, acc, busy | {name}, {})
        if not busy:
            self._memo[name] = acc
        out |= acc

    def _comp_env(self, gens: T.List[ast.comprehension], env: Env) -> Env:
        env = dict(env)
        for g in gens:
            local: T.Dict[str, T.List[ast.AST]] = {}
            self._bind(g.target, Proj(g.iter, -1), local)
            snapshot = dict(env)
            for nm, vals in local.items():
                env[nm] = (vals[0], snapshot)
        return env

    def _leaves(self, e: ast.AST, out: T.Set[str], busy: T.FrozenSet[str], env: Env) -> None:
        if isinstance(e, Proj):
            sub: T.Set[str] = set()
            self._leaves(e.value, sub, busy, env)
            for o in sub:
                if e.index >= 0 and o.split(':', 1)[0] in ('attr', 'param', 'name', 'call'):
                    out.add(f'{o}[{e.index}]')
                else:
                    out.add(o)        # index -1: "an element of" keeps the origin of the collection
        elif isinstance(e, ast.Name):
            self._name(e.id, out, busy, env)
        elif isinstance(e, ast.Attribute):
            c = attr_chain(e)
            if c is not None:
                base = c.split('.')[0]
                if base in env or base in self.defs or base in self.params:
                    self._name(base, out, busy, env)
                if base not in env:
                    out.add(f'attr:{c}')
                    for v in self.attr_defs.get(c, []):
                        self._leaves(v, out, busy, {})
            else:
                self._leaves(e.value, out, busy, env)
        elif isinstance(e, ast.Call):
            cn = call_name(e)
            if cn is None and isinstance(e.func, ast.Attribute) and isinstance(e.func.value, (ast.Constant, ast.JoinedStr)):
                cn = f'str.{e.func.attr}'
            cn = cn or '<dynamic>'
            last = cn.split('.')[-1]
            if cn in self.cut or last in self.cut:
                out.add(f'san:{last}')
                if id(e) not in self.san:
                    self.san[id(e)] = SanCall(e, last, [self.origins(a.value if isinstance(a, ast.Starred) else a, env) for a in e.args],
                                              {k.arg: k.value for k in e.keywords if k.arg})
                return
            out.add(f'call:{cn}')
            if self.opaque and self._is_opaque(e):
                sub: T.Set[str] = set()
                for a in e.args:
                    self._leaves(a.value if isinstance(a, ast.Starred) else a, sub, busy, env)
                for k in e.keywords:
                    self._leaves(k.value, sub, busy, env)
                for o in sub:
                    out.add(o if o.split(':', 1)[0] in ('const', 'san', 'via') or o == 'param:self' else f'via:{cn}|{o}')
                return
            if isinstance(e.func, ast.Attribute):
                self._leaves(e.func.value, out, busy, env)
            for a in e.args:
                self._leaves(a.value if isinstance(a, ast.Starred) else a, out, busy, env)
            for k in e.keywords:
                self._leaves(k.value, out, busy, env)
        elif isinstance(e, ast.Constant):
            out.add(f'const:{e.value!r}' if isinstance(e.value, str) and len(e.value) <= 40 else 'const')
        elif isinstance(e, ast.Lambda):
            self._leaves(e.body, out, busy, env)
        elif isinstance(e, (ast.ListComp, ast.SetComp, ast.GeneratorExp)):
            self._leaves(e.elt, out, busy, self._comp_env(e.generators, env))
        elif isinstance(e, ast.DictComp):
            env2 = self._comp_env(e.generators, env)
            self._leaves(e.key, out, busy, env2)
            self._leaves(e.value, out, busy, env2)
        elif isinstance(e, ast.IfExp):
            self._leaves(e.body, out, busy, env)       # the test selects, it does not flow
            self._leaves(e.orelse, out, busy, env)
        elif isinstance(e, ast.Compare):
            out.add('const')                            # a boolean
        else:
            for ch in ast.iter_child_nodes(e):
                if isinstance(ch, (ast.expr, ast.keyword, ast.FormattedValue)):
                    self._leaves(ch, out, busy, env)


def via_of(o: str) -> T.Optional[T.Tuple[str, str]]:
    """'via:callee|origin' -> (callee, origin)"""
    if o.startswith('via:'):
        c, _, rest = o[4:].partition('|')
        return c, rest
    return None


def strip_proj(o: str) -> str:
    while o.endswith(']') and '[' in o:
        o = o[:o.rindex('[')]
    return o
