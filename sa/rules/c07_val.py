"""C07.R5 — decision tables of the validate_value family against the reference conditions (DESIGN A.17)."""
from __future__ import annotations

import ast
import re
import typing as T

from ..core import Undecided, norm, kwarg, short
from ..report import RuleCtx
from .. import tables
from ..tables import Atom, canon
from ..consteval import fold_expr
from . import c07_sym as S

OPT = 'mesonbuild/options.py'
EXC = 'MesonException'


def A(text: str) -> Atom:
    a, v = canon(S.sub({}, ast.parse(text, mode='eval').body), True)
    assert v, text
    return a


def P(text: str) -> str:
    return norm(S.sub({}, ast.parse(text, mode='eval').body))


def type_of(w: T.Dict[Atom, bool], subject: str) -> str:
    """The builtin type world of `subject` in world w: bool | int | str | ... | <other>."""
    atoms = [(a, v) for a, v in w.items() if a.kind == 'isinstance' and a.args[0] == subject]
    cands = sorted({t for a, _ in atoms for t in a.args[1]}) + ['<other>']
    ok = []
    for c in cands:
        if all(v == any(c == t or (c == 'bool' and t == 'int') for t in a.args[1]) for a, v in atoms):
            ok.append(c)
    if not ok:
        return '<inconsistent>'
    # several candidates only when they are indistinguishable for the atoms present; prefer the most specific
    for pref in ('bool', 'int', 'str'):
        if pref in ok:
            return pref
    return ok[0]


def outcome(r: tables.Row) -> T.Any:
    return r.outcome


def _table(mod: T.Any, qn: str, **kw: T.Any) -> T.Tuple[ast.AST, T.List[S.SRow], tables.Table]:
    fn = mod.func(qn)
    rows = S.Sym(fn, **kw).rows()
    return fn, rows, S.to_table(rows, qn)


def string(ctx: RuleCtx, mod: T.Any) -> None:
    qn = 'UserStringOption.validate_value'
    fn, rows, tab = _table(mod, qn)
    t = Atom('isinstance', ('ARG1', ('str',)))
    _compare(ctx, mod, qn, fn, tab, {}, lambda w: type_of(w, 'ARG1'), lambda ty: ('return', 'ARG1') if ty == 'str' else ('raise', EXC), outcome, [t],
              what='reference (a str is accepted unchanged, anything else rejected)')


def boolean(ctx: RuleCtx, mod: T.Any) -> None:
    qn = 'UserBooleanOption.validate_value'
    fn, rows, tab = _table(mod, qn)
    ci_t, ci_f = A("ARG1.lower() == 'true'"), A("ARG1.lower() == 'false'")
    cs_t, cs_f = A("ARG1 == 'true'"), A("ARG1 == 'false'")
    sem = {ci_t: 'true (any case)', ci_f: 'false (any case)', cs_t: "exactly 'true'", cs_f: "exactly 'false'"}

    def view(w: T.Dict[Atom, bool]) -> T.Any:
        if (w.get(cs_t) and not w[ci_t]) or (w.get(cs_f) and not w[ci_f]) or (w[ci_t] and w[ci_f]):
            return None
        ty = type_of(w, 'ARG1')
        if ty != 'str' and (w[ci_t] or w[ci_f] or w.get(cs_t) or w.get(cs_f)):
            return None
        return ty, w[ci_t], w[ci_f]

    def ref(v: T.Any) -> T.Any:
        ty, t, f = v
        if ty == 'bool':
            return ('return', 'ARG1')
        if ty != 'str':
            return ('raise', EXC)
        if t:
            return ('return', 'True')
        if f:
            return ('return', 'False')
        return ('raise', EXC)
    extra = [ci_t, ci_f, Atom('isinstance', ('ARG1', ('bool',))), Atom('isinstance', ('ARG1', ('str',)))]
    _compare(ctx, mod, qn, fn, tab, sem, view, ref, outcome, extra,
              what="reference (bool unchanged; 'true'/'false' in any case converted; every other value rejected)")


def _toint(ctx: RuleCtx, mod: T.Any, qn: str, want: str, base: str) -> None:
    fn = mod.func(qn)
    rows = S.Sym(fn, handlers=True).rows()
    normal = [r for r in rows if not any(f.kind == 'except' for f in r.fx)]
    handled = [r for r in rows if any(f.kind == 'except' for f in r.fx)]
    want_base = 8 if base == 'octal' else 10
    if len(normal) != 1 or normal[0].outcome[0] != 'return':
        raise Undecided(f'{qn}: conversion of unknown form: {[repr(r) for r in normal]}')
    v = normal[0].value
    if not (isinstance(v, ast.Call) and isinstance(v.func, ast.Name) and v.func.id == 'int' and v.args and norm(v.args[0]) == 'ARG1' and len(v.args) <= 2):
        raise Undecided(f'{qn}: conversion of unknown form: {norm(v)}')
    b = v.args[1] if len(v.args) == 2 else kwarg(v, 'base')
    try:
        got_base = 10 if b is None else fold_expr(ctx.repo, mod, b)
    except Undecided:
        raise Undecided(f'{qn}: base of the conversion is not a constant: {norm(v)}')
    ctx.require(got_base == want_base, f'{qn}: converts with {want}', mod, qn, v, f'the conversion is {norm(v)} (base {got_base}); reference: {want} ({base})', fn)
    if not handled:
        ctx.violation(mod, qn, v, f'{norm(v)} is not inside a try: a string that is not a number escapes as ValueError instead of MesonException', fn)
        return
    caught = {x for r in handled for f in r.fx if f.kind == 'except' for x in __import__('re').findall(r'\w+', f.text)}
    if not caught & {'ValueError', 'Exception', 'BaseException', 'bare'}:
        ctx.violation(mod, qn, 'except ' + ', '.join(sorted(caught)), f'the handler around {norm(v)} catches {sorted(caught)}, not ValueError: an unparsable string escapes as ValueError', fn)
        return
    okh = all(r.outcome == ('raise', EXC) for r in handled)
    if not okh and any(r.outcome[0] != 'raise' for r in handled):
        raise Undecided(f'{qn}: handler of unknown form: {[repr(r) for r in handled]}')
    ctx.require(okh, f'{qn}: ValueError becomes MesonException', mod, qn, 'except ValueError', f'an unparsable string ends in {[r.outcome for r in handled]}, not MesonException', fn)


def integer(ctx: RuleCtx, mod: T.Any) -> None:
    qn = '_UserIntegerBase.validate_value'
    fn, rows, tab = _table(mod, qn)
    TI = P('self.toint(ARG1)')
    mn, mx = 'self.min_value', 'self.max_value'
    min_none, max_none = A(f'{mn} is None'), A(f'{mx} is None')
    isstr = Atom('isinstance', ('ARG1', ('str',)))
    if any(isstr not in r.conds for r in tab.rows):
        raise Undecided(f'{qn}: a path does not test whether the value is a str')
    # a bound tested by its TRUTH (`if self.min_value and ...`): the fields are Optional[int], so the truth of a bound is
    # "not None and not 0" - the world "bound present, falsy" (a bound of exactly 0) exists and is enumerated; only the
    # combinations the type excludes are pruned (None and truthy; == 0 and truthy; None and == 0; present, falsy, != 0)
    min_true, max_true = A(mn), A(mx)
    min_zero, max_zero = A(f'{mn} == 0'), A(f'{mx} == 0')
    present = [a for a in (min_true, max_true, min_zero, max_zero) if a in tab.atoms()]
    if present:
        cls = mod.cls(qn.split('.')[0])
        for field in ('min_value', 'max_value'):
            ann = [st.annotation for st in cls.body if isinstance(st, ast.AnnAssign) and isinstance(st.target, ast.Name) and st.target.id == field]
            if len(ann) != 1 or norm(ann[0]) not in ('T.Optional[int]', 'Optional[int]', 'int | None', 'None | int', 'T.Union[int, None]', 'T.Union[None, int]'):
                raise Undecided(f'{qn}: a bound is tested by its truth value, but {field} is not declared Optional[int] in {cls.name}: what a falsy bound is cannot be told')

    def bounds_consistent(w: T.Dict[Atom, bool]) -> bool:
        for none, true, zero in ((min_none, min_true, min_zero), (max_none, max_true, max_zero)):
            n_, t_, z_ = w[none], w.get(true), w.get(zero)
            if n_ and (t_ or z_):
                return False
            if t_ and z_:
                return False
            if t_ is False and z_ is False and not n_:
                return False
        return True
    # the value that is range-checked is toint(value) for a str and the value itself otherwise: one table each
    for v, is_str in ((TI, True), ('ARG1', False)):
        part = tables.Table([r for r in tab.rows if r.conds[isstr] is is_str], f'{qn} [{"str" if is_str else "non-str"} input]')
        lo_min, hi_min = Atom('cmp', ('lt', v, mn)), Atom('cmp', ('lt', mn, v))
        lo_max, hi_max = Atom('cmp', ('lt', v, mx)), Atom('cmp', ('lt', mx, v))
        sem = {min_none: 'no minimum', max_none: 'no maximum', isstr: 'input is a str', lo_min: 'below minimum', hi_min: 'above minimum',
               lo_max: 'below maximum', hi_max: 'above maximum', Atom('cmp', ('eq', *sorted((v, mn)))): 'equals minimum', Atom('cmp', ('eq', *sorted((v, mx)))): 'equals maximum'}
        sem.update({a: k for a, k in ((min_true, 'minimum is truthy (present and not 0)'), (max_true, 'maximum is truthy (present and not 0)'),
                                      (min_zero, 'minimum is 0'), (max_zero, 'maximum is 0')) if a in present})

        def view(w: T.Dict[Atom, bool], v: str = v, is_str: bool = is_str, lo_min: Atom = lo_min, hi_max: Atom = hi_max) -> T.Any:
            t1 = type_of(w, 'ARG1')
            if (t1 == 'str') != is_str or not bounds_consistent(w):
                return None
            return v, (type_of(w, v) if is_str else t1), w[min_none], w[max_none], w[lo_min], w[hi_max]

        def ref(x: T.Any) -> T.Any:
            val, tv, nomin, nomax, below, above = x
            if tv != 'int':
                return ('raise', EXC)
            if not nomin and below:
                return ('raise', EXC)
            if not nomax and above:
                return ('raise', EXC)
            return ('return', val)
        extra = [min_none, max_none, lo_min, hi_min, lo_max, hi_max, isstr] + present + [Atom('isinstance', (s, (t,))) for s in {'ARG1', v} for t in ('bool', 'int')]
        _compare(ctx, mod, part.name, fn, part, sem, view, ref, outcome, extra,
                  what='reference (str converted by toint; bool and non-int rejected; below minimum / above maximum rejected; boundaries accepted)')
    _toint(ctx, mod, 'UserIntegerOption.toint', 'int(ARG1)', 'decimal')


def _field_default(ctx: RuleCtx, mod: T.Any, cls: str, name: str) -> T.Tuple[T.Any, T.Optional[bool]]:
    """(default value, init flag) of a dataclass field declared in `cls`."""
    from ..core import AnchorMissing
    c = mod.cls(cls)
    try:
        e = mod.assign_value(name, c)
    except AnchorMissing:
        raise Undecided(f'{cls}.{name} is not declared at class level (moved into __init__ / __post_init__?)')
    if isinstance(e, ast.Call) and (norm(e.func) in ('dataclasses.field', 'field')):
        init = kwarg(e, 'init')
        initv = None if init is None else bool(fold_expr(ctx.repo, mod, init))
        d = kwarg(e, 'default')
        if d is not None:
            return fold_expr(ctx.repo, mod, d), initv
        f = kwarg(e, 'default_factory')
        if isinstance(f, ast.Lambda):
            return fold_expr(ctx.repo, mod, f.body), initv
        raise Undecided(f'{cls}.{name}: field without foldable default')
    return fold_expr(ctx.repo, mod, e), None


def umask(ctx: RuleCtx, mod: T.Any) -> None:
    qn = 'UserUmaskOption.validate_value'
    fn, rows, tab = _table(mod, qn)
    pres = A("ARG1 == 'preserve'")
    _compare(ctx, mod, qn, fn, tab, {pres: 'preserve'}, lambda w: w[pres],
              lambda p: ('return', "'preserve'") if p else ('return', P('OctalInt(super().validate_value(ARG1))')), outcome, [pres],
              what="reference ('preserve' accepted, everything else through the integer validator)")
    r = ctx.repo.find_method(mod, _base(ctx, mod, 'UserUmaskOption'), 'validate_value')
    ctx.require(r is not None and r[1].name == '_UserIntegerBase', 'UserUmaskOption: super().validate_value is the integer range validator', mod, qn, 'super().validate_value',
                f'super().validate_value resolves to {r[1].name if r else None}', fn)
    lo, lo_init = _field_default(ctx, mod, 'UserUmaskOption', 'min_value')
    hi, hi_init = _field_default(ctx, mod, 'UserUmaskOption', 'max_value')
    ctx.require((lo, hi) == (0, 0o777) and lo_init is False and hi_init is False, 'UserUmaskOption: fixed range [0, 0o777]', mod, 'UserUmaskOption', 'min_value / max_value',
                f'range is [{lo}, {hi}] (init={lo_init}/{hi_init}); reference: [0, 0o777], not settable by the constructor', mod.cls('UserUmaskOption'))
    _toint(ctx, mod, 'UserUmaskOption.toint', 'int(ARG1, 8)', 'octal')


def _base(ctx: RuleCtx, mod: T.Any, cls: str) -> ast.ClassDef:
    m = ctx.repo.mro(mod, mod.cls(cls))
    if len(m) < 2:
        raise Undecided(f'{cls}: base class not resolved')
    return m[1][1]


def combo(ctx: RuleCtx, mod: T.Any) -> None:
    qn = 'UserComboOption.validate_value'
    fn, rows, tab = _table(mod, qn)
    inc = A('ARG1 in self.choices')
    _compare(ctx, mod, qn, fn, tab, {inc: 'in choices'}, lambda w: w[inc], lambda i: ('return', 'ARG1') if i else ('raise', EXC), outcome, [inc],
              what='reference (a value outside choices is rejected, a member is accepted unchanged)')
    ch, init = _field_default(ctx, mod, 'UserFeatureOption', 'choices')
    ctx.require(sorted(ch) == ['auto', 'disabled', 'enabled'] and init is False, 'UserFeatureOption: choices are enabled/disabled/auto, fixed', mod, 'UserFeatureOption', 'choices',
                f'feature choices are {ch} (init={init}); reference: enabled, disabled, auto, not settable by the constructor', mod.cls('UserFeatureOption'))


def _bad_comprehension(text: str, coll: str, allowed: str, inside: bool = False) -> bool:
    """`[x for x in <coll> if x not in <allowed>]` (any element variable); with inside=True the filter is `x in <allowed>`."""
    try:
        e = ast.parse(text, mode='eval').body
    except SyntaxError:
        return False
    if isinstance(e, ast.Call) and isinstance(e.func, ast.Attribute) and e.func.attr == 'join' and isinstance(e.func.value, ast.Constant) and len(e.args) == 1:
        e = e.args[0]
    if not isinstance(e, (ast.ListComp, ast.GeneratorExp)) or len(e.generators) != 1:
        return False
    g = e.generators[0]
    if not isinstance(g.target, ast.Name) or norm(e.elt) != g.target.id or norm(g.iter) != coll or len(g.ifs) != 1:
        return False
    a, v = canon(g.ifs[0], True)
    return a == Atom('in', (g.target.id, allowed)) and v is inside


def string_array(ctx: RuleCtx, mod: T.Any) -> None:
    qn = 'UserStringArrayOption.validate_value'
    fn, rows, tab = _table(mod, qn, entered_only=True)
    L = P('self.listify(ARG1)')
    sem: T.Dict[Atom, str] = {A('self.allow_dups'): 'duplicates allowed', A('self.choices'): 'has choices',
                              Atom('cmp', ('eq', *sorted((f'len({L})', f'len(set({L}))')))): 'no duplicates'}
    bad = [a for a in tab.atoms() if a.kind == 'truth' and _bad_comprehension(a.args[0], L, 'self.choices')]
    good = [a for a in tab.atoms() if a.kind == 'truth' and _bad_comprehension(a.args[0], L, 'self.choices', inside=True)]
    for a in good:
        sem[a] = 'some element inside choices'
    if not bad and not any('self.choices' in repr(a) and a != A('self.choices') and a not in good for a in tab.atoms()):
        # no condition tells whether an element is outside the choices: the outcome cannot depend on it
        bad = [Atom('truth', ('<some element is not in self.choices>',))]
    if len(bad) != 1:
        raise Undecided(f'{qn}: no condition recognised as "some element is outside self.choices" ({len(bad)} candidates)')
    sem[bad[0]] = 'element outside choices'
    elem = 'ELEM1'
    loops = {f.text for r in rows for f in r.fx if f.kind == 'iter'}
    if loops != {f'for ELEM1 in {L}'}:
        raise Undecided(f'{qn}: element loop(s) {sorted(loops)}; expected one loop over {L}')

    def view(w: T.Dict[Atom, bool]) -> T.Any:
        return type_of(w, elem), w[A('self.choices')], w[bad[0]]

    def ref(v: T.Any) -> T.Any:
        ty, has, outside = v
        if ty != 'str':
            return ('raise', EXC)
        if has and outside:
            return ('raise', EXC)
        return ('return', L)
    _compare(ctx, mod, qn, fn, tab, sem, view, ref, outcome, [A('self.choices'), bad[0], Atom('isinstance', (elem, ('str',)))],
              what='reference (listified; a non-str element rejected; with choices set an element outside them rejected; duplicates only deprecated)')
    fn2 = mod.func('UserStringArrayOption.listify')
    rows2 = S.Sym(fn2, handlers=True).rows()
    normal = [r for r in rows2 if not any(f.kind == 'except' for f in r.fx)]
    if len(normal) != 1 or normal[0].outcome[0] != 'return' or not is_named_call(normal[0].value, 'listify_array_value'):
        raise Undecided(f'UserStringArrayOption.listify: of unknown form: {[repr(r) for r in rows2]}')
    ok = normal[0].outcome == ('return', P('listify_array_value(ARG1, self.split_args)'))
    ctx.require(ok, 'UserStringArrayOption.listify: listify_array_value(value, split_args)', mod, 'UserStringArrayOption.listify', normal[0].value,
                f'listify calls {normal[0].outcome[1]}; reference: listify_array_value(value, self.split_args)', fn2)



CONSTRAINT_ATTRS = {'choices', 'min_value', 'max_value', 'all_stds', 'deprecated_stds', 'value', 'default'}


def value_independent(a: Atom) -> bool:
    """An atom outside the vocabulary that reads only fields of the option object other than its constraints (no call, no
    parameter, no loop element, no local): its truth is fixed per option object while the validated value ranges over
    everything, so it cannot make "a value outside the constraint reaches this row" infeasible.  A disagreeing row that
    tests only such extra atoms is a violation (guard weakened / narrowed by an unrelated condition), not undecided."""
    for part in a.args:
        if not isinstance(part, str):
            return False
        try:
            e = ast.parse(part, mode='eval').body
        except SyntaxError:
            return False
        for n in ast.walk(e):
            if isinstance(n, (ast.Call, ast.Subscript, ast.Lambda, ast.ListComp, ast.SetComp, ast.DictComp, ast.GeneratorExp, ast.NamedExpr)):
                return False
            if isinstance(n, ast.Name) and n.id != 'self':
                return False
            if isinstance(n, ast.Attribute) and n.attr in CONSTRAINT_ATTRS:
                return False
    return True


def _compare(*args: T.Any, **kw: T.Any) -> bool:
    return S.compare(*args, independent=value_independent, **kw)


def is_named_call(e: T.Any, name: str) -> bool:
    return isinstance(e, ast.Call) and isinstance(e.func, (ast.Name, ast.Attribute)) and (e.func.id if isinstance(e.func, ast.Name) else e.func.attr) == name


def std(ctx: RuleCtx, mod: T.Any) -> None:
    qn = 'UserStdOption.validate_value'
    fn, rows, tab = _table(mod, qn, entered_only=True)
    C = P('listify_array_value(ARG1)')
    loops = {f.text for r in rows for f in r.fx if f.kind == 'iter'}
    if any(not t.endswith(f' in {C}') for t in loops):
        raise Undecided(f'{qn}: loops {sorted(loops)}; expected passes over {C}')
    atoms = tab.atoms()

    def mentions(a: Atom, what: str) -> bool:
        return what in repr(a)
    # necessary condition per accepting path, whatever else the path tests: a candidate is returned only after it was found
    # in self.choices, a replacement only after it was found in self.deprecated_stds.  An extra or a substituted test can
    # only narrow a path, it cannot establish membership in the compiler's choices (unless it hides a call, or reads choices
    # in a form not understood: then the table comparison below stays undecided).
    transparent = {'get', 'join', 'listify_array_value', 'isinstance', 'len', 'str'}

    def opaque(a: Atom) -> bool:
        txt = repr(a)
        if 'choices' in txt and not (a.kind == 'in' and a.args[1] == 'self.choices' and re.fullmatch(r'ELEM\d+', a.args[0])):
            return True      # choices read in a form this rule does not know
        for part in a.args:
            for t in (part if isinstance(part, tuple) else (part,)):
                try:
                    e = ast.parse(t, mode='eval').body if isinstance(t, str) else None
                except SyntaxError:
                    return True
                for n in ast.walk(e) if e is not None else ():
                    if isinstance(n, ast.Call):
                        f = n.func
                        if (f.attr if isinstance(f, ast.Attribute) else getattr(f, 'id', '?')) not in transparent:
                            return True
        return False
    accepted = 0
    for r in rows:
        if r.outcome[0] != 'return' or r.value is None:
            continue
        v = norm(r.value)
        if re.fullmatch(r'ELEM\d+', v):
            just = r.conds.get(Atom('in', (v, 'self.choices'))) is True
            need = f'{v} in self.choices'
        else:
            m = re.fullmatch(r'self\.deprecated_stds(?:\.get\((ELEM\d+)\)|\[(ELEM\d+)\])', v)
            if not m:
                continue      # some other shape: the table comparison decides (or not)
            el = m.group(1) or m.group(2)
            just = r.conds.get(Atom('is', (f'self.deprecated_stds.get({el})', 'None'))) is False or r.conds.get(Atom('in', (el, 'self.deprecated_stds'))) is True
            need = f'{el} has a replacement in self.deprecated_stds'
        accepted += 1
        if just or any(opaque(a) for a in r.conds):
            continue
        node = r.path.events[-1].node if r.path is not None and r.path.events and r.path.events[-1].node is not None else fn
        ctx.violation(mod, qn, f'accepts {v} without: {need}', f'a path returns {v} as the validated value although it never established `{need}` '
                      f'(path: {short(repr(r), 300)}); a standard the compiler does not list among its choices is accepted', node)
        return
    ctx.floor('accepting paths of UserStdOption.validate_value', accepted, 2)
    unknown = [a for a in atoms if a.kind == 'truth' and _bad_comprehension(a.args[0], C, 'self.all_stds')]
    if not unknown and not any(mentions(a, 'all_stds') for a in atoms):
        unknown = [Atom('truth', ('<some candidate is not in self.all_stds>',))]   # nothing reads all_stds: the outcome cannot depend on it
    sup = [a for a in atoms if a.kind == 'in' and a.args[1] == 'self.choices' and a.args[0].startswith('ELEM')]
    if not sup and not any(mentions(a, 'self.choices') for a in atoms):
        sup = [Atom('in', ('ELEM<k>', 'self.choices'))]
    norepl = [a for a in atoms if a.kind == 'is' and a.args[1] == 'None' and a.args[0].startswith('self.deprecated_stds.get(ELEM')]
    if not norepl and not any(mentions(a, 'deprecated_stds') for a in atoms):
        norepl = [Atom('is', ('self.deprecated_stds.get(ELEM<k>)', 'None'))]
    elem = [a for a in atoms if a.kind == 'isinstance' and a.args[0].startswith('ELEM') and a.args[1] == ('str',)]
    if not elem and not any(a.kind == 'isinstance' for a in atoms):
        elem = [Atom('isinstance', ('ELEM<k>', ('str',)))]
    if [len(x) for x in (unknown, sup, norepl, elem)] != [1, 1, 1, 1]:
        raise Undecided(f'{qn}: conditions not recognised (unknown standard: {unknown}, supported: {sup}, replacement: {norepl}, element type: {elem})')
    sem = {unknown[0]: 'unknown standard', sup[0]: 'candidate supported', norepl[0]: 'no deprecated replacement'}
    e1 = elem[0].args[0]

    def view(w: T.Dict[Atom, bool]) -> T.Any:
        return type_of(w, e1), w[unknown[0]], w[sup[0]], w[norepl[0]]

    def ref(v: T.Any) -> T.Any:
        ty, unk, s, nr = v
        if ty != 'str' or unk:
            return ('raise', EXC)
        if s:
            return ('return', sup[0].args[0])
        if not nr:
            return ('return', norepl[0].args[0])
        return ('raise', EXC)
    _compare(ctx, mod, qn, fn, tab, sem, view, ref, outcome, [unknown[0], sup[0], norepl[0], elem[0]],
              what='reference (non-str or unknown standard rejected; first supported candidate; else first deprecated replacement; else rejected)')


CHECKED = {'UserStringOption', 'UserBooleanOption', '_UserIntegerBase', 'UserUmaskOption', 'UserComboOption', 'UserStringArrayOption', 'UserStdOption'}


def coverage(ctx: RuleCtx, mod: T.Any) -> None:
    """every option class resolves validate_value to one of the validators checked above"""
    fam = option_family(ctx, mod)
    n = 0
    for name in sorted(fam):
        c = mod.cls(name)
        r = ctx.repo.find_method(mod, c, 'validate_value')
        if r is None:
            raise Undecided(f'{name}: validate_value not resolved')
        owner = r[1].name
        if owner == 'UserOption':
            # abstract: must not be instantiable as a concrete option (raises RuntimeError)
            continue
        n += 1
        if owner not in CHECKED:
            raise Undecided(f'{name}.validate_value is implemented by {owner}, for which this pack has no reference table')
        ctx.ok(f'{name}: validate_value is the checked validator of {owner}', nontrivial=False)
    ctx.floor('option classes with a checked validator', n, 9)
    # option classes defined elsewhere would escape the tables
    for rel in ctx.repo.py_files('mesonbuild') if ctx.thorough else []:
        if rel == OPT:
            continue
        src = ctx.repo.read(rel)
        if 'Option' not in src:
            continue
        m = ctx.repo.module(rel)
        for q, c in m.classes().items():
            for mm, cc in ctx.repo.mro(m, c)[1:]:
                if mm.rel == OPT and cc.name in fam:
                    if any(isinstance(s, ast.FunctionDef) and s.name == 'validate_value' for s in c.body):
                        raise Undecided(f'{rel}: {q} overrides validate_value outside options.py')


def option_family(ctx: RuleCtx, mod: T.Any) -> T.Set[str]:
    from .c07_scan import local_subclasses
    return local_subclasses(mod, 'UserOption')


def run(ctx: RuleCtx) -> None:
    mod = ctx.repo.module(OPT)
    string(ctx, mod)
    boolean(ctx, mod)
    integer(ctx, mod)
    umask(ctx, mod)
    combo(ctx, mod)
    string_array(ctx, mod)
    std(ctx, mod)
    coverage(ctx, mod)
