"""C02.R1 - token (and tree-fragment) conservation in mparser.Parser: a path-sensitive linear-use
typestate with callee summaries (DESIGN Appendix B.3).

Resources
  * a *token*: produced by every advance of the token stream (the one method that writes `self.previous`);
    held by `self.previous`, by locals aliased from `self.current` before the advance, and by names assigned from
    either.  It is discharged when it (or its `.value`) is passed to a constructor parameter that copies the token
    value into a node, when its value is merged into the value of another held token, or when a node class that the
    printer replays with a fixed spelling of that kind is built.
  * a *fragment*: a node built by a constructor / `create_node`, or returned by a parser method.  It is discharged
    when stored by another constructor, stored into a fragment through a mutator or attribute assignment, returned,
    or shown to be an instance of a carrier-free class (EmptyNode).
On every path to a normal return nothing may be pending; raising is always fine.  Calls of parser methods apply the
callee's summary (set of outcomes), computed as a fixpoint over the mutually recursive methods.
"""
from __future__ import annotations

import ast
import typing as T

from ..core import Undecided, attr_chain, norm, short, names_in, walk_no_nested
from ..paths import enumerate_paths, Path
from ..consteval import fold_expr
from .c02_model import model_for, NodeModel, fixed_spellings, params_of, bind_call, unroll_tables, split_parallel, MPARSER, normal_methods

PREV = 'self.previous'


def _self_skip(fn: ast.FunctionDef) -> int:
    """1 for a method taking self/cls, 0 for a staticmethod."""
    return 0 if any((attr_chain(d) or '') == 'staticmethod' for d in fn.decorator_list) else 1


def _own_params(fn: ast.FunctionDef) -> T.List[str]:
    return params_of(fn)[_self_skip(fn):]


class Tok:
    __slots__ = ('kind', 'site', 'done', 'holders', 'entry', 'stale', 'merged')

    def __init__(self, kind: T.Any, site: T.Optional[ast.AST], done: bool, holders: T.Set[str], entry: bool = False):
        self.kind, self.site, self.done, self.holders, self.entry = kind, site, done, holders, entry
        self.stale: T.Optional[ast.AST] = None   # what claimed the whitespace that follows this token before its own node was built
        self.merged = False                      # other token text was merged into this one (whitespace handled explicitly)

    def copy(self) -> 'Tok':
        t = Tok(self.kind, self.site, self.done, set(self.holders), self.entry)
        t.stale, t.merged = self.stale, self.merged
        return t

    def sig(self) -> T.Any:
        return (repr(self.kind), id(self.site), self.done, tuple(sorted(self.holders)), self.entry, id(self.stale), self.merged)


class Res:
    __slots__ = ('site', 'desc', 'done', 'vac', 'holders', 'param')

    def __init__(self, site: T.Optional[ast.AST], desc: str, vac: bool, holders: T.Set[str], param: int = -1, done: bool = False):
        self.site, self.desc, self.vac, self.holders, self.param, self.done = site, desc, vac, holders, param, done

    def copy(self) -> 'Res':
        return Res(self.site, self.desc, self.vac, set(self.holders), self.param, self.done)

    def sig(self) -> T.Any:
        return (id(self.site), self.done, self.vac, tuple(sorted(self.holders)), self.param)


class St:
    def __init__(self) -> None:
        self.toks: T.List[Tok] = []
        self.res: T.List[Res] = []
        self.cur: T.Set[str] = set()       # locals aliasing self.current
        self.N = False                     # next token already materialised
        self.truth: T.Dict[str, bool] = {}
        self.tidnames: T.Set[str] = set()  # locals holding self.current.tid
        self.consumed = 0
        self.entry = 'kept'                # what happened to the token the caller left in self.previous
        self.conds: T.List[T.Tuple[ast.AST, bool]] = []
        self.ret = '?'
        self.tests: T.Dict[str, ast.AST] = {}   # local -> the test expression it was bound to (since the last advance)

    def copy(self) -> 'St':
        s = St()
        # Val tuples refer to Tok/Res objects by index, so copies keep list order
        s.toks = [t.copy() for t in self.toks]
        s.res = [r.copy() for r in self.res]
        s.cur = set(self.cur)
        s.N = self.N
        s.truth = dict(self.truth)
        s.tidnames = set(self.tidnames)
        s.consumed = self.consumed
        s.entry = self.entry
        s.conds = list(self.conds)
        s.ret = self.ret
        s.tests = dict(self.tests)
        return s

    def sig(self) -> T.Any:
        return (tuple(t.sig() for t in self.toks), tuple(r.sig() for r in self.res), tuple(sorted(self.cur)), self.N,
                tuple(sorted(self.truth.items())), tuple(sorted(self.tidnames)), self.consumed, self.entry, self.ret)

    def tok_of(self, name: str) -> T.Optional[int]:
        for i, t in enumerate(self.toks):
            if name in t.holders:
                return i
        return None

    def res_of(self, name: str) -> T.Optional[int]:
        for i, r in enumerate(self.res):
            if name in r.holders:
                return i
        return None


class Out(T.NamedTuple):
    ret: str            # 'T' | 'F' | '?' | 'res' | 'none'
    entry: str          # kept | discharged | clobbered
    consumed: int       # 0, 1, 2 (= more)
    handover: bool      # returns with the last consumed token pending in self.previous (consumer protocol)
    kind: T.Any
    N: bool
    attached: T.FrozenSet[int]


class Site:
    def __init__(self, fn: str, node: ast.AST, what: str):
        self.fn, self.node, self.what = fn, node, what
        self.paths = 0
        self.bad: T.Optional[str] = None


class Analyzer:
    def __init__(self, repo: T.Any, cls: str = 'Parser', only: T.Optional[T.Set[str]] = None, seed: T.Optional[T.Dict[str, T.Set[Out]]] = None,
                 model: T.Optional[NodeModel] = None):
        self.repo = repo
        self.only = only
        self.seed = seed or {}
        self.mod = repo.module(MPARSER)
        self.cls = cls
        self.model = model or model_for(repo)
        self.fixed = fixed_spellings(repo, self.model)
        self.free = self.model.carrier_free()
        self.methods = {n: split_parallel(unroll_tables(f, self.mod)) for n, f in normal_methods(self.mod, cls).items()}   # constant-table loops enumerated
        self.primitive = self._find_primitive()
        self.ctor_wrapper = self._find_ctor_wrapper()
        self.exempt = self._exempt_kinds()
        self.kindof: T.Dict[str, str] = {}
        self.skip = {self.primitive, self.ctor_wrapper, '__init__'}
        for n, fn in self.methods.items():
            if n not in self.skip:
                self.kindof[n] = self._classify(n, fn)
        self.summ: T.Dict[str, T.Set[Out]] = {n: set() for n in self.kindof}
        self.paths: T.Dict[str, T.List[Path]] = {}
        self.sites: T.Dict[int, Site] = {}
        self.extra: T.Dict[T.Tuple[str, str], T.Tuple[ast.AST, str]] = {}
        self.rounds = 0
        self.ctor_kinds: T.Dict[str, T.Set[T.Any]] = {}
        self.nstates = 0
        self._fold: T.Dict[str, T.Any] = {}
        self.fn = ''
        self.fnnode: T.Optional[ast.FunctionDef] = None

    # -- anchors derived from the source ------------------------------------
    def _find_primitive(self) -> str:
        writers = []
        for n, fn in self.methods.items():
            if n == '__init__':
                continue
            for st in walk_no_nested(fn):
                if isinstance(st, ast.Assign) and any(attr_chain(t) == PREV for t in st.targets):
                    if norm(st.value) != 'self.current':
                        raise Undecided(f'{self.cls}.{n}: self.previous is assigned from {short(st.value)}')
                    writers.append(n)
        if len(set(writers)) != 1:
            raise Undecided(f'{self.cls}: expected exactly one method advancing the stream (writer of self.previous), found {sorted(set(writers))}')
        return writers[0]

    def _find_ctor_wrapper(self) -> str:
        """The method returning first_param(*args, **kwargs) (create_node)."""
        found = []
        for n, fn in self.methods.items():
            ps = params_of(fn)
            if len(ps) < 2 or not fn.args.vararg:
                continue
            calls = [c for c in walk_no_nested(fn) if isinstance(c, ast.Call) and isinstance(c.func, ast.Name) and c.func.id == ps[1]
                     and any(isinstance(a, ast.Starred) and norm(a.value) == fn.args.vararg.arg for a in c.args)]
            rets = [s for s in walk_no_nested(fn) if isinstance(s, ast.Return)]
            if len(calls) == 1 and len(rets) == 1 and isinstance(rets[0].value, ast.Name):
                var = rets[0].value.id
                asg = [s for s in walk_no_nested(fn) if isinstance(s, ast.Assign) and norm(s.targets[0]) == var]
                if len(asg) == 1 and asg[0].value is calls[0]:
                    found.append(n)
        if len(found) != 1:
            raise Undecided(f'{self.cls}: node-construction wrapper (create_node) not recognised: {found}')
        return found[0]

    def _exempt_kinds(self) -> T.Set[str]:
        """Token kinds that carry no text of their own when they become `current`: the kinds of the token that the advancing
        method has appended to current_ws on a path where it stays the current token (eol), and the kind of a token the method
        synthesises itself (eof).  Read from the paths of the method, whatever loop form it uses."""
        fn = self.methods[self.primitive]
        out: T.Set[str] = set()
        def synthesised(v: ast.AST, depth: int = 0) -> T.Optional[T.Set[str]]:
            """kinds of the token `v` builds: `Token('k', ...)` / `Token(tid='k', ...)`, or a helper of the class whose every return is one"""
            if not isinstance(v, ast.Call):
                return None
            if norm(v.func) == 'Token':
                a = v.args[0] if v.args else next((k.value for k in v.keywords if k.arg == 'tid'), None)
                return {a.value} if isinstance(a, ast.Constant) and isinstance(a.value, str) else None
            ch = attr_chain(v.func) or ''
            if ch.startswith('self.') and ch.count('.') == 1 and ch[5:] in self.methods and depth < 2:
                rets = [r for r in walk_no_nested(self.methods[ch[5:]]) if isinstance(r, ast.Return)]
                ks = [synthesised(r.value, depth + 1) if r.value is not None else None for r in rets]
                if ks and all(k is not None for k in ks):
                    return set().union(*ks)  # type: ignore[arg-type]
            return None
        for st in walk_no_nested(fn):
            if isinstance(st, ast.Assign) and any(attr_chain(t) == 'self.current' for t in st.targets):
                out |= synthesised(st.value) or set()
        for p in enumerate_paths(fn.body, unroll=1, handlers=True):
            if p.outcome == 'raise':
                continue
            alias: T.Set[str] = set()          # locals holding the same token as self.current
            appended = False
            eq: T.Set[str] = set()
            member: T.Optional[T.Set[str]] = None

            def is_cur(e: ast.AST) -> bool:
                return norm(e) == 'self.current' or (isinstance(e, ast.Name) and e.id in alias)
            for ev in p.events:
                n = ev.node
                if ev.kind == 'stmt' and isinstance(n, ast.Assign) and any(attr_chain(t) == 'self.current' for t in n.targets):
                    alias = {n.value.id} if isinstance(n.value, ast.Name) else set()
                    appended, eq, member = False, set(), None
                elif ev.kind == 'stmt' and isinstance(n, ast.Assign) and isinstance(n.targets[0], ast.Name) and norm(n.value) == 'self.current':
                    alias.add(n.targets[0].id)
                elif ev.kind == 'stmt' and isinstance(n, ast.Expr) and isinstance(n.value, ast.Call) and norm(n.value.func) == 'self.current_ws.append' \
                        and n.value.args and is_cur(n.value.args[0]):
                    appended = True
                elif ev.kind == 'cond' and isinstance(n, ast.Compare) and len(n.ops) == 1 and isinstance(n.left, ast.Attribute) and n.left.attr == 'tid' \
                        and is_cur(n.left.value):
                    op, rhs = n.ops[0], n.comparators[0]
                    pos = (isinstance(op, (ast.Eq, ast.In)) and ev.val) or (isinstance(op, (ast.NotEq, ast.NotIn)) and not ev.val)
                    if pos:
                        k = fold_expr(self.repo, self.mod, rhs)
                        if isinstance(op, (ast.Eq, ast.NotEq)):
                            eq.add(k)
                        else:
                            member = set(k)
            if appended:
                if eq:
                    out |= eq
                elif member is not None:
                    out |= member
                else:
                    raise Undecided(f'{self.cls}.{self.primitive}: a token is appended to the pending whitespace and stays current, its kind is not tested')
        return out

    def _classify(self, n: str, fn: ast.FunctionDef) -> str:
        r = fn.returns
        if r is None:
            raise Undecided(f'{self.cls}.{n}: no return annotation (consumer or tree method?)')
        if isinstance(r, ast.Constant) and r.value is None:
            return 'proc'
        if isinstance(r, ast.Name) and r.id in ('bool', 'str'):
            return 'consumer'
        if names_in(r) & set(self.model.classes) or (isinstance(r, ast.Constant) and isinstance(r.value, str)):
            return 'tree'
        if isinstance(r, ast.Name) and r.id in ('int', 'float'):
            return 'consumer'
        # any other annotation (a token, an exception object, a record...): a procedure whose result carries nothing of the tree;
        # whether that is true is checked where it returns (a token or fragment returned, or a token left pending, ends undecided)
        return 'value'

    # -- fixpoint ---------------------------------------------------------------
    def run(self) -> None:
        todo = [n for n in self.kindof if self.only is None or n in self.only]
        for n, o in self.seed.items():
            if n in self.summ:
                self.summ[n] = set(o)
        for n in todo:
            self.paths[n] = [p for p in enumerate_paths(self.methods[n].body, unroll=2, handlers=True)]
            for p in self.paths[n]:
                if any(e.kind == 'exc' for e in p.events) and p.outcome != 'raise':
                    raise Undecided(f'{self.cls}.{n}: an exception handler resumes normal flow; token state after a partial try body is unknown')
        deps: T.Dict[str, T.Set[str]] = {}
        for n in self.kindof:
            deps[n] = {attr_chain(c.func)[5:] for c in ast.walk(self.methods[n]) if isinstance(c, ast.Call)  # type: ignore[index]
                       and (attr_chain(c.func) or '').startswith('self.') and (attr_chain(c.func) or '')[5:] in self.kindof}
        order = list(reversed(todo))
        work = list(order)
        self.by_fn: T.Dict[str, T.Tuple[T.Dict[int, Site], T.Dict[T.Any, T.Any]]] = {}
        while work:
            n = work.pop(0)
            self.rounds += 1
            if self.rounds > 60 * len(order):
                raise Undecided('token typestate: summaries do not stabilise')
            self.sites, self.extra = {}, {}
            new = self.analyse(n) | self.summ[n]
            self.by_fn[n] = (self.sites, self.extra)
            if new != self.summ[n]:
                self.summ[n] = new
                for m in order:
                    if n in deps[m] and m not in work:
                        work.append(m)
        self.sites, self.extra = {}, {}
        for n in todo:
            self.sites.update(self.by_fn[n][0])
            self.extra.update(self.by_fn[n][1])

    def analyse(self, n: str) -> T.Set[Out]:
        fn = self.methods[n]
        self.fn, self.fnnode = n, fn
        outs: T.Set[Out] = set()
        for p in self.paths[n]:
            if p.outcome == 'raise':
                continue
            if p.outcome not in ('return', 'fall'):
                raise Undecided(f'{self.cls}.{n}: path ends with {p.outcome}')
            states = [self._entry_state(fn)]
            for ev in p.events:
                nxt: T.List[St] = []
                seen = set()
                for st in states:
                    for s2 in self.step(ev, st):
                        k = s2.sig()
                        if k not in seen:
                            seen.add(k)
                            nxt.append(s2)
                states = nxt
                self.nstates += len(states)
                if len(states) > 4000:
                    raise Undecided(f'{self.cls}.{n}: more than 4000 abstract states on one path')
                if not states:
                    break
            for st in states:
                outs.add(self._exit(st, p))
        return outs

    def _entry_state(self, fn: ast.FunctionDef) -> St:
        st = St()
        st.toks.append(Tok(None, None, False, {PREV}, entry=True))
        for i, a in enumerate((fn.args.posonlyargs + fn.args.args)[_self_skip(fn):]):
            if a.annotation is not None and self.model._field_kind(a.annotation):
                cn = [n for n in names_in(a.annotation) if n in self.model.classes]
                st.res.append(Res(None, cn[0] if len(cn) == 1 else f'parameter {a.arg}', False, {a.arg}, param=i))
        return st

    def _exit(self, st: St, p: Path) -> Out:
        kind = self.kindof[self.fn]
        handover, hkind = False, None
        for t in st.toks:
            if t.entry or t.done:
                continue
            if kind == 'value':
                raise Undecided(f'{self.cls}.{self.fn}: leaves a consumed token pending and returns `{short(self.fnnode.returns)}`: '  # type: ignore[union-attr]
                                'consumer or tree method?')
            if kind == 'consumer' and PREV in t.holders:
                handover, hkind = True, t.kind
                continue
            self.bad(t.site, f'token {self._k(t.kind)} consumed by `{short(t.site)}` is neither attached to the tree nor is an error raised '
                             f'when the method returns on the path: {p.describe()}')
        for r in st.res:
            if r.param < 0 and not r.done and not r.vac:
                self.bad(r.site, f'the fragment built by `{short(r.site)}` is dropped (not stored, not returned) on the path: {p.describe()}')
        if st.N and self.fn == 'parse':
            self.note_extra('pre-materialised token never consumed', self.fnnode, 'the entry point returns with a token attached to the tree before it was consumed')
        att = frozenset(r.param for r in st.res if r.param >= 0 and r.done)
        ret = st.ret if kind == 'consumer' else ('res' if kind == 'tree' else 'none')
        return Out(ret, st.entry, st.consumed if handover or not st.consumed else 2, handover, hkind, st.N, att)

    # -- bookkeeping ---------------------------------------------------------
    def _k(self, kind: T.Any) -> str:
        if isinstance(kind, frozenset):
            return 'of a kind in {' + ', '.join(sorted(kind)) + '}'
        if isinstance(kind, tuple) and kind and kind[0] == 'param':
            ps = _own_params(self.fnnode) if self.fnnode is not None else []
            return f'of the kind given by parameter `{ps[kind[1]]}`' if kind[1] < len(ps) else 'of a kind given by a parameter'
        return f'`{kind}`' if isinstance(kind, str) else '(kind unknown)'

    def site(self, node: ast.AST, what: str) -> None:
        s = self.sites.get(id(node))
        if s is None:
            s = self.sites[id(node)] = Site(self.fn, node, what)
        s.paths += 1

    def bad(self, node: T.Optional[ast.AST], msg: str) -> None:
        if '(kind unknown)' in msg:
            raise Undecided(f'{self.cls}.{self.fn}: a token whose kind could not be read from the consuming helper is judged: {msg[:160]}')
        if node is None:
            self.note_extra('entry token', self.fnnode, msg)
            return
        s = self.sites.get(id(node))
        if s is None:
            s = self.sites[id(node)] = Site(self.fn, node, 'site')
        if s.bad is None:
            s.bad = msg

    def note_extra(self, key: str, node: T.Optional[ast.AST], msg: str) -> None:
        self.extra.setdefault((self.fn, key + ':' + short(node, 80)), (node or self.fnnode, msg))  # type: ignore[arg-type]

    # EVALUATOR (appended below)

    NONE: T.Tuple[T.Any, ...] = ('none',)

    def step(self, ev: T.Any, st: St) -> T.List[St]:
        if ev.kind == 'cond':
            return self.cond(ev.node, ev.val, st)
        if ev.kind == 'iter':
            if ev.val == 'iter':
                for n in ast.walk(ev.node.target):
                    if isinstance(n, ast.Name):
                        self.unbind(n.id, st)
            return [st]
        if ev.kind == 'exc':
            return []
        if ev.kind == 'stmt':
            return self.stmt(ev.node, st)
        raise Undecided(f'{self.cls}.{self.fn}: `{ev.kind}` block is outside the idioms of the token typestate')

    # -- conditions ------------------------------------------------------------
    def cond(self, e: ast.AST, val: bool, st: St) -> T.List[St]:
        if isinstance(e, ast.Name):
            t = st.truth.get(e.id)
            if t is not None and t != val:
                return []
            st.truth[e.id] = val
            st.conds.append((e, val))
            if e.id in st.tests:      # a condition bound to a name first: the test itself holds / fails
                t = st.tests[e.id]
                if isinstance(t, ast.UnaryOp) and isinstance(t.op, ast.Not):
                    st.conds.append((t.operand, not val))
                else:
                    st.conds.append((t, val))
            return [st]
        if isinstance(e, ast.Call) and isinstance(e.func, ast.Name) and e.func.id == 'isinstance' and len(e.args) == 2:
            a, k = e.args
            if val and isinstance(a, ast.Name) and isinstance(k, ast.Name) and k.id in self.free:
                i = st.res_of(a.id)
                if i is not None:
                    st.res[i].vac = True
            return [st]
        out = []
        for s2, v in self.ev(e, st, want=val):
            if v[0] == 'truth' and v[1] != val:
                continue
            s2.conds.append((e, val))
            out.append(s2)
        return out

    # -- statements ------------------------------------------------------------
    def stmt(self, s: ast.AST, st: St) -> T.List[St]:
        if isinstance(s, ast.Return):
            if s.value is None:
                return [st]
            out = []
            for s2, v in self.ev(s.value, st):
                if v[0] == 'res' and self.kindof.get(self.fn) == 'value' and not s2.res[v[1]].vac:
                    raise Undecided(f'{self.cls}.{self.fn}: returns a tree fragment but its return annotation `{short(self.fnnode.returns)}` names no node class')  # type: ignore[union-attr]
                if v[0] == 'res':
                    s2.res[v[1]].done = True
                elif v[0] == 'truth':
                    s2.ret = 'T' if v[1] else 'F'
                elif v[0] == 'tid':
                    s2.ret = 'T'
                elif v[0] in ('tok', 'cur'):
                    raise Undecided(f'{self.cls}.{self.fn}: returns a token object')
                out.append(s2)
            return out
        if isinstance(s, ast.Expr):
            out = []
            for s2, v in self.ev(s.value, st):
                if v[0] == 'res':
                    r = s2.res[v[1]]
                    if not r.holders and not r.done and not r.vac:
                        self.bad(r.site, f'the result of `{short(r.site)}` is discarded')
                        r.done = True
                out.append(s2)
            return out
        if isinstance(s, (ast.Assign, ast.AnnAssign)):
            if getattr(s, 'value', None) is None:
                return [st]
            tg = s.targets if isinstance(s, ast.Assign) else [s.target]
            if len(tg) != 1:
                raise Undecided(f'{self.cls}.{self.fn}: chained assignment `{short(s)}`')
            return self.assign(tg[0], s.value, st, False)
        if isinstance(s, ast.AugAssign):
            return self.assign(s.target, s.value, st, True)
        if isinstance(s, (ast.Pass, ast.Global, ast.Nonlocal)):
            return [st]
        raise Undecided(f'{self.cls}.{self.fn}: statement `{short(s)}` is outside the idioms of the token typestate')

    def assign(self, target: ast.AST, value: ast.AST, st: St, aug: bool) -> T.List[St]:
        if isinstance(target, ast.Name):
            out = []
            for s2, v in self.ev(value, st):
                if aug:
                    if v[0] == 'res':
                        self.transfer(v[1], target.id, s2, value)
                    s2.truth.pop(target.id, None)
                else:
                    self.bind(target.id, v, s2)
                    if isinstance(value, (ast.Compare, ast.UnaryOp)):
                        s2.tests[target.id] = value
                out.append(s2)
            return out
        if isinstance(target, ast.Attribute):
            chain = attr_chain(target)
            if chain is None:
                raise Undecided(f'{self.cls}.{self.fn}: assignment target `{short(target)}`')
            root = chain.split('.')[0]
            ti = st.tok_of(root) if root != 'self' else (st.tok_of(PREV) if chain.startswith(PREV + '.') else None)
            if ti is not None:
                if chain.endswith('.value') and not st.toks[ti].done:
                    # the value of every *other* held token read on the right is merged into this token
                    for x in ast.walk(value):
                        if isinstance(x, ast.Attribute) and x.attr == 'value':
                            b = attr_chain(x.value)
                            tj = st.tok_of(b) if b else None
                            if tj is not None and tj != ti:
                                self.materialise(tj, st, value, check_late=False)
                                st.toks[ti].merged = True
                return [s2 for s2, _ in self.ev(value, st)] if self._effectful(value) else [st]
            out = []
            for s2, v in self.ev(value, st):
                if v[0] == 'res' and not (s2.res[v[1]].done and s2.res[v[1]].holders):
                    if s2.res[v[1]].vac and not s2.res[v[1]].holders:
                        out.append(s2)
                        continue
                    if root == 'self':
                        raise Undecided(f'{self.cls}.{self.fn}: a tree fragment is stored in parser state `{chain}`')
                    self.transfer(v[1], root, s2, target)
                out.append(s2)
            return out
        if isinstance(target, (ast.Tuple, ast.List)) and all(isinstance(t, ast.Name) for t in target.elts) and not aug:
            out = []
            for s2, v in self.ev(value, st):
                if v[0] in ('res', 'tok', 'cur') and not (v[0] == 'res' and s2.res[v[1]].vac):
                    raise Undecided(f'{self.cls}.{self.fn}: a token or fragment is unpacked by `{short(target)} = ...`')
                for t in target.elts:
                    self.unbind(t.id, s2)  # type: ignore[attr-defined]
                out.append(s2)
            return out
        raise Undecided(f'{self.cls}.{self.fn}: assignment target `{short(target)}`')

    def bind(self, name: str, v: T.Tuple[T.Any, ...], st: St) -> None:
        keep_t = v[1] if v[0] == 'tok' else None
        keep_r = v[1] if v[0] == 'res' else None
        self.unbind(name, st, keep_t, keep_r)
        if v[0] == 'tok':
            st.toks[v[1]].holders.add(name)
        elif v[0] == 'cur':
            st.cur.add(name)
        elif v[0] == 'res':
            st.res[v[1]].holders.add(name)
        elif v[0] == 'truth':
            st.truth[name] = v[1]
        elif v[0] == 'tid':
            st.tidnames.add(name)
            st.truth[name] = True

    def unbind(self, name: str, st: St, keep_t: T.Optional[int] = None, keep_r: T.Optional[int] = None) -> None:
        for i, t in enumerate(st.toks):
            if name in t.holders and i != keep_t:
                t.holders.discard(name)
                if not t.holders and not t.done and not t.entry:
                    self.bad(t.site, f'token {self._k(t.kind)} consumed by `{short(t.site)}` is lost when `{name}` is rebound')
                    t.done = True
        for i, r in enumerate(st.res):
            if name in r.holders and i != keep_r:
                r.holders.discard(name)
                if not r.holders and not r.done and not r.vac and r.param < 0:
                    self.bad(r.site, f'the fragment built by `{short(r.site)}` is dropped when `{name}` is rebound')
                    r.done = True
        st.cur.discard(name)
        st.tests.pop(name, None)
        st.truth.pop(name, None)
        st.tidnames.discard(name)

    def transfer(self, ri: int, root: str, st: St, node: ast.AST) -> None:
        j = st.res_of(root)
        if j is None:
            if root in _own_params(self.fnnode):  # type: ignore[arg-type]
                st.res[ri].done = True
                return
            raise Undecided(f'{self.cls}.{self.fn}: `{short(node)}` stores a fragment into `{root}`, which is not a known fragment')
        st.res[ri].done = True
        if j != ri:
            st.res[j].vac = False

    def _age(self, st: St, by: ast.AST, keep: T.Sequence[int] = ()) -> None:
        """`by` (a stream advance or a node built through the wrapper) takes over the whitespace collected so far: tokens still
        waiting for their own node have lost the whitespace that followed them."""
        for i, t in enumerate(st.toks):
            if not t.done and t.stale is None and i not in keep:
                t.stale = by

    def materialise(self, i: int, st: St, node: ast.AST, check_late: bool = True) -> None:
        t = st.toks[i]
        if check_late and not t.done and t.stale is not None and not t.merged:
            self.note_extra('late node', node, f'`{short(node)}` builds the node of the token {self._k(t.kind)} only after `{short(t.stale)}` ran: the whitespace/'
                                              f'comments that follow the token in the text were already attached to (or collected for) something else and are replayed out of place')
        if t.done:
            self.note_extra('attached twice', node, f'`{short(node)}` attaches a token that is already attached to the tree (it would be printed twice)')
            return
        t.done = True
        if t.entry:
            st.entry = 'discharged'

    # -- expressions -------------------------------------------------------------
    def _effectful(self, e: ast.AST) -> bool:
        for c in ast.walk(e):
            if isinstance(c, ast.Call):
                ch = attr_chain(c.func) or ''
                if (ch.startswith('self.') and ch.count('.') == 1 and ch[5:] in self.methods) or ch in self.model.classes:
                    return True
        return False

    def evs(self, exprs: T.Sequence[ast.AST], st: St) -> T.List[T.Tuple[St, T.List[T.Any]]]:
        acc: T.List[T.Tuple[St, T.List[T.Any]]] = [(st, [])]
        for x in exprs:
            nxt = []
            for s, vals in acc:
                if isinstance(x, ast.Starred):
                    raise Undecided(f'{self.cls}.{self.fn}: starred argument `{short(x)}`')
                rs = self.ev(x, s)
                for k, (s2, v) in enumerate(rs):
                    nxt.append((s2, vals + [v]))
            acc = nxt
        return acc

    def ev(self, e: ast.AST, st: St, want: T.Optional[bool] = None) -> T.List[T.Tuple[St, T.Tuple[T.Any, ...]]]:
        NONE = self.NONE
        if isinstance(e, ast.Constant):
            return [(st, ('truth', bool(e.value)))]
        if isinstance(e, ast.Name):
            i = st.tok_of(e.id)
            if i is not None:
                return [(st, ('tok', i))]
            if e.id in st.cur:
                return [(st, ('cur',))]
            j = st.res_of(e.id)
            if j is not None:
                return [(st, ('res', j))]
            if e.id in st.tidnames:
                return [(st, ('tid',))]
            if e.id in st.truth:
                return [(st, ('truth', st.truth[e.id]))]
            return [(st, NONE)]
        if isinstance(e, ast.Attribute):
            ch = attr_chain(e)
            if ch == PREV:
                i = st.tok_of(PREV)
                if i is None:
                    raise Undecided(f'{self.cls}.{self.fn}: self.previous is not tracked')
                return [(st, ('tok', i))]
            if ch == 'self.current':
                return [(st, ('cur',))]
            if ch == 'self.current.tid':
                return [(st, ('tid',))]
            if ch is not None and ch.startswith('self.') and not ch.startswith(PREV + '.') and not ch.startswith('self.current.'):
                return [(st, NONE)]
            out = []
            for s2, v in self.ev(e.value, st):
                if e.attr == 'value' and v[0] == 'tok':
                    out.append((s2, ('tokval', v[1])))
                else:
                    out.append((s2, NONE))
            return out
        if isinstance(e, ast.Call):
            return self.call(e, st, want)
        if isinstance(e, (ast.List, ast.Tuple)):
            out = []
            for s2, vals in self.evs(e.elts, st):
                carries = False
                for v in vals:
                    if v[0] == 'res':
                        s2.res[v[1]].done = True
                        carries = carries or not s2.res[v[1]].vac
                s2.res.append(Res(e, 'list', not carries, set()))
                out.append((s2, ('res', len(s2.res) - 1)))
            return out
        if isinstance(e, (ast.BoolOp, ast.IfExp, ast.Lambda, ast.ListComp, ast.SetComp, ast.DictComp, ast.GeneratorExp, ast.NamedExpr,
                          ast.Await, ast.Yield, ast.YieldFrom)):
            if self._effectful(e):
                raise Undecided(f'{self.cls}.{self.fn}: parser call inside `{short(e)}`')
            return [(st, NONE)]
        kids = [c for c in ast.iter_child_nodes(e) if isinstance(c, ast.expr)]
        return [(s2, NONE) for s2, _ in self.evs(kids, st)]

    def call(self, e: ast.Call, st: St, want: T.Optional[bool]) -> T.List[T.Tuple[St, T.Tuple[T.Any, ...]]]:
        f = e.func
        ch = attr_chain(f)
        if ch == 'self.' + self.ctor_wrapper:
            if not e.args or not isinstance(e.args[0], ast.Name) or e.args[0].id not in self.model.classes:
                cands = self.class_candidates(e.args[0]) if e.args else None
                if not cands:
                    raise Undecided(f'{self.cls}.{self.fn}: `{short(e)}`: node class is not a literal class name')
                # closed world: one successor state per row of the constant table the class is looked up in
                forked: T.List[T.Tuple[St, T.Tuple[T.Any, ...]]] = []
                for key, cname, keytok in cands:
                    s0 = st.copy()
                    if keytok is not None:
                        for t in s0.toks:
                            if t.site is keytok and isinstance(t.kind, frozenset) and key in t.kind:
                                t.kind = key      # the key is the kind of the token that call consumed
                    forked += self._ctor_call(cname, e, 1, s0, True)
                return forked
            return self._ctor_call(e.args[0].id, e, 1, st, True)
        if isinstance(f, ast.Name) and f.id in self.model.classes:
            return self._ctor_call(f.id, e, 0, st, False)
        if ch is not None and ch.startswith('self.') and ch.count('.') == 1 and ch[5:] in self.methods:
            name = ch[5:]
            if name == self.primitive:
                self.consume(st, e, self.infer_kind(st))
                return [(st, self.NONE)]
            if name in self.kindof:
                return self.apply(name, e, st, want)
            raise Undecided(f'{self.cls}.{self.fn}: call of `{ch}`')
        recv = f.value if isinstance(f, ast.Attribute) else None
        pre = [recv] if recv is not None and self._effectful(recv) else []
        out = []
        args = list(e.args) + [k.value for k in e.keywords]
        keys: T.List[T.Union[int, str]] = list(range(len(e.args))) + [k.arg or '?' for k in e.keywords]
        for s2, vals in self.evs(pre + args, st):
            vals = vals[len(pre):]
            rch = attr_chain(recv) if recv is not None else None
            for i, v in enumerate(vals):
                if v[0] != 'res':
                    continue
                r = s2.res[v[1]]
                if r.vac and not r.holders:
                    continue
                if isinstance(f, ast.Name) and f.id in ('isinstance', 'len', 'type', 'id', 'repr', 'str'):
                    continue
                if rch is None or rch.split('.')[0] == 'self':
                    if r.done:
                        continue
                    raise Undecided(f'{self.cls}.{self.fn}: a tree fragment is passed to `{short(e)}`')
                # receiver type: an attribute of something (a list/dict field) or a list local takes the builtin mutators;
                # a local holding a node of a known class resolves the method in that class
                rcls = None
                if '.' not in rch:
                    j = s2.res_of(rch)
                    rcls = s2.res[j].desc if j is not None else None
                builtin = ('.' in rch or rcls == 'list') and f.attr in ('append', 'insert', 'extend', 'add')  # type: ignore[union-attr]
                stores = 'yes' if builtin else self.model.method_stores(f.attr, keys[i], rcls if rcls in self.model.classes else None)  # type: ignore[union-attr]
                if stores is None:
                    if f.attr in ('append', 'insert', 'extend', 'add'):  # type: ignore[union-attr]
                        stores = 'yes'
                    else:
                        raise Undecided(f'{self.cls}.{self.fn}: a tree fragment is passed to the unknown method `{short(e)}`')
                if stores == 'unknown':
                    raise Undecided(f'{self.cls}.{self.fn}: what `{f.attr}` does with the fragment passed in `{short(e)}` is not understood')  # type: ignore[union-attr]
                if stores == 'yes':
                    self.transfer(v[1], rch.split('.')[0], s2, e)
            out.append((s2, self.NONE))
        return out

    def _single_binding(self, name: str) -> T.Optional[ast.Assign]:
        """The one statement of the current method that binds the local `name` (None when it is bound more than once or not by `=`)."""
        stores = [x for x in ast.walk(self.fnnode) if isinstance(x, ast.Name) and x.id == name and not isinstance(x.ctx, ast.Load)]  # type: ignore[arg-type]
        if len(stores) != 1 or name in params_of(self.fnnode):  # type: ignore[arg-type]
            return None
        for a in ast.walk(self.fnnode):  # type: ignore[arg-type]
            if isinstance(a, ast.Assign) and len(a.targets) == 1 and any(x is stores[0] for x in ast.walk(a.targets[0])):
                return a
        return None

    def _returns_consumed_tid(self, meth: str) -> bool:
        """Every truthy value the consumer `meth` returns is a local bound once to `self.current.tid` (before the advance) and
        tested `in <first parameter>` on that path: the returned string is the kind of the token it consumed, and a key of the argument."""
        fn = self.methods.get(meth)
        if fn is None or len(params_of(fn)) != 2:
            return False
        coll = params_of(fn)[1]
        seen = False
        for p in enumerate_paths(fn.body, unroll=1):
            if p.outcome != 'return' or p.value is None or (isinstance(p.value, ast.Constant) and not p.value.value):
                continue
            v = p.value
            if not isinstance(v, ast.Name):
                return False
            defs = [a for a in ast.walk(fn) if isinstance(a, ast.Assign) and any(isinstance(t, ast.Name) and t.id == v.id for t in a.targets)]
            stores = [x for x in ast.walk(fn) if isinstance(x, ast.Name) and x.id == v.id and not isinstance(x.ctx, ast.Load)]
            if len(defs) != 1 or len(stores) != 1 or norm(defs[0].value) != 'self.current.tid':
                return False
            if not any(e.kind == 'cond' and isinstance(e.node, ast.Compare) and ((e.val and norm(e.node) == f'{v.id} in {coll}')
                                                                                or (not e.val and norm(e.node) == f'{v.id} not in {coll}')) for e in p.events):
                return False
            seen = True
        return seen

    def class_candidates(self, x: ast.AST) -> T.Optional[T.List[T.Tuple[str, str, T.Optional[ast.AST]]]]:
        """Node classes an expression can denote when it is a lookup in a module-level constant table keyed by strings:
        `TABLE[k]`; a local bound once to it; a local bound once by `a, b = TABLE[k]` (tuple rows); `rec.field` where `rec` is bound
        once to `TABLE[k]` and the rows are calls of a NamedTuple class declaring `field`.  -> [(key, class, call that consumed
        the token whose kind is the key | None)], None when the shape is anything else (finite domain the source declares)."""
        pick: T.Callable[[ast.AST], T.Optional[ast.AST]] = lambda v: v
        for _ in range(3):
            if isinstance(x, ast.Name):
                a = self._single_binding(x.id)
                if a is None:
                    return None
                tg = a.targets[0]
                if isinstance(tg, ast.Name):
                    x = a.value
                    continue
                if isinstance(tg, (ast.Tuple, ast.List)) and all(isinstance(t, ast.Name) for t in tg.elts):
                    i, n_ = [t.id for t in tg.elts].index(x.id), len(tg.elts)  # type: ignore[attr-defined]
                    prev = pick
                    pick = lambda v, i=i, n_=n_, prev=prev: (lambda w: w.elts[i] if isinstance(w, (ast.Tuple, ast.List)) and len(w.elts) == n_ else None)(prev(v))  # type: ignore[misc]
                    x = a.value
                    continue
                return None
            if isinstance(x, ast.Attribute) and isinstance(x.value, ast.Name):
                attr = x.attr
                mod = self.mod

                def field(w: T.Optional[ast.AST], attr: str = attr) -> T.Optional[ast.AST]:
                    if not (isinstance(w, ast.Call) and isinstance(w.func, ast.Name) and mod.has_cls(w.func.id)):
                        return None
                    k = mod.cls(w.func.id)
                    if not any((attr_chain(b) or '').split('.')[-1] == 'NamedTuple' for b in k.bases):
                        return None
                    fields = [st.target.id for st in k.body if isinstance(st, ast.AnnAssign) and isinstance(st.target, ast.Name)]
                    if attr not in fields or any(isinstance(q, ast.Starred) for q in w.args):
                        return None
                    for kw in w.keywords:
                        if kw.arg == attr:
                            return kw.value
                    j = fields.index(attr)
                    return w.args[j] if j < len(w.args) else None
                prev2 = pick
                pick = lambda v, prev2=prev2, field=field: field(prev2(v))  # type: ignore[misc]
                x = x.value
                continue
            break
        if not (isinstance(x, ast.Subscript) and isinstance(x.value, ast.Name) and self.mod.has_assign(x.value.id)):
            return None
        table = self.mod.assign_value(x.value.id)
        if not isinstance(table, ast.Dict) or not table.keys or not all(isinstance(k, ast.Constant) and isinstance(k.value, str) for k in table.keys):
            return None
        stores = [n for n in ast.walk(self.mod.tree) if isinstance(n, ast.Name) and n.id == x.value.id and not isinstance(n.ctx, ast.Load)]
        if len(stores) != 1:
            return None
        keytok: T.Optional[ast.AST] = None
        if isinstance(x.slice, ast.Name):
            ka = self._single_binding(x.slice.id)
            if ka is not None and isinstance(ka.targets[0], ast.Name) and isinstance(ka.value, ast.Call):
                ch = attr_chain(ka.value.func) or ''
                if ch.startswith('self.') and ch[5:] in self.kindof and len(ka.value.args) == 1 and norm(ka.value.args[0]) == x.value.id \
                        and self._returns_consumed_tid(ch[5:]):
                    keytok = ka.value
        out: T.List[T.Tuple[str, str, T.Optional[ast.AST]]] = []
        for k, v in zip(table.keys, table.values):
            c = pick(v)
            if not (isinstance(c, ast.Name) and c.id in self.model.classes):
                return None
            out.append((k.value, c.id, keytok))  # type: ignore[union-attr]
        return out

    def _bound(self, e: ast.Call, params: T.List[str], skip: int, st: St) -> T.List[T.Tuple[St, T.List[T.Any]]]:
        """Evaluate the arguments of `e` in source order and return their values aligned to `params` (position or keyword)."""
        b = bind_call(e, params, skip)
        if b is None:
            raise Undecided(f'{self.cls}.{self.fn}: cannot bind the arguments of `{short(e)}` to ({", ".join(params)})')
        order = list(e.args[skip:]) + [k.value for k in e.keywords]
        out = []
        for s2, vals in self.evs(order, st):
            byid = {id(x): v for x, v in zip(order, vals)}
            out.append((s2, [byid[id(a)] if a is not None else self.NONE for a in b]))
        return out

    def _ctor_call(self, cls: str, e: ast.Call, skip: int, st: St, wrapped: bool) -> T.List[T.Tuple[St, T.Tuple[T.Any, ...]]]:
        params = [p for p, _ in self.model.roles(cls)]
        return [(s2, self.ctor(cls, vals, s2, wrapped, e)) for s2, vals in self._bound(e, params, skip, st)]

    def ctor(self, cls: str, vals: T.List[T.Any], st: St, wrapped: bool, node: ast.Call) -> T.Tuple[T.Any, ...]:
        roles = self.model.roles(cls)
        if len(vals) > len(roles):
            raise Undecided(f'{self.cls}.{self.fn}: `{short(node)}` passes more arguments than {cls}.__init__ takes')
        fixed = self.fixed.get(cls)
        if fixed == '?':
            raise Undecided(f'{self.cls}.{self.fn}: how the printer spells a {cls} is decided in a helper that is not followed')
        carries = wrapped
        for (pname, role), v in zip(roles, vals):
            if role == 'tok' and fixed is None:
                carries = True
                if v[0] in ('tok', 'tokval'):
                    self.ctor_kinds.setdefault(cls, set()).add(st.toks[v[1]].kind)
                    self.materialise(v[1], st, node)
                elif v[0] == 'cur':
                    if st.N:
                        self.note_extra('attached twice', node, f'`{short(node)}` attaches the upcoming token a second time')
                    st.N = True
            elif role == 'store':
                carries = True
                if v[0] == 'res':
                    st.res[v[1]].done = True
            elif role == 'unknown' and v[0] in ('res', 'tok', 'tokval', 'cur'):
                raise Undecided(f'{self.cls}.{self.fn}: {cls}.__init__ hands its parameter `{pname}` on in a way the model does not follow')
        if fixed is not None:
            carries = True
            cand = [i for i, t in enumerate(st.toks) if not t.done and not t.entry and t.kind == fixed]
            if cand:
                self.materialise(cand[-1], st, node)
            elif any(not t.done and not t.entry and isinstance(t.kind, frozenset) and fixed in t.kind for t in st.toks):
                raise Undecided(f'{self.cls}.{self.fn}: `{short(node)}` is replayed as `{fixed}`; the pending token is one of a set of kinds '
                                'that is not correlated with the class chosen')
            elif any(not t.done and not t.entry for t in st.toks):
                other = [t for t in st.toks if not t.done and not t.entry][-1]
                self.note_extra('keyword node without keyword', node, f'`{short(node)}` is replayed as `{fixed}` but the token pending here is {self._k(other.kind)}')
            elif any(t.entry and not t.done for t in st.toks):
                raise Undecided(f'{self.cls}.{self.fn}: `{short(node)}` stands for the keyword `{fixed}` consumed by the caller')
            else:
                self.note_extra('keyword node without keyword', node, f'`{short(node)}` is replayed as `{fixed}` but no `{fixed}` token is pending here')
        if wrapped:
            self._age(st, node)
        if wrapped and cls in self.free:
            self.note_extra('carrier-free via wrapper', node, f'`{short(node)}` attaches pending whitespace to a {cls}, which callers drop')
        st.res.append(Res(node, cls, not carries, set()))
        self.site(node, 'fragment')
        return ('res', len(st.res) - 1)

    # -- stream advance ------------------------------------------------------------
    def kind_from_expr(self, x: ast.AST) -> T.Any:
        if isinstance(x, ast.Constant) and isinstance(x.value, str):
            return x.value
        ps = _own_params(self.fnnode)  # type: ignore[arg-type]
        if isinstance(x, ast.Name) and x.id in ps:
            return ('param', ps.index(x.id))
        key = norm(x)
        if key not in self._fold:
            try:
                v = fold_expr(self.repo, self.mod, x)
                if isinstance(v, str):
                    self._fold[key] = v
                elif isinstance(v, (dict, set, frozenset, list, tuple)) and all(isinstance(k, str) for k in v):
                    self._fold[key] = frozenset(v)
                else:
                    self._fold[key] = None
            except Undecided:
                self._fold[key] = None
                # a table whose row values do not fold (records, calls): the constant keys of the module-level display bound once to the name
                if isinstance(x, ast.Name) and self.mod.has_assign(x.id):
                    d = self.mod.assign_value(x.id)
                    stores = [n for n in ast.walk(self.mod.tree) if isinstance(n, ast.Name) and n.id == x.id and not isinstance(n.ctx, ast.Load)]
                    if isinstance(d, ast.Dict) and d.keys and len(stores) == 1 and all(isinstance(k, ast.Constant) and isinstance(k.value, str) for k in d.keys):
                        self._fold[key] = frozenset(k.value for k in d.keys)  # type: ignore[union-attr]
        return self._fold[key]

    def infer_kind(self, st: St) -> T.Any:
        for e, val in reversed(st.conds):
            if isinstance(e, ast.Compare) and len(e.ops) == 1 and ((val and isinstance(e.ops[0], (ast.Eq, ast.In)))
                                                                   or (not val and isinstance(e.ops[0], (ast.NotEq, ast.NotIn)))):
                l, r_ = e.left, e.comparators[0]
                if isinstance(e.ops[0], (ast.Eq, ast.NotEq)) and (norm(r_) == 'self.current.tid' or (isinstance(r_, ast.Name) and r_.id in st.tidnames)):
                    l, r_ = r_, l      # swapped operands of ==
                if norm(l) == 'self.current.tid' or (isinstance(l, ast.Name) and l.id in st.tidnames):
                    return self.kind_from_expr(r_)
        return None

    def is_exempt(self, kind: T.Any) -> bool:
        if isinstance(kind, str):
            return kind in self.exempt
        if isinstance(kind, frozenset):
            return bool(kind) and kind <= self.exempt
        return False

    def _clobber(self, st: St, node: ast.AST) -> None:
        for t in st.toks:
            if PREV in t.holders:
                t.holders.discard(PREV)
                if t.done:
                    continue
                if t.entry:
                    if st.entry == 'kept':
                        st.entry = 'clobbered'
                elif not t.holders:
                    self.bad(t.site, f'token {self._k(t.kind)} consumed by `{short(t.site)}` is overwritten by the next advance of the stream '
                                     f'(`{short(node)}`) before it was attached to the tree')
                    t.done = True

    def consume(self, st: St, node: ast.AST, kind: T.Any) -> None:
        self._age(st, node)
        self._clobber(st, node)
        st.toks.append(Tok(kind, node, st.N or self.is_exempt(kind), {PREV} | st.cur))
        st.N = False
        st.cur = set()
        st.consumed = min(2, st.consumed + 1)
        st.conds = []
        st.tests = {}
        self.site(node, 'consume')

    def apply(self, name: str, e: ast.Call, st: St, want: T.Optional[bool]) -> T.List[T.Tuple[St, T.Tuple[T.Any, ...]]]:
        out: T.List[T.Tuple[St, T.Tuple[T.Any, ...]]] = []
        cparams = _own_params(self.methods[name])
        bound = bind_call(e, cparams)
        if bound is None:
            raise Undecided(f'{self.cls}.{self.fn}: cannot bind the arguments of `{short(e)}`')
        for s1, vals in self._bound(e, cparams, 0, st):
            outs = sorted(self.summ[name], key=repr)
            for n_o, o in enumerate(outs):
                if want is not None and o.ret in ('T', 'F') and (o.ret == 'T') != want:
                    continue
                s = s1.copy()
                for i in o.attached:
                    if i < len(vals) and vals[i][0] == 'res':
                        s.res[vals[i][1]].done = True
                pi = s.tok_of(PREV)
                if o.entry == 'discharged' and pi is not None:
                    self.materialise(pi, s, e)
                if o.consumed:
                    if s.N and not (o.consumed == 1 and o.handover):
                        if self.kindof[name] == 'consumer':
                            raise Undecided(f'{self.cls}.{self.fn}: `{short(e)}` consumes several tokens after the next one was pre-attached')
                        # a tree method attaches everything it consumes itself: the pre-attached token is attached again
                        self.note_extra('attached twice', e, f'`{short(e)}` consumes and attaches the token that was already attached before the call')
                        s.N = False
                    if o.entry != 'discharged':
                        self._age(s, e)
                    else:
                        self._age(s, e, keep=[pi] if pi is not None else [])
                    self._clobber(s, e)
                    kind = o.kind
                    if isinstance(kind, tuple) and kind and kind[0] == 'param':
                        kind = self.kind_from_expr(bound[kind[1]]) if kind[1] < len(bound) and bound[kind[1]] is not None else None
                    done = (not o.handover) or s.N or self.is_exempt(kind)
                    s.toks.append(Tok(kind, e, done, {PREV} | (s.cur if o.consumed == 1 else set())))
                    s.N = False
                    s.cur = set()
                    s.consumed = min(2, s.consumed + o.consumed)
                    s.conds = []
                    if o.handover:
                        self.site(e, 'consume')
                if o.N:
                    if s.N:
                        self.note_extra('attached twice', e, f'`{short(e)}` pre-attaches the upcoming token a second time')
                    s.N = True
                if o.ret in ('T', 'F'):
                    val: T.Tuple[T.Any, ...] = ('truth', o.ret == 'T')
                elif o.ret == 'res':
                    rn = [n for n in names_in(self.methods[name].returns) if n in self.model.classes] if self.methods[name].returns is not None else []
                    s.res.append(Res(e, rn[0] if len(rn) == 1 and rn[0] != self.model.root else name + '()', False, set()))
                    self.site(e, 'fragment')
                    val = ('res', len(s.res) - 1)
                else:
                    val = self.NONE
                out.append((s, val))
        return out


_CACHE: T.Dict[int, Analyzer] = {}


def analysed(repo: T.Any) -> Analyzer:
    """One run of the typestate per repository object (shared by R1 and R4)."""
    a = _CACHE.get(id(repo))
    if a is None or a.repo is not repo:
        a = Analyzer(repo)
        a.run()
        _CACHE.clear()
        _CACHE[id(repo)] = a
    return a
