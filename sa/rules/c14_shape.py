"""C14 helper: decision tables whose atoms and outcomes are *closed* expressions, and the symbolic
shape of a text-valued outcome.

Nothing is evaluated on input values.  Two purely syntactic operations:

* `table(fn, body)` - rows = enumerated paths (sa.paths); along each path the reaching definition of
  every local is substituted into the conditions, the returned expression and the call effects
  (def-use substitution, the path-sensitive version of the copy propagation sa.tables does for
  single-definition locals).  Conditions become canonical atoms (sa.tables.canon), so the worlds of
  the result can be enumerated with `sa.tables.Table.worlds()`.
* `parts(expr)` - the shape of a text expression: literal pieces (from string constants, f-strings
  and constant `%` format strings) and operands (normalised source of the operand + the conversion
  chain applied to it: str/int/bool/%d/!r), `.strip()` wrappers, conditional pieces, and scans
  (`f(text, ..)[0]` for the module's replacement functions).  `render` turns it into a template text
  `#define {NAME} {VALUE}` given the roles of the operands.
"""
from __future__ import annotations

import ast
import copy
import re
import typing as T

from ..core import Undecided, norm, short, names_in
from ..paths import enumerate_paths
from .. import tables
from ..tables import Atom, Row, Table


# ---------------------------------------------------------------------------------------------------
# closed expressions along a path
# ---------------------------------------------------------------------------------------------------
class _Sub(ast.NodeTransformer):
    def __init__(self, env: T.Dict[str, ast.AST]):
        self.env = env

    def visit_Name(self, n: ast.Name) -> ast.AST:
        if isinstance(n.ctx, ast.Load) and n.id in self.env:
            return copy.deepcopy(self.env[n.id])
        return n

    def visit_Call(self, n: ast.Call) -> ast.AST:
        # beta-reduction: a call of a local that is bound to `lambda x, ..: E` (or a single-expression def) is E[x := argument]
        f = n.func
        if isinstance(f, ast.Name) and isinstance(self.env.get(f.id), ast.Lambda) and self.depth < 6:
            lam = T.cast(ast.Lambda, self.env[f.id])
            names = [a.arg for a in lam.args.posonlyargs + lam.args.args]
            ok = not lam.args.vararg and not lam.args.kwarg and not lam.args.kwonlyargs and not any(isinstance(a, ast.Starred) for a in n.args) \
                and all(k.arg in names for k in n.keywords) and len(n.args) <= len(names)
            if ok:
                bound: T.Dict[str, ast.AST] = {}
                for nm, a in zip(names, n.args):
                    bound[nm] = self.visit(copy.deepcopy(a))
                for k in n.keywords:
                    bound[T.cast(str, k.arg)] = self.visit(copy.deepcopy(k.value))
                defaults = lam.args.defaults
                for i, nm in enumerate(names):
                    if nm not in bound:
                        j = i - (len(names) - len(defaults))
                        if j < 0:
                            ok = False
                            break
                        bound[nm] = copy.deepcopy(defaults[j])
                if ok:
                    inner = _Sub(bound)
                    inner.depth = self.depth + 1
                    return inner.visit(copy.deepcopy(lam.body))
        return self.generic_visit(n)

    depth = 0

    def visit_Attribute(self, n: ast.Attribute) -> ast.AST:
        # projection of a constant record display (a folded NamedTuple / dataclass constant, see c14._module_value): `rec.field`
        self.generic_visit(n)
        fields = getattr(n.value, '_c14_fields', None)
        if isinstance(n.value, ast.Tuple) and fields and n.attr in fields and isinstance(n.ctx, ast.Load):
            return copy.deepcopy(n.value.elts[fields.index(n.attr)])
        return n

    def visit_Subscript(self, n: ast.Subscript) -> ast.AST:
        # projection of a constant tuple display: `(a, b)[0]`
        self.generic_visit(n)
        if isinstance(n.value, ast.Tuple) and isinstance(n.ctx, ast.Load) and isinstance(n.slice, ast.Constant) and isinstance(n.slice.value, int) \
                and not isinstance(n.slice.value, bool) and -len(n.value.elts) <= n.slice.value < len(n.value.elts) \
                and not any(isinstance(x, ast.Starred) for x in n.value.elts) and any(isinstance(x, ast.Lambda) or hasattr(n.value, '_c14_fields') for x in n.value.elts):
            return copy.deepcopy(n.value.elts[n.slice.value])
        return n

    def _shadow(self, node: ast.AST, targets: T.Iterable[ast.AST]) -> ast.AST:
        bound = set()
        for t in targets:
            bound |= names_in(t)
        if bound & set(self.env):
            saved = self.env
            self.env = {k: v for k, v in saved.items() if k not in bound}
            try:
                return self.generic_visit(node)
            finally:
                self.env = saved
        return self.generic_visit(node)

    def visit_Lambda(self, n: ast.Lambda) -> ast.AST:
        return self._shadow(n, [ast.Name(id=a.arg, ctx=ast.Store()) for a in n.args.args])

    def visit_ListComp(self, n: ast.ListComp) -> ast.AST:
        return self._shadow(n, [g.target for g in n.generators])

    visit_SetComp = visit_GeneratorExp = visit_DictComp = visit_ListComp  # type: ignore[assignment]


class _Norm(ast.NodeTransformer):
    """Spelling normal form of closed expressions:
    `x.find(s) != -1 / >= 0 / > -1` -> `s in x`;  `x.find(s) == -1 / < 0` -> `s not in x`;  `len(x) == 0` -> `not x`;  `len(x) > 0 / != 0 / >= 1` -> `x`
    (only where a truth value is asked for);  `.split(None)`, `.strip(None)`, `.lstrip(None)`, `.rstrip(None)` -> no argument."""

    def visit_Call(self, n: ast.Call) -> ast.AST:
        self.generic_visit(n)
        if isinstance(n.func, ast.Attribute) and n.func.attr in ('split', 'strip', 'lstrip', 'rstrip') and len(n.args) == 1 and not n.keywords \
                and isinstance(n.args[0], ast.Constant) and n.args[0].value is None:
            n.args = []
        return n

    def visit_Compare(self, n: ast.Compare) -> ast.AST:
        self.generic_visit(n)
        if len(n.ops) != 1:
            return n
        l, op, r = n.left, n.ops[0], n.comparators[0]

        def const(x: ast.AST) -> T.Optional[int]:
            if isinstance(x, ast.Constant) and isinstance(x.value, int) and not isinstance(x.value, bool):
                return x.value
            if isinstance(x, ast.UnaryOp) and isinstance(x.op, ast.USub) and isinstance(x.operand, ast.Constant) and isinstance(x.operand.value, int):
                return -x.operand.value
            return None
        c = const(r)
        if c is None:
            return n
        if isinstance(l, ast.Call) and isinstance(l.func, ast.Attribute) and l.func.attr == 'find' and len(l.args) == 1 and not l.keywords:
            found = (isinstance(op, ast.NotEq) and c == -1) or (isinstance(op, ast.GtE) and c == 0) or (isinstance(op, ast.Gt) and c == -1)
            absent = (isinstance(op, ast.Eq) and c == -1) or (isinstance(op, ast.Lt) and c == 0)
            if found or absent:
                return ast.Compare(left=l.args[0], ops=[ast.In() if found else ast.NotIn()], comparators=[l.func.value])
        return n


def opaque(tag: str, *args: ast.AST) -> ast.AST:
    return ast.Call(func=ast.Name(id=f'__{tag}__', ctx=ast.Load()), args=list(args), keywords=[])


class PathEnv:
    """Reaching definitions of the locals while walking the events of one path."""

    def __init__(self, base: T.Optional[T.Dict[str, ast.AST]] = None):
        self.env: T.Dict[str, ast.AST] = dict(base or {})

    def close(self, e: ast.AST) -> ast.AST:
        return ast.fix_missing_locations(_Norm().visit(_Sub(self.env).visit(copy.deepcopy(e))))

    def bind(self, target: ast.AST, value: ast.AST) -> None:
        if isinstance(target, ast.Name):
            self.env[target.id] = value
        elif isinstance(target, (ast.Tuple, ast.List)):
            if isinstance(value, (ast.Tuple, ast.List)) and len(value.elts) == len(target.elts):
                for t, v in zip(target.elts, value.elts):
                    self.bind(t, v)
            else:
                for i, t in enumerate(target.elts):
                    if isinstance(t, ast.Starred):
                        self.bind(t.value, opaque('rest', value))
                    else:
                        self.bind(t, ast.Subscript(value=value, slice=ast.Constant(value=i), ctx=ast.Load()))
        elif isinstance(target, (ast.Subscript, ast.Attribute)):
            base: ast.AST = target
            while isinstance(base, (ast.Subscript, ast.Attribute)):
                base = base.value
            if isinstance(base, ast.Name):
                self.env[base.id] = opaque('updated', ast.Name(id=base.id, ctx=ast.Load()))

    def stmt(self, st: ast.AST) -> None:
        if isinstance(st, ast.Assign):
            v = self.close(st.value)
            for t in st.targets:
                self.bind(t, v)
        elif isinstance(st, ast.AnnAssign):
            if st.value is not None:
                self.bind(st.target, self.close(st.value))
        elif isinstance(st, ast.AugAssign):
            if isinstance(st.target, ast.Name):
                cur = self.env.get(st.target.id, ast.Name(id=st.target.id, ctx=ast.Load()))
                self.env[st.target.id] = ast.BinOp(left=copy.deepcopy(cur), op=st.op, right=self.close(st.value))
            else:
                self.bind(st.target, opaque('aug'))
        elif isinstance(st, (ast.FunctionDef, ast.AsyncFunctionDef)):
            lam = as_lambda(st, self.env) if isinstance(st, ast.FunctionDef) else None
            if lam is not None:
                self.env[st.name] = lam
            else:
                self.env.pop(st.name, None)
        elif isinstance(st, (ast.Import, ast.ImportFrom)):
            for a in st.names:
                self.env.pop(a.asname or a.name.split('.')[0], None)


def as_lambda(st: ast.FunctionDef, outer: T.Optional[T.Dict[str, ast.AST]] = None) -> T.Optional[ast.Lambda]:
    """`def f(x): a = E1; return E2` (straight-line assignments, one return, no decorator) as the lambda `lambda x: E2[a := E1]`."""
    if st.decorator_list or not st.body or not isinstance(st.body[-1], ast.Return) or st.body[-1].value is None:
        return None
    body = [b for b in st.body[:-1] if not (isinstance(b, ast.Expr) and isinstance(b.value, ast.Constant))]   # docstring
    if not all(isinstance(b, (ast.Assign, ast.AnnAssign)) for b in body):
        return None
    shadow = {a.arg for a in st.args.posonlyargs + st.args.args + st.args.kwonlyargs}
    inner = PathEnv({k: v for k, v in (outer or {}).items() if k not in shadow})
    for b in body:
        inner.stmt(b)
    return ast.Lambda(args=st.args, body=inner.close(st.body[-1].value))


def _assigned(stmts: T.List[ast.stmt]) -> T.Set[str]:
    out: T.Set[str] = set()
    for s in stmts:
        for n in ast.walk(s):
            if isinstance(n, ast.Name) and isinstance(n.ctx, ast.Store):
                out.add(n.id)
    return out


class XRow(Row):
    """Row + closed effects (calls made as statements) + the handlers entered."""
    calls: T.List[ast.Call]
    handlers: T.List[ast.ExceptHandler]
    value: T.Optional[ast.AST]
    in_try: bool                       # a statement of a guarded try body was passed
    env: T.Dict[str, ast.AST]          # reaching definitions at the end of the path


def table(fn: ast.AST, body: T.Optional[T.List[ast.stmt]] = None, *, handlers: bool = True, unroll: int = 1, name: str = '',
          base: T.Optional[T.Dict[str, ast.AST]] = None) -> Table:
    stmts = body if body is not None else fn.body  # type: ignore[attr-defined]
    owner: T.Dict[int, ast.Try] = {}
    guarded: T.Set[int] = set()
    for n in ast.walk(ast.Module(body=stmts, type_ignores=[])):
        if isinstance(n, ast.Try):
            for h in n.handlers:
                owner[id(h)] = n
            if n.handlers:
                for s in n.body:
                    for x in ast.walk(s):
                        guarded.add(id(x))
    rows: T.List[Row] = []
    for p in enumerate_paths(stmts, unroll=unroll, handlers=handlers):
        pe = PathEnv(base)
        conds: T.Dict[Atom, bool] = {}
        calls: T.List[ast.Call] = []
        hs: T.List[ast.ExceptHandler] = []
        feasible = True
        in_try = False
        for ev in p.events:
            if ev.node is None:
                continue
            if ev.kind == 'cond':
                a, v = tables.canon(pe.close(ev.node), bool(ev.val))
                if conds.get(a, v) != v:
                    feasible = False
                    break
                conds[a] = v
            elif ev.kind == 'stmt':
                st = ev.node
                in_try = in_try or id(st) in guarded
                if isinstance(st, ast.Expr) and isinstance(st.value, ast.Call):
                    calls.append(T.cast(ast.Call, pe.close(st.value)))
                    c = st.value
                    if isinstance(c.func, ast.Attribute) and isinstance(c.func.value, ast.Name) and \
                            c.func.attr in ('append', 'extend', 'add', 'update', 'insert', 'pop', 'remove', 'clear', 'sort'):
                        nm = c.func.value.id
                        pe.env[nm] = opaque('mutated', pe.env.get(nm, ast.Name(id=nm, ctx=ast.Load())), T.cast(ast.Call, pe.close(st.value)))
                elif not isinstance(st, (ast.Return, ast.Raise)):
                    pe.stmt(st)
            elif ev.kind == 'iter':
                if ev.val == 'iter':
                    pe.bind(ev.node.target, opaque('element', pe.close(ev.node.iter)))  # type: ignore[attr-defined]
            elif ev.kind == 'with':
                for it in ev.node.items:  # type: ignore[attr-defined]
                    if it.optional_vars is not None:
                        pe.bind(it.optional_vars, opaque('entered', pe.close(it.context_expr)))
            elif ev.kind == 'exc':
                h = T.cast(ast.ExceptHandler, ev.node)
                hs.append(h)
                t = owner.get(id(h))
                if t is not None:
                    for nm in _assigned(t.body):
                        pe.env[nm] = opaque('maybe', ast.Name(id=nm, ctx=ast.Load()))
                if h.name:
                    pe.env.pop(h.name, None)
        if not feasible:
            continue
        val = pe.close(p.value) if p.value is not None else None
        oc: T.Tuple[T.Any, ...]
        if p.outcome == 'raise':
            exc = val.func if isinstance(val, ast.Call) else val
            oc = ('raise', norm(exc).split('.')[-1] if exc is not None else '<reraise>')
        elif p.outcome == 'return':
            oc = ('return', norm(val) if val is not None else 'None')
        else:
            oc = (p.outcome,)
        r = XRow(conds, oc, tuple(norm(c) for c in calls), p)
        r.calls = calls
        r.handlers = hs
        r.value = val
        r.in_try = in_try
        r.env = dict(pe.env)
        rows.append(r)
    return Table(rows, name or getattr(fn, 'name', ''))


# ---------------------------------------------------------------------------------------------------
# shape of a text expression
# ---------------------------------------------------------------------------------------------------
class Lit(T.NamedTuple):
    text: str


class Op(T.NamedTuple):
    expr: str                     # normalised source of the operand
    conv: T.Tuple[str, ...]       # conversions applied, innermost first: bool, int, !r
    node: T.Any


class Strip(T.NamedTuple):
    inner: T.Tuple[T.Any, ...]


class Scan(T.NamedTuple):
    func: str
    inner: T.Tuple[T.Any, ...]


class Cond(T.NamedTuple):
    test: T.Any
    then: T.Tuple[T.Any, ...]
    other: T.Tuple[T.Any, ...]


Part = T.Union[Lit, Op, Strip, Scan, Cond]
_FMT = re.compile(r'%(?:(?P<conv>[sdir])|(?P<pct>%)|(?P<bad>.?))')


def _conv_call(e: ast.AST) -> T.Optional[T.Tuple[str, ast.AST]]:
    if isinstance(e, ast.Call) and isinstance(e.func, ast.Name) and e.func.id in ('str', 'int', 'bool') and len(e.args) == 1 and not e.keywords:
        return e.func.id, e.args[0]
    return None


def _spec_conv(spec: ast.AST, where: ast.AST) -> T.Tuple[str, ...]:
    """Conversion implied by a constant format spec: '' / 's' none, 'd' / 'i' integer; anything else is outside the subset."""
    if isinstance(spec, ast.JoinedStr) and all(isinstance(v, ast.Constant) for v in spec.values):
        txt = ''.join(str(v.value) for v in spec.values)  # type: ignore[attr-defined]
    elif isinstance(spec, str):
        txt = spec
    else:
        raise Undecided(f'computed format spec in {short(where)}')
    if txt in ('', 's'):
        return ()
    if txt in ('d', 'i'):
        return ('int',)
    raise Undecided(f'format spec {txt!r} in {short(where)}')


def _format_call(e: ast.Call, scans: T.Mapping[str, T.Any]) -> T.Tuple[T.Any, ...]:
    """'..{}..{name!r:d}..'.format(a, name=b): constant format string, operands bound by position / keyword."""
    import string
    fmt = e.func.value.value  # type: ignore[attr-defined]
    kws = {k.arg: k.value for k in e.keywords}
    out: T.List[T.Any] = []
    auto = 0
    try:
        fields = list(string.Formatter().parse(fmt))
    except ValueError:
        raise Undecided(f'format string does not parse: {fmt!r}')
    for lit, field, spec, conv_ in fields:
        if lit:
            out.append(Lit(lit))
        if field is None:
            continue
        if field == '':
            idx: T.Any = auto
            auto += 1
        elif field.isdigit():
            idx = int(field)
        else:
            idx = field
        if isinstance(idx, int):
            if idx >= len(e.args):
                raise Undecided(f'format field {field!r} without operand in {short(e)}')
            operand = e.args[idx]
        else:
            if idx not in kws:
                raise Undecided(f'format field {field!r} outside the supported subset in {short(e)}')
            operand = kws[idx]
        c = _spec_conv(spec or '', e)
        if conv_ == 'r':
            out.append(Op(norm(operand), ('!r',), operand))
        elif conv_ in (None, 's'):
            out.extend(parts(operand, scans, c))
        else:
            raise Undecided(f'format conversion !{conv_} in {short(e)}')
    return tuple(out)


def parts(e: ast.AST, scans: T.Mapping[str, T.Any] = {}, conv: T.Tuple[str, ...] = ()) -> T.Tuple[Part, ...]:
    """Shape of a text-valued expression.  `scans` maps replacement-function names to the index of their text argument."""
    if isinstance(e, ast.Constant):
        if isinstance(e.value, str) and not conv:
            return (Lit(e.value),)
        if isinstance(e.value, (int, str)) and not isinstance(e.value, bool):
            return (Lit(str(e.value)),) if not conv or conv == ('int',) else (Op(norm(e), conv, e),)
    if isinstance(e, ast.JoinedStr) and not conv:
        out: T.List[Part] = []
        for v in e.values:
            if isinstance(v, ast.Constant):
                out.append(Lit(str(v.value)))
            elif isinstance(v, ast.FormattedValue):
                c: T.Tuple[str, ...] = ()
                if v.format_spec is not None:
                    c = _spec_conv(v.format_spec, e)
                if v.conversion == ord('r'):
                    c = ('!r',)
                elif v.conversion not in (-1, ord('s')):
                    raise Undecided(f'f-string conversion in {short(e)}')
                out.extend(parts(v.value, scans, c) if '!r' not in c else (Op(norm(v.value), c, v.value),))
        return tuple(out)
    if isinstance(e, ast.BinOp) and isinstance(e.op, ast.Add) and not conv:
        return parts(e.left, scans) + parts(e.right, scans)
    if isinstance(e, ast.BinOp) and isinstance(e.op, (ast.Mod, ast.Add)) and isinstance(e.left, ast.IfExp) and not conv:
        # (A if c else B) % x  ==  (A % x) if c else (B % x)
        return (Cond(e.left.test, parts(ast.BinOp(left=e.left.body, op=e.op, right=e.right), scans),
                     parts(ast.BinOp(left=e.left.orelse, op=e.op, right=e.right), scans)),)
    if isinstance(e, ast.BinOp) and isinstance(e.op, ast.Mod) and isinstance(e.left, ast.Constant) and isinstance(e.left.value, str) and not conv:
        ops = list(e.right.elts) if isinstance(e.right, ast.Tuple) else [e.right]
        out = []
        pos = 0
        i = 0
        fmt = e.left.value
        for m in _FMT.finditer(fmt):
            if m.start() > pos:
                out.append(Lit(fmt[pos:m.start()]))
            pos = m.end()
            if m.group('pct'):
                out.append(Lit('%'))
                continue
            if m.group('conv') is None or i >= len(ops):
                raise Undecided(f'format string outside the supported subset: {fmt!r}')
            cv = m.group('conv')
            out.extend(parts(ops[i], scans, {'s': (), 'd': ('int',), 'i': ('int',), 'r': ('!r',)}[cv]))
            i += 1
        if pos < len(fmt):
            out.append(Lit(fmt[pos:]))
        if i != len(ops):
            raise Undecided(f'format string / operand count mismatch in {short(e)}')
        return tuple(out)
    if not conv and isinstance(e, ast.Call) and isinstance(e.func, ast.Attribute) and e.func.attr == 'format' and isinstance(e.func.value, ast.Constant) \
            and isinstance(e.func.value.value, str) and not any(isinstance(a, ast.Starred) for a in e.args) and all(k.arg for k in e.keywords):
        return _format_call(e, scans)
    if not conv and isinstance(e, ast.Call) and isinstance(e.func, ast.Attribute) and e.func.attr == 'join' and isinstance(e.func.value, ast.Constant) \
            and isinstance(e.func.value.value, str) and len(e.args) == 1 and isinstance(e.args[0], (ast.List, ast.Tuple)) \
            and not any(isinstance(a, ast.Starred) for a in e.args[0].elts) and not e.keywords:
        out = []
        for i, el in enumerate(e.args[0].elts):
            if i:
                out.append(Lit(e.func.value.value))
            out.extend(parts(el, scans))
        return tuple(out)
    cc = _conv_call(e)
    if cc is not None:
        name, arg = cc
        if name == 'str':
            return parts(arg, scans, conv)
        return parts(arg, scans, (name,) + conv)
    if isinstance(e, ast.IfExp):
        return (Cond(e.test, parts(e.body, scans, conv), parts(e.orelse, scans, conv)),)
    if not conv and isinstance(e, ast.Call) and isinstance(e.func, ast.Attribute) and e.func.attr == 'strip' and not e.args and not e.keywords:
        return (Strip(parts(e.func.value, scans)),)
    if not conv and isinstance(e, ast.Subscript) and isinstance(e.slice, ast.Constant) and e.slice.value == 0 and isinstance(e.value, ast.Call) \
            and isinstance(e.value.func, ast.Name) and e.value.func.id in scans:
        spec = scans[e.value.func.id]
        idx, pname = spec if isinstance(spec, tuple) else (spec, None)
        if idx < len(e.value.args):
            return (Scan(e.value.func.id, parts(e.value.args[idx], scans)),)
        for k in e.value.keywords:
            if pname is not None and k.arg == pname:
                return (Scan(e.value.func.id, parts(k.value, scans)),)
    return (Op(norm(e), conv, e),)


def flatten(ps: T.Iterable[Part]) -> T.Iterator[Part]:
    for p in ps:
        if isinstance(p, (Strip, Scan)):
            yield from flatten(p.inner)
        else:
            yield p


def render(ps: T.Iterable[Part], role: T.Callable[[Op], str], choose: T.Callable[[ast.AST], T.Optional[bool]]) -> str:
    """Template text: literals verbatim, operands as {ROLE|conv..}; `.strip()` applied to the constant ends;
    conditional pieces resolved by `choose(test)` (None -> Undecided)."""
    out = ''
    for p in ps:
        if isinstance(p, Lit):
            out += p.text
        elif isinstance(p, Op):
            out += '{' + '|'.join((role(p),) + p.conv) + '}'
        elif isinstance(p, Strip):
            out += render(p.inner, role, choose).strip()
        elif isinstance(p, Scan):
            out += render(p.inner, role, choose)
        elif isinstance(p, Cond):
            c = choose(p.test)
            if c is None:
                raise Undecided(f'conditional text on an unknown test: {short(p.test)}')
            out += render(p.then if c else p.other, role, choose)
    return out
