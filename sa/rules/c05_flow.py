"""C05 helper: flow-sensitive origin sets with callee summaries (DESIGN B.2).

`sa.flow.Flow` is flow-insensitive and has no callee summaries; the C05
obligations need both ("the value appended *before* the edge is populated",
"the paths returned by `self.get_paths_for_dep_outputs(target, X)` derive from
X").  This module keeps Flow's label scheme and mutator table and adds

* reaching definitions over `sa.cfg.CFG` (strong defs kill, mutators/`+=` are
  weak defs), evaluated on demand by a fixpoint over the demanded defs only;
* values are pairs (ident, deriv): `ident` = access paths the value *is*
  (`target.pch`, `genlist.get_generator()`), `deriv` = labels it derives from
  (`param:x`, `attr:x.a`, `call:x.m()`, `call:self.f()[0]`, `const`).  Access
  paths never contain a local name, so renaming locals changes nothing;
* summaries of repository callees (`self.m(...)` resolved on the dynamic class,
  module-level `f(...)`): return value per tuple position over the callee's
  parameters, and "parameter reaches an edge sink of the element parameter";
  depth <= 3, recursion cut.  A callee that cannot be resolved or summarised
  contributes only its own `call:` label: nothing flows *through* it.

Transfer rules accepted for a must-flow (B.2): assignment, tuple (un)packing
(positional for displays and summarised tuple returns), containers, operators,
f-strings, comprehensions, subscripts/attribute reads, `x.method(args)` on model
objects and library modules (receiver and arguments), constructors and a fixed
list of builtins.  Nothing else.
"""
from __future__ import annotations

import ast
import re
import typing as T

from ..core import Module, Repo, Undecided, attr_chain, call_name, norm, short, walk_no_nested, decorator_names
from ..cfg import CFG, Node
from ..flow import MUTATORS as _ENGINE_MUTATORS

MUTATORS = set(_ENGINE_MUTATORS) | {'extend_preserving_lflags', 'append_unique', 'update_direct'}
PURE_NAMES = {'list', 'tuple', 'set', 'frozenset', 'sorted', 'reversed', 'dict', 'str', 'iter', 'next', 'enumerate', 'zip',
              'unwrap', 'listify', 'unique_list', 'chain'}
MAX_SEGS = 5
MAX_DEPTH = 3
ELEMENT_CLASS = 'NinjaBuildElement'
# Repository callees whose result is deliberately NOT derived from (part of) their arguments: nothing flows through them.
CUTS = {
    'guess_external_link_dependencies': 'skips the internal link arguments (`if item in internal: continue`) and returns paths of libraries '
                                        'found outside the build; link_with targets do not travel through it',
}
DEP_METHODS = {'add_dep': 'dep', 'add_orderdep': 'orderdep'}
DEP_FIELDS = {'deps': 'dep', 'orderdeps': 'orderdep'}

_ROOT = re.compile(r'[A-Za-z_]\w*')

Val = T.Tuple[T.FrozenSet[str], T.FrozenSet[str]]
EMPTY: Val = (frozenset(), frozenset())


def vjoin(*vs: Val) -> Val:
    i: T.Set[str] = set()
    d: T.Set[str] = set()
    for v in vs:
        i |= v[0]
        d |= v[1]
    return frozenset(i), frozenset(d)


def _segs(path: str) -> int:
    return path.count('.') + path.count('[') + 1


def ext_path(path: str, suffix: str) -> T.Optional[str]:
    p = path + suffix
    return p if _segs(p) <= MAX_SEGS else None


def label_root(label: str) -> T.Tuple[str, str, str]:
    """'attr:target.pch' -> ('attr', 'target', '.pch')."""
    kind, _, path = label.partition(':')
    m = _ROOT.match(path)
    if not m:
        return kind, '', path
    return kind, m.group(0), path[m.end():]


def module_imports(mod: Module) -> T.Dict[str, str]:
    """local name -> dotted origin, from the module's top-level import statements (incl. `if TYPE_CHECKING:` / try blocks).
    (Module.imports() walks the whole tree on every call; this is the same table restricted to module level.)"""
    out: T.Dict[str, str] = {}
    pkg = mod.rel[:-3].split('/')
    base = pkg[:-1]

    def rec(body: T.List[ast.stmt]) -> None:
        for st in body:
            if isinstance(st, ast.Import):
                for a in st.names:
                    out[a.asname or a.name.split('.')[0]] = a.name if a.asname else a.name.split('.')[0]
            elif isinstance(st, ast.ImportFrom):
                if st.level:
                    b = base[:len(base) - (st.level - 1)]
                    m = '.'.join(b + ([st.module] if st.module else []))
                else:
                    m = st.module or ''
                for a in st.names:
                    out[a.asname or a.name] = f'{m}.{a.name}'
            elif isinstance(st, (ast.If, ast.Try)):
                for field in ('body', 'orelse', 'finalbody'):
                    rec(getattr(st, field, []))
                for h in getattr(st, 'handlers', []):
                    rec(h.body)
    rec(mod.tree.body)
    return out


class Def:
    __slots__ = ('id', 'name', 'node', 'strong', 'value', 'index', 'param')

    def __init__(self, id: int, name: str, node: int, strong: bool, value: T.Optional[ast.AST], index: T.Optional[int] = None,
                 param: bool = False):
        self.id = id
        self.name = name
        self.node = node
        self.strong = strong
        self.value = value
        self.index = index
        self.param = param


class Sink(T.NamedTuple):
    node: Node
    elem: str
    kind: str                     # dep | orderdep | infiles
    exprs: T.Tuple[ast.AST, ...]  # argument expressions (evaluated at node) ...
    pre: T.Optional[Val]          # ... or a value already mapped from a callee's sink summary
    desc: str
    ctor_def: T.Optional[int]     # for infiles: the definition of the element made by this constructor call


class Summary:
    def __init__(self, combined: Val, elements: T.Optional[T.List[Val]], sinks: T.List[T.Tuple[str, str, Val, str]], params: T.List[str]):
        self.combined = combined
        self.elements = elements
        self.sinks = sinks        # (element parameter, kind, value over the callee's parameters, description)
        self.params = params


def bind_args(fn: ast.AST, call: ast.Call, skip_self: bool) -> T.Optional[T.Dict[str, ast.AST]]:
    a = fn.args  # type: ignore[attr-defined]
    params = [x.arg for x in a.posonlyargs + a.args]
    if skip_self:
        params = params[1:]
    kwonly = [x.arg for x in a.kwonlyargs]
    if any(isinstance(x, ast.Starred) for x in call.args) or any(k.arg is None for k in call.keywords):
        return None
    out: T.Dict[str, ast.AST] = {}
    for i, x in enumerate(call.args):
        if i < len(params):
            out[params[i]] = x
    for k in call.keywords:
        if k.arg in params or k.arg in kwonly:
            out[k.arg] = k.value  # type: ignore[index]
    return out


def is_method(fn: ast.AST) -> bool:
    a = fn.args  # type: ignore[attr-defined]
    first = (a.posonlyargs + a.args)[:1]
    return bool(first) and first[0].arg == 'self' and 'staticmethod' not in decorator_names(fn)


class Analyzer:
    """Summaries and per-function flows for one dynamic class (the class `self` is an instance of)."""

    def __init__(self, repo: Repo, dyn_mod: T.Optional[Module] = None, dyn_cls: T.Optional[ast.ClassDef] = None, depth: int = MAX_DEPTH):
        self.repo = repo
        self.depth = depth
        self.dyn_mod = dyn_mod
        self.dyn_cls = dyn_cls
        self._flows: T.Dict[T.Tuple[str, int, int], 'FuncFlow'] = {}
        self._summ: T.Dict[T.Tuple[str, int, int], T.Optional[Summary]] = {}
        self.stack: T.List[int] = []
        self.unresolved: T.Set[str] = set()
        self.summarised: T.Set[str] = set()
        self._methods: T.Optional[T.Dict[str, T.Tuple[Module, str, ast.AST]]] = None
        self._imports: T.Dict[str, T.Dict[str, str]] = {}

    def resolve_self(self, name: str) -> T.Optional[T.Tuple[Module, str, ast.AST]]:
        if self.dyn_mod is None or self.dyn_cls is None:
            return None
        if self._methods is None:
            # one MRO walk (Repo.find_method re-parses the import table on every call)
            tab: T.Dict[str, T.Tuple[Module, str, ast.AST]] = {}
            for m, c in self.repo.mro(self.dyn_mod, self.dyn_cls):
                for st in c.body:
                    if isinstance(st, (ast.FunctionDef, ast.AsyncFunctionDef)) and st.name not in tab:
                        tab[st.name] = (m, f'{c.name}.{st.name}', st)
            self._methods = tab
        return self._methods.get(name)

    def imports(self, mod: Module) -> T.Dict[str, str]:
        t = self._imports.get(mod.rel)
        if t is None:
            t = module_imports(mod)
            self._imports[mod.rel] = t
        return t

    def flow(self, mod: Module, qual: str, fn: ast.AST, depth: T.Optional[int] = None) -> 'FuncFlow':
        depth = self.depth if depth is None else depth
        key = (mod.rel, id(fn), depth)
        ff = self._flows.get(key)
        if ff is None:
            ff = FuncFlow(self, mod, qual, fn, depth)
            self._flows[key] = ff
        return ff

    def summary(self, mod: Module, qual: str, fn: ast.AST, depth: int) -> T.Optional[Summary]:
        """Summary of a callee analysed with `depth` levels of callees below it; None = not summarised."""
        if depth < 0 or id(fn) in self.stack:
            return None
        key = (mod.rel, id(fn), depth)
        if key in self._summ:
            return self._summ[key]
        self.stack.append(id(fn))
        try:
            ff = self.flow(mod, qual, fn, depth)
            s: T.Optional[Summary] = ff.summarise()
        except Undecided:
            s = None
        finally:
            self.stack.pop()
        self._summ[key] = s
        if s is not None:
            self.summarised.add(qual)
        return s


class FuncFlow:
    def __init__(self, an: Analyzer, mod: Module, qual: str, fn: ast.AST, depth: int):
        self.an = an
        self.mod = mod
        self.qual = qual
        self.fn = fn
        self.depth = depth
        self.cfg = CFG(fn)  # type: ignore[arg-type]
        a = fn.args  # type: ignore[attr-defined]
        self.params = [x.arg for x in a.posonlyargs + a.args + a.kwonlyargs]
        if a.vararg:
            self.params.append(a.vararg.arg)
        if a.kwarg:
            self.params.append(a.kwarg.arg)
        self.method = is_method(fn)
        self.selfname = 'self' if self.method else None
        self.defs: T.List[Def] = []
        self.by_node: T.Dict[int, T.List[Def]] = {}
        self.attr_defs: T.Dict[str, T.List[T.Tuple[Node, ast.AST, T.Optional[int]]]] = {}
        self.local_names: T.Set[str] = set()
        for p in self.params:
            self._newdef(p, self.cfg.entry, True, None, param=True)
        for n in self.cfg.nodes:
            self._node_defs(n)
        self.IN: T.Dict[int, T.Dict[str, T.FrozenSet[int]]] = {}
        self._reaching()
        self.O: T.Dict[int, Val] = {}
        self.done: T.Set[int] = set()
        self._sinks: T.Optional[T.List[Sink]] = None
        self._reach_cache: T.Dict[int, T.Set[int]] = {}
        self._attr_busy: T.Set[str] = set()

    # -- definitions ------------------------------------------------------
    def _newdef(self, name: str, node: Node, strong: bool, value: T.Optional[ast.AST], index: T.Optional[int] = None,
                param: bool = False) -> Def:
        d = Def(len(self.defs), name, node.id, strong, value, index, param)
        self.defs.append(d)
        self.by_node.setdefault(node.id, []).append(d)
        self.local_names.add(name)
        return d

    def _bind(self, node: Node, target: ast.AST, value: T.Optional[ast.AST], strong: bool, index: T.Optional[int] = None,
              unpack: bool = False) -> None:
        if isinstance(target, ast.Name):
            self._newdef(target.id, node, strong, value, index)
        elif isinstance(target, (ast.Tuple, ast.List)):
            if isinstance(value, (ast.Tuple, ast.List)) and len(value.elts) == len(target.elts) \
                    and not any(isinstance(e, ast.Starred) for e in list(value.elts) + list(target.elts)):
                for t, v in zip(target.elts, value.elts):
                    self._bind(node, t, v, strong, None, unpack)
            elif unpack and isinstance(value, (ast.Call, ast.Name)) and not any(isinstance(e, ast.Starred) for e in target.elts):
                for k, t in enumerate(target.elts):
                    self._bind(node, t, value, strong, k, False)
            else:
                for t in target.elts:
                    self._bind(node, t, value, strong, None, False)
        elif isinstance(target, ast.Starred):
            self._bind(node, target.value, value, strong, None, False)
        elif isinstance(target, ast.Subscript):
            self._bind(node, target.value, value, False, None, False)
        elif isinstance(target, ast.Attribute):
            c = attr_chain(target)
            if c is not None and value is not None:
                self.attr_defs.setdefault(c, []).append((node, value, index))

    def _inner(self, node: Node, e: T.Optional[ast.AST]) -> None:
        if e is None:
            return
        for n in walk_no_nested(e):
            if isinstance(n, ast.NamedExpr):
                self._bind(node, n.target, n.value, True)
            elif isinstance(n, ast.Call) and isinstance(n.func, ast.Attribute) and n.func.attr in MUTATORS:
                for a in list(n.args) + [k.value for k in n.keywords]:
                    self._bind(node, n.func.value, a.value if isinstance(a, ast.Starred) else a, False)
            elif isinstance(n, (ast.ListComp, ast.SetComp, ast.GeneratorExp, ast.DictComp)):
                for g in n.generators:
                    for t in ast.walk(g.target):
                        if isinstance(t, ast.Name):
                            self.local_names.add(t.id)

    def _node_defs(self, n: Node) -> None:
        st = n.ast
        if n.kind == 'stmt':
            if isinstance(st, (ast.FunctionDef, ast.AsyncFunctionDef, ast.ClassDef)):
                self._newdef(st.name, n, True, None)
                return
            if isinstance(st, ast.Assign):
                for t in st.targets:
                    self._bind(n, t, st.value, True, None, True)
                self._inner(n, st.value)
            elif isinstance(st, ast.AnnAssign):
                if st.value is not None:
                    self._bind(n, st.target, st.value, True, None, True)
                    self._inner(n, st.value)
            elif isinstance(st, ast.AugAssign):
                self._bind(n, st.target, st.value, False)
                self._inner(n, st.value)
            elif isinstance(st, (ast.Import, ast.ImportFrom)):
                for al in st.names:
                    self._newdef((al.asname or al.name).split('.')[0], n, True, None)
            else:
                self._inner(n, st)
        elif n.kind == 'test':
            self._inner(n, st.test)  # type: ignore[union-attr]
        elif n.kind == 'iter':
            self._bind(n, st.target, st.iter, True)  # type: ignore[union-attr]
            self._inner(n, st.iter)  # type: ignore[union-attr]
        elif n.kind == 'with_enter':
            for i in st.items:  # type: ignore[union-attr]
                if i.optional_vars is not None:
                    self._bind(n, i.optional_vars, i.context_expr, True)
                self._inner(n, i.context_expr)
        elif n.kind == 'handler':
            if getattr(st, 'name', None):
                self._newdef(st.name, n, True, None)  # type: ignore[union-attr]

    def _reaching(self) -> None:
        cfg = self.cfg
        gen: T.Dict[int, T.Dict[str, T.Set[int]]] = {}
        kill: T.Dict[int, T.Set[str]] = {}
        for nid, ds in self.by_node.items():
            g: T.Dict[str, T.Set[int]] = {}
            k: T.Set[str] = set()
            for d in ds:
                g.setdefault(d.name, set()).add(d.id)
                if d.strong:
                    k.add(d.name)
            gen[nid] = g
            kill[nid] = k
        IN: T.Dict[int, T.Dict[str, T.Set[int]]] = {n.id: {} for n in cfg.nodes}
        OUT: T.Dict[int, T.Dict[str, T.Set[int]]] = {n.id: {} for n in cfg.nodes}

        def transfer(nid: int) -> T.Dict[str, T.Set[int]]:
            out: T.Dict[str, T.Set[int]] = {}
            k = kill.get(nid, set())
            for name, s in IN[nid].items():
                if name not in k:
                    out[name] = set(s)
            for name, s in gen.get(nid, {}).items():
                out.setdefault(name, set()).update(s)
            return out

        import heapq
        work = [n.id for n in cfg.nodes]      # node ids are created in program order: a heap visits in near-topological order
        heapq.heapify(work)
        inwork = set(work)
        OUT[cfg.entry.id] = transfer(cfg.entry.id)
        while work:
            nid = heapq.heappop(work)
            inwork.discard(nid)
            new_in: T.Dict[str, T.Set[int]] = {}
            for p, lab in cfg.pred[nid]:
                srcs = [OUT[p]]
                if lab == 'exc':
                    srcs.append(IN[p])
                for src in srcs:
                    for name, s in src.items():
                        new_in.setdefault(name, set()).update(s)
            IN[nid] = new_in
            new_out = transfer(nid)
            if new_out != OUT[nid]:
                OUT[nid] = new_out
                for b, _ in cfg.succ[nid]:
                    if b not in inwork:
                        inwork.add(b)
                        heapq.heappush(work, b)
        self.IN = {nid: {name: frozenset(s) for name, s in d.items()} for nid, d in IN.items()}

    # -- evaluation -------------------------------------------------------
    def _look_eval(self, name: str, node: Node) -> Val:
        ds = self.IN[node.id].get(name)
        if not ds:
            if name in self.local_names:
                return EMPTY
            return frozenset([name]), frozenset([f'name:{name}'])
        return vjoin(*[self.O.get(d, EMPTY) for d in ds])

    def value_at(self, expr: ast.AST, node: Node, index: T.Optional[int] = None) -> Val:
        need: T.Set[int] = set()
        todo: T.List[int] = []

        def collect(name: str, nd: Node) -> Val:
            for d in self.IN[nd.id].get(name, ()):
                if d not in self.done and d not in need:
                    need.add(d)
                    todo.append(d)
            return EMPTY

        self._ev_top(expr, node, index, collect)
        while todo:
            d = self.defs[todo.pop()]
            self._evdef(d, collect)
        if need:
            for d in need:
                self.O.setdefault(d, EMPTY)
            changed = True
            rounds = 0
            while changed:
                changed = False
                rounds += 1
                if rounds > 60:
                    raise Undecided(f'{self.qual}: origin fixpoint did not converge')
                for d in need:
                    v = self._evdef(self.defs[d], self._look_eval)
                    old = self.O[d]
                    if not (v[0] <= old[0] and v[1] <= old[1]):
                        self.O[d] = vjoin(old, v)
                        changed = True
            self.done |= need
        return self._ev_top(expr, node, index, self._look_eval)

    def origins_at(self, expr: ast.AST, node: Node, index: T.Optional[int] = None) -> T.FrozenSet[str]:
        return self.value_at(expr, node, index)[1]

    def _ev_top(self, expr: ast.AST, node: Node, index: T.Optional[int], look: T.Callable[[str, Node], Val]) -> Val:
        if index is not None and isinstance(expr, ast.Call):
            return self._ev_call(expr, node, {}, look, index)
        if index is not None and isinstance(expr, ast.Name):
            # `res = self.f(...)` ... `a, b = res`: positional when the one reaching definition is that call
            ds = self.IN[node.id].get(expr.id, frozenset())
            if len(ds) == 1:
                d = self.defs[next(iter(ds))]
                if d.strong and not d.param and d.index is None and isinstance(d.value, ast.Call):
                    return self._ev_call(d.value, self.cfg.nodes[d.node], {}, look, index)
        return self._ev(expr, node, {}, look)

    def _evdef(self, d: Def, look: T.Callable[[str, Node], Val]) -> Val:
        if d.param:
            if d.name == self.selfname:
                return frozenset(['self']), frozenset()
            return frozenset([d.name]), frozenset([f'param:{d.name}'])
        if d.value is None:
            return frozenset(), frozenset(['opaque'])
        node = self.cfg.nodes[d.node]
        v = self._ev_top(d.value, node, d.index, look)
        if not d.strong:
            # a mutator / += / x[k] = v: the container derives from the value, it is not the value
            return frozenset(), v[1]
        return v

    def _attr_ext(self, base: Val, rest: str) -> Val:
        ids = set()
        der = set(base[1])
        for p in base[0]:
            q = ext_path(p, rest)
            if q is not None:
                ids.add(q)
                der.add(f'attr:{q}')
        return frozenset(ids), frozenset(der)

    def _ev(self, e: T.Optional[ast.AST], node: Node, env: T.Dict[str, Val], look: T.Callable[[str, Node], Val]) -> Val:
        if e is None:
            return EMPTY
        if isinstance(e, ast.Name):
            if e.id in env:
                return env[e.id]
            return look(e.id, node)
        if isinstance(e, ast.Attribute):
            base = self._ev(e.value, node, env, look)
            v = self._attr_ext(base, '.' + e.attr)
            c = attr_chain(e)
            if c is not None and c in self.attr_defs and c not in self._attr_busy:
                self._attr_busy.add(c)
                try:
                    extra = [self._ev_top(val, nd, idx, look) for nd, val, idx in self.attr_defs[c]]
                finally:
                    self._attr_busy.discard(c)
                v = vjoin(v, (frozenset(), vjoin(*extra)[1]))
            return v
        if isinstance(e, ast.Call):
            return self._ev_call(e, node, env, look, None)
        if isinstance(e, ast.Subscript):
            if isinstance(e.value, ast.Call) and isinstance(e.slice, ast.Constant) and isinstance(e.slice.value, int):
                return self._ev_call(e.value, node, env, look, e.slice.value)
            return self._ev(e.value, node, env, look)
        if isinstance(e, ast.Constant):
            if isinstance(e.value, str) and e.value and len(e.value) <= 24:
                return frozenset(), frozenset(['const', f'const:{e.value!r}'])
            return frozenset(), frozenset(['const'])
        if isinstance(e, ast.Starred):
            return self._ev(e.value, node, env, look)
        if isinstance(e, (ast.ListComp, ast.SetComp, ast.GeneratorExp, ast.DictComp)):
            env2 = dict(env)
            for g in e.generators:
                it = self._ev(g.iter, node, env2, look)
                for t in ast.walk(g.target):
                    if isinstance(t, ast.Name):
                        env2[t.id] = it
            if isinstance(e, ast.DictComp):
                v = vjoin(self._ev(e.key, node, env2, look), self._ev(e.value, node, env2, look))
            else:
                v = self._ev(e.elt, node, env2, look)
            return frozenset(), v[1]
        if isinstance(e, ast.Lambda):
            return frozenset(), self._ev(e.body, node, env, look)[1]
        if isinstance(e, ast.IfExp):
            return vjoin(self._ev(e.body, node, env, look), self._ev(e.orelse, node, env, look))
        if isinstance(e, ast.BoolOp):
            return vjoin(*[self._ev(v, node, env, look) for v in e.values])
        if isinstance(e, ast.Compare):
            # evaluate for demand collection only; a comparison result carries no file
            self._ev(e.left, node, env, look)
            return frozenset(), frozenset(['const'])
        if isinstance(e, ast.UnaryOp):
            if isinstance(e.op, ast.Not):
                return frozenset(), frozenset(['const'])
            return self._ev(e.operand, node, env, look)
        if isinstance(e, ast.NamedExpr):
            return self._ev(e.value, node, env, look)
        if isinstance(e, (ast.Await, ast.YieldFrom)):
            return self._ev(e.value, node, env, look)
        if isinstance(e, ast.Yield):
            return self._ev(e.value, node, env, look)
        if isinstance(e, ast.Dict):
            vs = [self._ev(x, node, env, look) for x in list(e.keys) + list(e.values) if x is not None]
            return frozenset(), vjoin(*vs)[1]
        if isinstance(e, (ast.Tuple, ast.List, ast.Set, ast.BinOp, ast.JoinedStr, ast.FormattedValue, ast.Slice)):
            vs = [self._ev(ch, node, env, look) for ch in ast.iter_child_nodes(e) if isinstance(ch, ast.expr)]
            return frozenset(), vjoin(*vs)[1]
        return EMPTY

    def _args_val(self, call: ast.Call, node: Node, env: T.Dict[str, Val], look: T.Callable[[str, Node], Val]) -> Val:
        vs = [self._ev(a, node, env, look) for a in call.args] + [self._ev(k.value, node, env, look) for k in call.keywords]
        return frozenset(), vjoin(*vs)[1]

    def map_summary(self, val: Val, bind: T.Dict[str, ast.AST], evalf: T.Callable[[ast.AST], Val]) -> Val:
        """Rewrite a value over a callee's parameters into the caller's terms; labels not rooted at a bound
        parameter describe callee internals and are dropped."""
        cache: T.Dict[str, Val] = {}

        def actual(p: str) -> Val:
            if p not in cache:
                cache[p] = evalf(bind[p])
            return cache[p]
        der: T.Set[str] = set()
        for lab in val[1]:
            if lab == 'const':
                der.add(lab)
                continue
            kind, root, rest = label_root(lab)
            if root not in bind:
                continue
            a = actual(root)
            if kind == 'param' and not rest:
                der |= a[1]
            else:
                for p in a[0]:
                    q = ext_path(p, rest)
                    if q is not None:
                        der.add(f'{kind}:{q}')
        return frozenset(), frozenset(der)

    def _callee(self, call: ast.Call) -> T.Optional[T.Tuple[str, Module, str, ast.AST, bool]]:
        """(label path, module, qualified name, function, is self-call) for a repository callee, else None."""
        f = call.func
        if isinstance(f, ast.Attribute) and isinstance(f.value, ast.Name) and f.value.id == self.selfname:
            r = self.an.resolve_self(f.attr)
            if r is None:
                self.an.unresolved.add(f'{self.qual}: self.{f.attr}')
                return None
            m, q, fn = r
            return f'self.{f.attr}()', m, q, fn, is_method(fn)
        if isinstance(f, ast.Name) and f.id not in self.local_names and self.mod.has_func(f.id):
            return f'{f.id}()', self.mod, f.id, self.mod.func(f.id), False
        return None

    def _module_call(self, e: ast.Call) -> T.Optional[T.Tuple[str, T.Any]]:
        """Classify `root.a.b(...)` where root is a name imported at module level:
        ('repo', callee) a module-level repository function that is summarised; ('unknown', None) a repository function
        that is not (nothing flows through it); ('lib', None) / None: a library function or a constructor/classmethod -
        receiver and arguments flow (B.2 `x.method(args)`)."""
        chain = attr_chain(e.func)
        if chain is None:
            return None
        parts = chain.split('.')
        root = parts[0]
        if root in self.local_names or root == self.selfname:
            return None
        origin = self.an.imports(self.mod).get(root)
        if origin is None or not origin.startswith('mesonbuild'):
            return ('lib', None)
        if any(p[:1].isupper() for p in parts):
            return ('lib', None)            # Class(...) / Class.classmethod(...): a constructor
        m2 = self.an.repo.module_by_dotted(origin)
        if m2 is not None and len(parts) == 2 and m2.has_func(parts[1]):
            fn = m2.func(parts[1])
            return ('repo', (f'{chain}()', m2, parts[1], fn, False))
        return ('unknown', None)

    def _ev_call(self, e: ast.Call, node: Node, env: T.Dict[str, Val], look: T.Callable[[str, Node], Val],
                 index: T.Optional[int]) -> Val:
        f = e.func
        if isinstance(f, ast.Attribute) and isinstance(f.value, ast.Name) and f.value.id == self.selfname and f.value.id not in env:
            cal = self._callee(e)
            path = f'self.{f.attr}()'
            return self._ev_repo_call(e, node, env, look, index, path, cal)
        if isinstance(f, ast.Name):
            if f.id in env or f.id in self.local_names:
                return frozenset(), vjoin(self._ev(f, node, env, look), self._args_val(e, node, env, look))[1]
            cal = self._callee(e)
            if cal is not None:
                return self._ev_repo_call(e, node, env, look, index, f'{f.id}()', cal)
            lab = frozenset([f'call:{f.id}()'])
            if f.id in PURE_NAMES or f.id[:1].isupper():
                return frozenset(), lab | self._args_val(e, node, env, look)[1]
            return frozenset(), lab          # unknown callee: nothing flows through
        if isinstance(f, ast.Attribute):
            if isinstance(f.value, ast.Call) and isinstance(f.value.func, ast.Name) and f.value.func.id == 'super':
                return frozenset(), frozenset([f'call:super().{f.attr}()'])     # base-class method: an unknown callee
            how = self._module_call(e)
            if how is not None:
                kind, payload = how
                chain = attr_chain(f) or ''
                if kind == 'repo':
                    return self._ev_repo_call(e, node, env, look, index, f'{chain}()', payload)
                if kind == 'unknown':
                    return frozenset(), frozenset([f'call:{chain}()'])         # repository function we cannot summarise
            recv = self._ev(f.value, node, env, look)
            ids = set()
            der = set(recv[1])
            for p in recv[0]:
                q = ext_path(p, f'.{f.attr}()')
                if q is not None:
                    ids.add(q)
                    der.add(f'call:{q}')
            der |= self._args_val(e, node, env, look)[1]
            return frozenset(ids), frozenset(der)
        # call of a call / subscript result
        return frozenset(), vjoin(self._ev(f, node, env, look), self._args_val(e, node, env, look))[1]

    def _ev_repo_call(self, e: ast.Call, node: Node, env: T.Dict[str, Val], look: T.Callable[[str, Node], Val],
                      index: T.Optional[int], path: str, cal: T.Optional[T.Tuple[str, Module, str, ast.AST, bool]]) -> Val:
        ids = {path}
        der = {f'call:{path}'}
        summ = None
        if cal is not None and cal[2].rsplit('.', 1)[-1] not in CUTS:
            _, m, q, fn, skip = cal
            summ = self.an.summary(m, q, fn, self.depth - 1)
        use_index = index is not None and summ is not None and summ.elements is not None and index < len(summ.elements)
        if use_index:
            # a known position of a tuple result: only the positional label (the unpositioned one means "position unknown")
            ids = {f'{path}[{index}]'}
            der = {f'call:{path}[{index}]'}
        if summ is not None and cal is not None:
            bind = bind_args(cal[3], e, cal[4])
            if bind is not None:
                val = summ.elements[index] if use_index else summ.combined  # type: ignore[index]
                mapped = self.map_summary(val, bind, lambda x: self._ev(x, node, env, look))
                der |= mapped[1]
        return frozenset(ids), frozenset(der)

    # -- summaries ----------------------------------------------------------
    def return_nodes(self) -> T.List[T.Tuple[Node, ast.AST]]:
        out = []
        for n in self.cfg.nodes:
            if n.kind == 'stmt' and isinstance(n.ast, ast.Return) and n.ast.value is not None:
                out.append((n, n.ast.value))
        return out

    def yield_nodes(self) -> T.List[T.Tuple[Node, ast.AST]]:
        out = []
        for n in self.cfg.nodes:
            e = n.expr()
            if e is None:
                continue
            for y in walk_no_nested(e):
                if isinstance(y, (ast.Yield, ast.YieldFrom)) and y.value is not None:
                    out.append((n, y.value))
        return out

    def summarise(self) -> Summary:
        rets = self.return_nodes()
        ys = self.yield_nodes()
        elements: T.Optional[T.List[Val]] = None
        if rets and not ys and all(isinstance(v, ast.Tuple) and not any(isinstance(x, ast.Starred) for x in v.elts) for _, v in rets) \
                and len({len(v.elts) for _, v in rets}) == 1:  # type: ignore[attr-defined]
            n = len(rets[0][1].elts)  # type: ignore[attr-defined]
            elements = [vjoin(*[self.value_at(v.elts[k], nd) for nd, v in rets]) for k in range(n)]  # type: ignore[attr-defined]
            combined = (frozenset(), vjoin(*elements)[1])
        else:
            combined = vjoin(*[self.value_at(v, nd) for nd, v in rets + ys])
        sinks = []
        for s in self.sinks():
            ds = self.IN[s.node.id].get(s.elem, frozenset())
            if any(self.defs[d].param for d in ds):
                sinks.append((s.elem, s.kind, self.sink_value(s), s.desc))
        return Summary(combined, elements, sinks, [p for p in self.params if p != self.selfname])

    # -- sinks --------------------------------------------------------------
    def _elem_candidates(self) -> T.Set[str]:
        out: T.Set[str] = set()
        a = self.fn.args  # type: ignore[attr-defined]
        for p in a.posonlyargs + a.args + a.kwonlyargs:
            if p.annotation is not None and ELEMENT_CLASS in norm(p.annotation):
                out.add(p.arg)
        for n in walk_no_nested(self.fn):
            if isinstance(n, ast.Assign) and isinstance(n.value, ast.Call) and call_name(n.value) == ELEMENT_CLASS:
                for t in n.targets:
                    if isinstance(t, ast.Name):
                        out.add(t.id)
            elif isinstance(n, ast.Call) and isinstance(n.func, ast.Attribute):
                fv = n.func.value
                if n.func.attr in DEP_METHODS and isinstance(fv, ast.Name):
                    out.add(fv.id)
                elif n.func.attr in ('add', 'update') and isinstance(fv, ast.Attribute) and fv.attr in DEP_FIELDS and isinstance(fv.value, ast.Name):
                    out.add(fv.value.id)
                elif call_name(n) == 'self.add_build' and n.args and isinstance(n.args[0], ast.Name):
                    out.add(n.args[0].id)
        return out

    def node_calls(self, n: Node) -> T.List[ast.Call]:
        if n.kind == 'with_enter':
            roots: T.List[ast.AST] = [i.context_expr for i in n.ast.items]  # type: ignore[union-attr]
        else:
            e = n.expr()
            roots = [e] if e is not None else []
        out = []
        for r in roots:
            if isinstance(r, (ast.FunctionDef, ast.AsyncFunctionDef, ast.ClassDef)):
                continue
            out.extend(c for c in walk_no_nested(r) if isinstance(c, ast.Call))
        return out

    def sinks(self) -> T.List[Sink]:
        if self._sinks is not None:
            return self._sinks
        cands = self._elem_candidates()
        out: T.List[Sink] = []
        for n in self.cfg.nodes:
            if n.kind == 'stmt' and isinstance(n.ast, ast.Assign) and isinstance(n.ast.value, ast.Call) \
                    and call_name(n.ast.value) == ELEMENT_CLASS and len(n.ast.targets) == 1 and isinstance(n.ast.targets[0], ast.Name):
                c = n.ast.value
                inf = c.args[3] if len(c.args) > 3 else next((k.value for k in c.keywords if k.arg == 'infilenames'), None)
                if inf is not None:
                    name = n.ast.targets[0].id
                    dd = [d.id for d in self.by_node.get(n.id, []) if d.name == name and d.strong]
                    out.append(Sink(n, name, 'infiles', (inf,), None, f'{name} = {ELEMENT_CLASS}(..., {short(inf, 60)})', dd[0] if dd else None))
            for c in self.node_calls(n):
                f = c.func
                if not isinstance(f, ast.Attribute):
                    continue
                fv = f.value
                if f.attr in DEP_METHODS and isinstance(fv, ast.Name) and c.args:
                    out.append(Sink(n, fv.id, DEP_METHODS[f.attr], tuple(c.args), None, short(c, 90), None))
                elif f.attr in ('add', 'update') and isinstance(fv, ast.Attribute) and fv.attr in DEP_FIELDS and isinstance(fv.value, ast.Name) and c.args:
                    out.append(Sink(n, fv.value.id, DEP_FIELDS[fv.attr], tuple(c.args), None, short(c, 90), None))
                elif isinstance(fv, ast.Name) and fv.id == self.selfname and f.attr != 'add_build' \
                        and any(isinstance(a, ast.Name) and a.id in cands for a in c.args):
                    cal = self._callee(c)
                    if cal is None:
                        continue
                    _, m, q, fn, skip = cal
                    summ = self.an.summary(m, q, fn, self.depth - 1)
                    if summ is None or not summ.sinks:
                        continue
                    bind = bind_args(fn, c, skip)
                    if bind is None:
                        continue
                    for p, kind, val, desc in summ.sinks:
                        a = bind.get(p)
                        if isinstance(a, ast.Name) and a.id in cands:
                            mapped = self.map_summary(val, bind, lambda x, n=n: self.value_at(x, n))
                            out.append(Sink(n, a.id, kind, (), mapped, f'{short(c, 70)} -> {desc}', None))
        self._sinks = out
        return out

    def sink_value(self, s: Sink) -> Val:
        if s.pre is not None:
            return s.pre
        return (frozenset(), vjoin(*[self.value_at(e, s.node) for e in s.exprs])[1])

    def reach(self, n: Node) -> T.Set[int]:
        r = self._reach_cache.get(n.id)
        if r is None:
            r = self.cfg.reachable([n])
            self._reach_cache[n.id] = r
        return r

    def elem_defs(self, name: str, node: Node, before: bool = True) -> T.FrozenSet[int]:
        """Definitions of the element held by `name` at `node`, looking through plain aliases (`elem = link_elem`)."""
        out: T.Set[int] = set()
        todo = list(self.IN[node.id].get(name, frozenset()))
        while todo:
            d = todo.pop()
            if d in out:
                continue
            out.add(d)
            df = self.defs[d]
            if df.strong and isinstance(df.value, ast.Name) and df.index is None:
                todo.extend(self.IN[df.node].get(df.value.id, frozenset()))
        return frozenset(out)

    def reg_nodes(self, s: Sink) -> T.List[Node]:
        """Nodes after the sink where the populated element is handed to self.add_build(...) or returned."""
        if s.ctor_def is not None:
            ds: T.FrozenSet[int] = frozenset([s.ctor_def])
        else:
            ds = self.elem_defs(s.elem, s.node)
        after = self.reach(s.node)
        out = []
        for n in self.cfg.nodes:
            if n.id not in after:
                continue
            names: T.List[str] = []
            if n.kind == 'stmt' and isinstance(n.ast, ast.Return) and n.ast.value is not None:
                v = n.ast.value
                els = v.elts if isinstance(v, ast.Tuple) else [v]
                names += [x.id for x in els if isinstance(x, ast.Name)]
            for c in self.node_calls(n):
                if call_name(c) == 'self.add_build' and c.args and isinstance(c.args[0], ast.Name):
                    names.append(c.args[0].id)
            if any(ds & self.elem_defs(z, n) for z in names):
                out.append(n)
        return out

    def registered(self, s: Sink) -> bool:
        """The element populated at the sink is the one handed to self.add_build(...) / returned afterwards
        (or it is a parameter: then registration is the caller's business)."""
        if s.ctor_def is None and any(self.defs[d].param for d in self.elem_defs(s.elem, s.node)):
            return True
        return bool(self.reg_nodes(s))

    def elem_roots(self, s: Sink) -> T.FrozenSet[int]:
        """Identity of the element a sink populates: the non-alias definitions of its name that reach the sink."""
        if s.ctor_def is not None:
            return frozenset([s.ctor_def])
        return frozenset(d for d in self.elem_defs(s.elem, s.node)
                         if not (self.defs[d].strong and isinstance(self.defs[d].value, ast.Name)))

    def elem_groups(self) -> T.List[T.List[Sink]]:
        """Registered sinks grouped by the element they populate."""
        groups: T.List[T.Tuple[T.Set[int], T.List[Sink]]] = []
        for s in self.sinks():
            if not self.registered(s):
                continue
            roots = set(self.elem_roots(s))
            merged: T.List[Sink] = [s]
            rest = []
            for r, members in groups:
                if r & roots:
                    roots |= r
                    merged = members + merged
                else:
                    rest.append((r, members))
            groups = rest + [(roots, merged)]
        return [m for _, m in groups]

    # -- def-use liveness of accumulations ------------------------------------------------------------------
    def node_roots(self, n: Node) -> T.List[ast.AST]:
        st = n.ast
        if n.kind == 'stmt':
            return [st] if st is not None else []
        if n.kind == 'test':
            return [st.test]  # type: ignore[union-attr]
        if n.kind == 'iter':
            return [st.iter]  # type: ignore[union-attr]
        if n.kind == 'with_enter':
            return [i.context_expr for i in st.items]  # type: ignore[union-attr]
        if n.kind == 'handler':
            return [st.type] if getattr(st, 'type', None) is not None else []  # type: ignore[union-attr]
        return []

    def dead_accumulations(self) -> T.List[Def]:
        """Weak definitions (append/extend/+=/add/update on a local) that no read ever observes, directly or through
        other definitions: the collected values leave the function nowhere.  Any read that is not the right-hand side
        of another definition (call argument, return, test, attribute store, use inside a nested function) keeps a
        definition alive; the receiver position of a mutator call is not a read."""
        consumers: T.Dict[int, T.Set[int]] = {}
        live: T.Set[int] = set()
        for n in self.cfg.nodes:
            owner: T.Dict[int, T.List[int]] = {}
            for d2 in self.by_node.get(n.id, []):
                if d2.value is not None and not d2.param:
                    for x in ast.walk(d2.value):
                        if isinstance(x, ast.Name):
                            owner.setdefault(id(x), []).append(d2.id)
            recv: T.Set[int] = set()
            roots = self.node_roots(n)
            for r in roots:
                for c in ast.walk(r):
                    if isinstance(c, ast.Call) and isinstance(c.func, ast.Attribute) and c.func.attr in MUTATORS and isinstance(c.func.value, ast.Name):
                        recv.add(id(c.func.value))
            for r in roots:
                for x in ast.walk(r):
                    if not (isinstance(x, ast.Name) and isinstance(x.ctx, ast.Load)):
                        continue
                    ds = self.IN[n.id].get(x.id, frozenset())
                    if id(x) in owner:
                        for d in ds:
                            consumers.setdefault(d, set()).update(owner[id(x)])
                    elif id(x) in recv:
                        continue
                    else:
                        live |= ds
        for d in self.defs:          # a definition of a parameter name is visible to the caller
            if d.name in self.params:
                live.add(d.id)
        changed = True
        while changed:
            changed = False
            for d, cs in consumers.items():
                if d not in live and cs & live:
                    live.add(d)
                    changed = True
        reachable = self.cfg.reachable([self.cfg.entry], include_start=True)
        return [d for d in self.defs if not d.strong and not d.param and d.id not in live and d.node in reachable
                and d.name not in self.params and self._fresh_container(d)]

    FRESH_CTORS = {'list', 'set', 'dict', 'tuple', 'OrderedSet', 'OrderedDict', 'defaultdict', 'deque'}

    def _fresh_container(self, d: Def) -> bool:
        """The accumulator mutated at `d` is a container created in this function (a display, a comprehension,
        list()/set()/..., x.copy(), a concatenation): otherwise it may alias an object owned elsewhere
        (`blk = self.data[k]; blk.append(..)`), and a mutation without a later read is still an effect."""
        strong = [self.defs[i] for i in self.elem_defs(d.name, self.cfg.nodes[d.node]) if self.defs[i].strong]
        if not strong:
            return False
        for s in strong:
            v = s.value
            if s.param or v is None or s.index is not None:
                return False
            if isinstance(v, ast.Name):
                return False  # `cur = vala; cur[f] = x` mutates the other local: aliasing between locals is not tracked
            if isinstance(v, (ast.List, ast.Set, ast.Dict, ast.ListComp, ast.SetComp, ast.DictComp, ast.BinOp)):
                continue
            if isinstance(v, ast.Call):
                if isinstance(v.func, ast.Name) and v.func.id in self.FRESH_CTORS:
                    continue
                if isinstance(v.func, ast.Attribute) and v.func.attr == 'copy' and not v.args:
                    continue
            return False
        return True

    # -- other sink shapes ----------------------------------------------------
    def calls_of(self, callee: str) -> T.List[T.Tuple[Node, ast.Call]]:
        out = []
        seen: T.Set[int] = set()
        for n in self.cfg.nodes:
            for c in self.node_calls(n):
                if call_name(c) in (f'self.{callee}', callee) and id(c) not in seen:
                    seen.add(id(c))
                    out.append((n, c))
        return out

    def stores(self, chain: str) -> T.List[T.Tuple[Node, ast.AST, T.Optional[int]]]:
        return list(self.attr_defs.get(chain, []))

    def def_nodes(self, name: str) -> T.List[Def]:
        return [d for d in self.defs if d.name == name and not d.param]
