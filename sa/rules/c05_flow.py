"""C05 helper: flow-sensitive origin sets with callee summaries (DESIGN B.2).

`sa.flow.Flow` is flow-insensitive and has no callee summaries; the C05
obligations need both ("the value appended *before* the edge is populated",
"the paths returned by `self.get_paths_for_dep_outputs(target, X)` derive from
X").  This module keeps Flow's label scheme and mutator table and adds

* reaching definitions over `sa.cfg.CFG` (strong defs kill, mutators/`+=` are
  weak defs), evaluated on demand by a fixpoint over the demanded defs only;
* values are pairs (ident, deriv): `ident` = access paths the value *is*
  (`target.pch`, `genlist.get_generator()`), `deriv` = labels it derives from
  (`param:x`, `attr:x.a`, `call:x.m()`, `call:self.f()[0]`, `const`).  Access
  paths never contain a local name, so renaming locals changes nothing;
* summaries of repository callees (`self.m(...)` resolved on the dynamic class,
  module-level `f(...)`): return value per tuple position over the callee's
  parameters, and "parameter reaches an edge sink of the element parameter";
  depth <= 3, recursion cut.  A callee that cannot be resolved or summarised
  contributes only its own `call:` label: nothing flows *through* it.

Transfer rules accepted for a must-flow (B.2): assignment, tuple (un)packing
(positional for displays and summarised tuple returns), containers, operators,
f-strings, comprehensions, subscripts/attribute reads, `x.method(args)` on model
objects and library modules (receiver and arguments), constructors and a fixed
list of builtins.  Nothing else.
"""
from __future__ import annotations

import ast
import re
import typing as T

from ..core import Module, Repo, Undecided, attr_chain, call_name, norm, short, walk_no_nested, decorator_names
from ..cfg import CFG, Node
from ..flow import MUTATORS as _ENGINE_MUTATORS

MUTATORS = set(_ENGINE_MUTATORS) | {'extend_preserving_lflags', 'append_unique', 'update_direct'}
PURE_NAMES = {'list', 'tuple', 'set', 'frozenset', 'sorted', 'reversed', 'dict', 'str', 'iter', 'next', 'enumerate', 'zip',
              'unwrap', 'listify', 'unique_list', 'chain'}
MAX_SEGS = 5
import builtins as _builtins
BUILTIN_NAMES = set(dir(_builtins))
IMPURE_BUILTINS = {'eval', 'exec', 'getattr', 'setattr', 'delattr', 'globals', 'locals', 'vars', 'super', 'compile', '__import__', 'open', 'input'}
MAX_DEPTH = 3
ELEMENT_CLASS = 'NinjaBuildElement'
# Repository callees whose result is deliberately NOT derived from (part of) their arguments: nothing flows through them.
CUTS = {
    'guess_external_link_dependencies': 'skips the internal link arguments (`if item in internal: continue`) and returns paths of libraries '
                                        'found outside the build; link_with targets do not travel through it',
}
DEP_METHODS = {'add_dep': 'dep', 'add_orderdep': 'orderdep'}
DEP_FIELDS = {'deps': 'dep', 'orderdeps': 'orderdep'}

_ROOT = re.compile(r'[A-Za-z_]\w*')

Val = T.Tuple[T.FrozenSet[str], T.FrozenSet[str]]
EMPTY: Val = (frozenset(), frozenset())


def vjoin(*vs: Val) -> Val:
    i: T.Set[str] = set()
    d: T.Set[str] = set()
    for v in vs:
        i |= v[0]
        d |= v[1]
    return frozenset(i), frozenset(d)


def _segs(path: str) -> int:
    return path.count('.') + path.count('[') + 1


def ext_path(path: str, suffix: str) -> T.Optional[str]:
    p = path + suffix
    return p if _segs(p) <= MAX_SEGS else None


def split_maybe(label: str) -> T.Tuple[str, str]:
    """'?7|attr:target.pch' -> ('?7|', 'attr:target.pch'); a definite label has the empty tag."""
    if label.startswith('?'):
        tag, _, inner = label.partition('|')
        return tag + '|', inner
    return '', label


def label_root(label: str) -> T.Tuple[str, str, str]:
    """'attr:target.pch' -> ('attr', 'target', '.pch')."""
    label = split_maybe(label)[1]
    kind, _, path = label.partition(':')
    m = _ROOT.match(path)
    if not m:
        return kind, '', path
    return kind, m.group(0), path[m.end():]


def module_imports(mod: Module) -> T.Dict[str, str]:
    """local name -> dotted origin, from the module's top-level import statements (incl. `if TYPE_CHECKING:` / try blocks).
    (Module.imports() walks the whole tree on every call; this is the same table restricted to module level.)"""
    out: T.Dict[str, str] = {}
    pkg = mod.rel[:-3].split('/')
    base = pkg[:-1]

    def rec(body: T.List[ast.stmt]) -> None:
        for st in body:
            if isinstance(st, ast.Import):
                for a in st.names:
                    out[a.asname or a.name.split('.')[0]] = a.name if a.asname else a.name.split('.')[0]
            elif isinstance(st, ast.ImportFrom):
                if st.level:
                    b = base[:len(base) - (st.level - 1)]
                    m = '.'.join(b + ([st.module] if st.module else []))
                else:
                    m = st.module or ''
                for a in st.names:
                    if a.name == '*':
                        out['*'] = (out.get('*', '') + ',' + m).strip(',')
                    else:
                        out[a.asname or a.name] = f'{m}.{a.name}'
            elif isinstance(st, (ast.If, ast.Try)):
                for field in ('body', 'orelse', 'finalbody'):
                    rec(getattr(st, field, []))
                for h in getattr(st, 'handlers', []):
                    rec(h.body)
    rec(mod.tree.body)
    return out


class Def:
    __slots__ = ('id', 'name', 'node', 'strong', 'value', 'index', 'param', 'mut')

    def __init__(self, id: int, name: str, node: int, strong: bool, value: T.Optional[ast.AST], index: T.Optional[int] = None,
                 param: bool = False):
        self.id = id
        self.name = name
        self.node = node
        self.strong = strong
        self.value = value
        self.index = index
        self.param = param
        self.mut: T.Optional[str] = None      # weak definition by a callee that mutates its parameter `mut` (value = the call)


class Sink(T.NamedTuple):
    node: Node
    elem: str
    kind: str                     # dep | orderdep | infiles
    exprs: T.Tuple[ast.AST, ...]  # argument expressions (evaluated at node) ...
    pre: T.Optional[Val]          # ... or a value already mapped from a callee's sink summary
    desc: str
    ctor_def: T.Optional[int]     # for infiles: the definition of the element made by this constructor call


class Summary:
    def __init__(self, combined: Val, elements: T.Optional[T.List[Val]], sinks: T.List[T.Tuple[str, str, Val, str]], params: T.List[str],
                 ff: T.Optional['FuncFlow'] = None):
        self.combined = combined
        self.elements = elements
        self.sinks = sinks        # (element parameter, kind, value over the callee's parameters, description)
        self.params = params
        self.ff = ff              # for the lazily computed parts (opaque uses, elements registered inside the callee)
        self.impure_closure = False


def syn_call(what: ast.AST, call: ast.Call) -> ast.Call:
    """The call `call` with its local callee replaced by what it stands for: a bound method / function expression, or a
    `functools.partial(f, *pre, **kw)` whose fixed arguments are put in front."""
    if isinstance(what, ast.Call):        # functools.partial(...)
        return ast.copy_location(ast.Call(func=what.args[0], args=list(what.args[1:]) + list(call.args),
                                          keywords=list(what.keywords) + list(call.keywords)), call)
    return ast.copy_location(ast.Call(func=what, args=call.args, keywords=call.keywords), call)


def bind_args(fn: ast.AST, call: ast.Call, skip_self: bool) -> T.Optional[T.Dict[str, ast.AST]]:
    a = fn.args  # type: ignore[attr-defined]
    params = [x.arg for x in a.posonlyargs + a.args]
    if skip_self:
        params = params[1:]
    kwonly = [x.arg for x in a.kwonlyargs]
    if any(isinstance(x, ast.Starred) for x in call.args) or any(k.arg is None for k in call.keywords):
        return None
    out: T.Dict[str, ast.AST] = {}
    for i, x in enumerate(call.args):
        if i < len(params):
            out[params[i]] = x
    for k in call.keywords:
        if k.arg in params or k.arg in kwonly:
            out[k.arg] = k.value  # type: ignore[index]
    return out


def is_method(fn: ast.AST) -> bool:
    a = fn.args  # type: ignore[attr-defined]
    first = (a.posonlyargs + a.args)[:1]
    return bool(first) and first[0].arg == 'self' and 'staticmethod' not in decorator_names(fn)


class Analyzer:
    """Summaries and per-function flows for one dynamic class (the class `self` is an instance of)."""

    def __init__(self, repo: Repo, dyn_mod: T.Optional[Module] = None, dyn_cls: T.Optional[ast.ClassDef] = None, depth: int = MAX_DEPTH):
        self.repo = repo
        self.depth = depth
        self.dyn_mod = dyn_mod
        self.dyn_cls = dyn_cls
        self._flows: T.Dict[T.Tuple[str, int, int], 'FuncFlow'] = {}
        self._summ: T.Dict[T.Tuple[str, int, int], T.Optional[Summary]] = {}
        self.stack: T.List[int] = []
        self.unresolved: T.Set[str] = set()
        self.summarised: T.Set[str] = set()
        self._methods: T.Optional[T.Dict[str, T.Tuple[Module, str, ast.AST]]] = None
        self._imports: T.Dict[str, T.Dict[str, str]] = {}
        self.why_none: T.Dict[int, str] = {}          # id(fn) -> why the last summary request gave None
        self._struct: T.Dict[int, T.Any] = {}
        self._mutp: T.Dict[int, T.Set[str]] = {}
        self.sites: T.List[T.Tuple[T.Optional[ast.AST], str]] = []   # unfollowed callees: (function if its source is known, description)
        self._site_of: T.Dict[T.Any, int] = {}
        self._mentions: T.Dict[T.Tuple[int, str], bool] = {}

    def mutated_params(self, fn: ast.AST) -> T.Set[str]:
        """Parameters of fn that its body mutates in place (append/extend/+=/x[k] = v ...), syntactically."""
        key = id(fn)
        r = self._mutp.get(key)
        if r is None:
            a = fn.args  # type: ignore[attr-defined]
            params = {x.arg for x in a.posonlyargs + a.args + a.kwonlyargs} - {'self'}
            r = set()
            for n in ast.walk(fn):
                if isinstance(n, ast.Call) and isinstance(n.func, ast.Attribute) and n.func.attr in MUTATORS and isinstance(n.func.value, ast.Name):
                    if n.func.value.id in params:
                        r.add(n.func.value.id)
                elif isinstance(n, ast.AugAssign) and isinstance(n.target, ast.Name) and n.target.id in params:
                    r.add(n.target.id)
                elif isinstance(n, (ast.Assign, ast.AugAssign)):
                    for t in (n.targets if isinstance(n, ast.Assign) else [n.target]):
                        if isinstance(t, ast.Subscript) and isinstance(t.value, ast.Name) and t.value.id in params:
                            r.add(t.value.id)
            self._mutp[key] = r
        return r

    def site(self, cfn: T.Optional[ast.AST], desc: str) -> int:
        key = id(cfn) if cfn is not None else desc
        if key not in self._site_of:
            self._site_of[key] = len(self.sites)
            self.sites.append((cfn, desc))
        return self._site_of[key]

    def mentions(self, fn: ast.AST, leaf: str, depth: int = 3) -> bool:
        """Does the body of fn (or of a self./module-level callee, to `depth`) spell the identifier `leaf`?  Used to decide
        whether a callee that was not analysed could be the place a dependency source moved to."""
        key = (id(fn), leaf)
        if key in self._mentions:
            return self._mentions[key]
        self._mentions[key] = False
        hit = False
        callees: T.List[ast.AST] = []
        for n in ast.walk(fn):
            if (isinstance(n, ast.Attribute) and n.attr == leaf) or (isinstance(n, ast.Name) and n.id == leaf) \
                    or (isinstance(n, ast.arg) and n.arg == leaf) or (isinstance(n, ast.keyword) and n.arg == leaf):
                hit = True
                break
            if isinstance(n, ast.Call) and isinstance(n.func, ast.Attribute) and isinstance(n.func.value, ast.Name) and n.func.value.id == 'self':
                r = self.resolve_self(n.func.attr)
                if r is not None:
                    callees.append(r[2])
        if not hit and depth > 0:
            hit = any(self.mentions(c, leaf, depth - 1) for c in callees if c is not fn)
        self._mentions[key] = hit
        return hit

    def resolve_self(self, name: str) -> T.Optional[T.Tuple[Module, str, ast.AST]]:
        if self.dyn_mod is None or self.dyn_cls is None:
            return None
        if self._methods is None:
            # one MRO walk (Repo.find_method re-parses the import table on every call)
            tab: T.Dict[str, T.Tuple[Module, str, ast.AST]] = {}
            for m, c in self.repo.mro(self.dyn_mod, self.dyn_cls):
                for st in c.body:
                    if isinstance(st, (ast.FunctionDef, ast.AsyncFunctionDef)) and st.name not in tab:
                        tab[st.name] = (m, f'{c.name}.{st.name}', st)
            self._methods = tab
        return self._methods.get(name)

    def resolve_function(self, dotted: str, _depth: int = 4) -> T.Optional[T.Tuple[Module, str, ast.AST]]:
        """A module-level repository function by dotted name, looking through re-exports (`from .x import name`, `from .x import *`)."""
        modpath, _, name = dotted.rpartition('.')
        if not modpath or _depth < 0 or not modpath.startswith('mesonbuild'):
            return None
        m2 = self.repo.module_by_dotted(modpath)
        if m2 is None:
            return None
        if m2.has_func(name):
            return m2, name, m2.func(name)
        if m2.has_cls(name):
            return None
        imps = self.imports(m2)
        if name in imps and imps[name] != dotted:
            return self.resolve_function(imps[name], _depth - 1)
        for star in [x for x in imps.get('*', '').split(',') if x]:
            r = self.resolve_function(f'{star}.{name}', _depth - 1)
            if r is not None:
                return r
        return None

    def imports(self, mod: Module) -> T.Dict[str, str]:
        t = self._imports.get(mod.rel)
        if t is None:
            t = module_imports(mod)
            self._imports[mod.rel] = t
        return t

    def flow(self, mod: Module, qual: str, fn: ast.AST, depth: T.Optional[int] = None, implicit: T.Sequence[str] = ()) -> 'FuncFlow':
        depth = self.depth if depth is None else depth
        key = (mod.rel, id(fn), depth)
        ff = self._flows.get(key)
        if ff is None:
            ff = FuncFlow(self, mod, qual, fn, depth, implicit)
            self._flows[key] = ff
        return ff

    def summary(self, mod: Module, qual: str, fn: ast.AST, depth: int, implicit: T.Sequence[str] = ()) -> T.Optional[Summary]:
        """Summary of a callee analysed with `depth` levels of callees below it; None = not summarised."""
        if id(fn) in self.stack:
            self.why_none[id(fn)] = 'recursion'
            return None
        if depth < 0:
            self.why_none[id(fn)] = 'depth'
            return None
        key = (mod.rel, id(fn), depth)
        if key in self._summ:
            return self._summ[key]
        self.stack.append(id(fn))
        try:
            ff = self.flow(mod, qual, fn, depth, implicit)
            s: T.Optional[Summary] = ff.summarise()
        except Undecided:
            s = None
            self.why_none[id(fn)] = 'undecided'
        finally:
            self.stack.pop()
        self._summ[key] = s
        if s is not None:
            self.summarised.add(qual)
        return s


def _pattern_test(subject: ast.expr, pat: ast.AST) -> T.Optional[ast.expr]:
    """The boolean expression a capture-free pattern stands for (None: the pattern always matches); Undecided otherwise."""
    import copy
    subj = copy.deepcopy(subject)
    if isinstance(pat, ast.MatchAs) and pat.pattern is None and pat.name is None:
        return None
    if isinstance(pat, ast.MatchClass) and not pat.patterns and not pat.kwd_patterns:
        return ast.Call(func=ast.Name(id='isinstance', ctx=ast.Load()), args=[subj, pat.cls], keywords=[])
    if isinstance(pat, ast.MatchValue):
        return ast.Compare(left=subj, ops=[ast.Eq()], comparators=[pat.value])
    if isinstance(pat, ast.MatchSingleton):
        return ast.Compare(left=subj, ops=[ast.Is()], comparators=[ast.Constant(value=pat.value)])
    if isinstance(pat, ast.MatchOr):
        subs = [_pattern_test(subject, q) for q in pat.patterns]
        if any(x is None for x in subs):
            return None
        if all(isinstance(q, ast.MatchClass) for q in pat.patterns):
            return ast.Call(func=ast.Name(id='isinstance', ctx=ast.Load()),
                            args=[subj, ast.Tuple(elts=[q.cls for q in pat.patterns], ctx=ast.Load())], keywords=[])  # type: ignore[attr-defined]
        return ast.BoolOp(op=ast.Or(), values=subs)
    raise Undecided(f'match pattern `{short(pat)}` (captures / sub-patterns) is outside the subset read as an if/elif chain')


def desugar_match(fn: ast.AST) -> None:
    """Normal form, in place: `match <name or attribute chain>:` whose cases are capture-free (class patterns without
    sub-patterns, `A() | B()`, literal values, `_`, optional guards) is the if/elif/else chain over isinstance / == tests in
    case order (PEP 634: first matching case wins, the subject is evaluated once; a name or attribute chain has no effect)."""
    if not any(n.__class__.__name__ == 'Match' for n in ast.walk(fn)):
        return

    def chain(st: T.Any) -> ast.stmt:
        if attr_chain(st.subject) is None:
            raise Undecided(f'match subject `{short(st.subject)}` is not a name / attribute chain')
        head: T.Optional[ast.If] = None
        tail: T.Optional[ast.If] = None
        for case in st.cases:
            test = _pattern_test(st.subject, case.pattern)
            if case.guard is not None:
                test = case.guard if test is None else ast.BoolOp(op=ast.And(), values=[test, case.guard])
            if test is None:
                test = ast.Constant(value=True)
            node = ast.If(test=test, body=case.body, orelse=[])
            ast.copy_location(node, case.body[0] if case is not st.cases[0] else st)
            for x in ast.walk(test):
                if not hasattr(x, 'lineno'):
                    ast.copy_location(x, node)
            if isinstance(test, ast.Constant) and tail is not None:
                tail.orelse = case.body      # `case _:` is the else branch
                return head  # type: ignore[return-value]
            if head is None:
                head = tail = node
            else:
                tail.orelse = [node]  # type: ignore[union-attr]
                tail = node
        return head  # type: ignore[return-value]
    for parent in list(ast.walk(fn)):
        for field in ('body', 'orelse', 'finalbody'):
            lst = getattr(parent, field, None)
            if isinstance(lst, list):
                for k, st in enumerate(lst):
                    if st.__class__.__name__ == 'Match':
                        lst[k] = chain(st)
        if parent.__class__.__name__ == 'match_case':
            pass
    if any(n.__class__.__name__ == 'Match' for n in ast.walk(fn)):      # nested in a case body that was just rewritten
        desugar_match(fn)


class FuncFlow:
    def __init__(self, an: Analyzer, mod: Module, qual: str, fn: ast.AST, depth: int, implicit: T.Sequence[str] = ()):
        if id(fn) not in an._struct:
            has = an._imports.get('?match:' + mod.rel)      # cheap pre-filter: does the module spell a match statement at all
            if has is None:
                has = an._imports['?match:' + mod.rel] = {'y': 'y'} if re.search(r'^[ \t]*match[ \t(]', mod.src, re.M) else {}
            if has:
                desugar_match(fn)
        self.an = an
        self.implicit = [p for p in implicit]
        self.mod = mod
        self.qual = qual
        self.fn = fn
        self.depth = depth
        shared = an._struct.get(id(fn))
        self.cfg = shared[0] if shared else CFG(fn)  # type: ignore[arg-type]
        a = fn.args  # type: ignore[attr-defined]
        self.params = [x.arg for x in a.posonlyargs + a.args + a.kwonlyargs]
        if a.vararg:
            self.params.append(a.vararg.arg)
        if a.kwarg:
            self.params.append(a.kwarg.arg)
        self.params += [p for p in self.implicit if p not in self.params]   # captured variables of a closure
        self.method = is_method(fn) or 'self' in self.implicit
        self.selfname = 'self' if self.method else None
        # a parameter annotated with the analysed class (a helper moved out of the class takes the object explicitly)
        self.self_aliases: T.Set[str] = set()
        if an.dyn_cls is not None:
            names = {c.name for _, c in an.repo.mro(an.dyn_mod, an.dyn_cls)} if an.dyn_mod is not None else {an.dyn_cls.name}
            for x in a.posonlyargs + a.args + a.kwonlyargs:
                if x.arg != 'self' and x.annotation is not None:
                    ann = norm(x.annotation).strip('\'"').split('.')[-1]
                    if ann in names:
                        self.self_aliases.add(x.arg)
        self.selfnames: T.Set[str] = ({self.selfname} if self.selfname else set()) | self.self_aliases
        self.defs: T.List[Def] = []
        self.by_node: T.Dict[int, T.List[Def]] = {}
        self.attr_defs: T.Dict[str, T.List[T.Tuple[Node, ast.AST, T.Optional[int]]]] = {}
        self.local_names: T.Set[str] = set()
        self.IN: T.Dict[int, T.Dict[str, T.FrozenSet[int]]] = {}
        self._calls_cache: T.Dict[int, T.List[ast.Call]] = {}
        if shared and shared[1] == tuple(self.params):
            # the CFG, the definitions and the reaching-definitions solution do not depend on the summary depth
            _, _, self.defs, self.by_node, self.attr_defs, self.local_names, self.IN, self._calls_cache = shared
        else:
            for p in self.params:
                self._newdef(p, self.cfg.entry, True, None, param=True)
            for n in self.cfg.nodes:
                self._node_defs(n)
            self._reaching()
            an._struct[id(fn)] = (self.cfg, tuple(self.params), self.defs, self.by_node, self.attr_defs, self.local_names, self.IN, self._calls_cache)
        self.O: T.Dict[int, Val] = {}
        self.done: T.Set[int] = set()
        self._sinks: T.Optional[T.List[Sink]] = None
        self._reach_cache: T.Dict[int, T.Set[int]] = {}
        self._attr_busy: T.Set[str] = set()
        self._opaque: T.Optional[T.List[T.Tuple[Node, str, T.Tuple[ast.AST, ...], T.Optional[ast.AST], T.Optional[Val], bool]]] = None
        self._inner_serial = 0

    # -- definitions ------------------------------------------------------
    def _newdef(self, name: str, node: Node, strong: bool, value: T.Optional[ast.AST], index: T.Optional[int] = None,
                param: bool = False) -> Def:
        d = Def(len(self.defs), name, node.id, strong, value, index, param)
        self.defs.append(d)
        self.by_node.setdefault(node.id, []).append(d)
        self.local_names.add(name)
        return d

    def _bind(self, node: Node, target: ast.AST, value: T.Optional[ast.AST], strong: bool, index: T.Optional[int] = None,
              unpack: bool = False) -> None:
        if isinstance(target, ast.Name):
            self._newdef(target.id, node, strong, value, index)
        elif isinstance(target, (ast.Tuple, ast.List)):
            if isinstance(value, (ast.Tuple, ast.List)) and len(value.elts) == len(target.elts) \
                    and not any(isinstance(e, ast.Starred) for e in list(value.elts) + list(target.elts)):
                for t, v in zip(target.elts, value.elts):
                    self._bind(node, t, v, strong, None, unpack)
            elif unpack and isinstance(value, (ast.Call, ast.Name)) and not any(isinstance(e, ast.Starred) for e in target.elts):
                for k, t in enumerate(target.elts):
                    self._bind(node, t, value, strong, k, False)
            else:
                for t in target.elts:
                    self._bind(node, t, value, strong, None, False)
        elif isinstance(target, ast.Starred):
            self._bind(node, target.value, value, strong, None, False)
        elif isinstance(target, ast.Subscript):
            self._bind(node, target.value, value, False, None, False)
        elif isinstance(target, ast.Attribute):
            c = attr_chain(target)
            if c is not None and value is not None:
                self.attr_defs.setdefault(c, []).append((node, value, index))

    def _bind_iter(self, node: Node, target: ast.AST, it: ast.AST) -> None:
        """`for t in it`: t is an *element* of it.  Over a display every element expression is one definition of t
        (`for fn in (self.a, self.b)`, `for add, what in ((e.add_dep, x), (e.add_orderdep, y))`); otherwise t inherits from it."""
        if isinstance(it, (ast.Tuple, ast.List)) and it.elts and not any(isinstance(e, ast.Starred) for e in it.elts):
            if isinstance(target, ast.Name):
                for e in it.elts:
                    self._newdef(target.id, node, True, e)
                return
            if isinstance(target, (ast.Tuple, ast.List)) and all(isinstance(e, (ast.Tuple, ast.List)) and len(e.elts) == len(target.elts) for e in it.elts) \
                    and all(isinstance(t, ast.Name) for t in target.elts):
                for e in it.elts:
                    for t, v in zip(target.elts, e.elts):  # type: ignore[attr-defined]
                        self._newdef(t.id, node, True, v)  # type: ignore[attr-defined]
                return
        if isinstance(target, (ast.Tuple, ast.List)):
            for t in ast.walk(target):
                if isinstance(t, ast.Name):
                    self._newdef(t.id, node, True, it)
            return
        self._bind(node, target, it, True)

    def _inner(self, node: Node, e: T.Optional[ast.AST]) -> None:
        if e is None:
            return
        for n in walk_no_nested(e):
            if isinstance(n, ast.NamedExpr):
                self._bind(node, n.target, n.value, True)
            elif isinstance(n, ast.Call) and isinstance(n.func, ast.Attribute) and n.func.attr in MUTATORS:
                for a in list(n.args) + [k.value for k in n.keywords]:
                    self._bind(node, n.func.value, a.value if isinstance(a, ast.Starred) else a, False)
            elif isinstance(n, ast.Call) and any(isinstance(a, ast.Name) for a in n.args) and not any(isinstance(a, ast.Starred) for a in n.args):
                fn2 = None
                skip = False
                f = n.func
                if isinstance(f, ast.Attribute) and isinstance(f.value, ast.Name) and f.value.id == 'self':
                    r = self.an.resolve_self(f.attr)
                    if r is not None:
                        fn2, skip = r[2], is_method(r[2])
                elif isinstance(f, ast.Name) and self.mod.has_func(f.id):
                    fn2 = self.mod.func(f.id)
                if fn2 is not None and fn2 is not self.fn:
                    mp = self.an.mutated_params(fn2)
                    if mp:
                        b = bind_args(fn2, n, skip)
                        for p_, a_ in (b or {}).items():
                            if p_ in mp and isinstance(a_, ast.Name):
                                d = self._newdef(a_.id, node, False, n)
                                d.mut = p_
            elif isinstance(n, (ast.ListComp, ast.SetComp, ast.GeneratorExp, ast.DictComp)):
                for g in n.generators:
                    for t in ast.walk(g.target):
                        if isinstance(t, ast.Name):
                            self.local_names.add(t.id)

    def _node_defs(self, n: Node) -> None:
        st = n.ast
        if n.kind == 'stmt':
            if isinstance(st, (ast.FunctionDef, ast.AsyncFunctionDef, ast.ClassDef)):
                self._newdef(st.name, n, True, st)
                return
            if isinstance(st, ast.Assign):
                for t in st.targets:
                    self._bind(n, t, st.value, True, None, True)
                self._inner(n, st.value)
            elif isinstance(st, ast.AnnAssign):
                if st.value is not None:
                    self._bind(n, st.target, st.value, True, None, True)
                    self._inner(n, st.value)
            elif isinstance(st, ast.AugAssign):
                self._bind(n, st.target, st.value, False)
                self._inner(n, st.value)
            elif isinstance(st, (ast.Import, ast.ImportFrom)):
                for al in st.names:
                    self._newdef((al.asname or al.name).split('.')[0], n, True, None)
            else:
                self._inner(n, st)
        elif n.kind == 'test':
            self._inner(n, st.test)  # type: ignore[union-attr]
        elif n.kind == 'iter':
            self._bind_iter(n, st.target, st.iter)  # type: ignore[union-attr]
            self._inner(n, st.iter)  # type: ignore[union-attr]
        elif n.kind == 'with_enter':
            for i in st.items:  # type: ignore[union-attr]
                if i.optional_vars is not None:
                    self._bind(n, i.optional_vars, i.context_expr, True)
                self._inner(n, i.context_expr)
        elif n.kind == 'handler':
            if getattr(st, 'name', None):
                self._newdef(st.name, n, True, None)  # type: ignore[union-attr]

    def _reaching(self) -> None:
        cfg = self.cfg
        gen: T.Dict[int, T.Dict[str, T.Set[int]]] = {}
        kill: T.Dict[int, T.Set[str]] = {}
        for nid, ds in self.by_node.items():
            g: T.Dict[str, T.Set[int]] = {}
            k: T.Set[str] = set()
            for d in ds:
                g.setdefault(d.name, set()).add(d.id)
                if d.strong:
                    k.add(d.name)
            gen[nid] = g
            kill[nid] = k
        IN: T.Dict[int, T.Dict[str, T.Set[int]]] = {n.id: {} for n in cfg.nodes}
        OUT: T.Dict[int, T.Dict[str, T.Set[int]]] = {n.id: {} for n in cfg.nodes}

        def transfer(nid: int) -> T.Dict[str, T.Set[int]]:
            out: T.Dict[str, T.Set[int]] = {}
            k = kill.get(nid, set())
            for name, s in IN[nid].items():
                if name not in k:
                    out[name] = set(s)
            for name, s in gen.get(nid, {}).items():
                out.setdefault(name, set()).update(s)
            return out

        import heapq
        work = [n.id for n in cfg.nodes]      # node ids are created in program order: a heap visits in near-topological order
        heapq.heapify(work)
        inwork = set(work)
        OUT[cfg.entry.id] = transfer(cfg.entry.id)
        while work:
            nid = heapq.heappop(work)
            inwork.discard(nid)
            new_in: T.Dict[str, T.Set[int]] = {}
            for p, lab in cfg.pred[nid]:
                srcs = [OUT[p]]
                if lab == 'exc':
                    srcs.append(IN[p])
                for src in srcs:
                    for name, s in src.items():
                        new_in.setdefault(name, set()).update(s)
            IN[nid] = new_in
            new_out = transfer(nid)
            if new_out != OUT[nid]:
                OUT[nid] = new_out
                for b, _ in cfg.succ[nid]:
                    if b not in inwork:
                        inwork.add(b)
                        heapq.heappush(work, b)
        self.IN = {nid: {name: frozenset(s) for name, s in d.items()} for nid, d in IN.items()}

    # -- evaluation -------------------------------------------------------
    def _look_eval(self, name: str, node: Node) -> Val:
        ds = self.IN[node.id].get(name)
        if not ds:
            if name in self.local_names:
                return EMPTY
            return frozenset([name]), frozenset([f'name:{name}'])
        return vjoin(*[self.O.get(d, EMPTY) for d in ds])

    def value_at(self, expr: ast.AST, node: Node, index: T.Optional[int] = None) -> Val:
        need: T.Set[int] = set()
        todo: T.List[int] = []

        def collect(name: str, nd: Node) -> Val:
            for d in self.IN[nd.id].get(name, ()):
                if d not in self.done and d not in need:
                    need.add(d)
                    todo.append(d)
            return EMPTY

        self._ev_top(expr, node, index, collect)
        while todo:
            d = self.defs[todo.pop()]
            self._evdef(d, collect)
        if need:
            for d in need:
                self.O.setdefault(d, EMPTY)
            changed = True
            rounds = 0
            while changed:
                changed = False
                rounds += 1
                if rounds > 60:
                    raise Undecided(f'{self.qual}: origin fixpoint did not converge')
                for d in need:
                    v = self._evdef(self.defs[d], self._look_eval)
                    old = self.O[d]
                    if not (v[0] <= old[0] and v[1] <= old[1]):
                        self.O[d] = vjoin(old, v)
                        changed = True
            self.done |= need
        return self._ev_top(expr, node, index, self._look_eval)

    def origins_at(self, expr: ast.AST, node: Node, index: T.Optional[int] = None) -> T.FrozenSet[str]:
        return self.value_at(expr, node, index)[1]

    def _ev_top(self, expr: ast.AST, node: Node, index: T.Optional[int], look: T.Callable[[str, Node], Val]) -> Val:
        if index is not None and isinstance(expr, ast.Call):
            return self._ev_call(expr, node, {}, look, index)
        if index is not None and isinstance(expr, ast.Name):
            # `res = self.f(...)` ... `a, b = res`: positional when the one reaching definition is that call
            ds = self.IN[node.id].get(expr.id, frozenset())
            if len(ds) == 1:
                d = self.defs[next(iter(ds))]
                if d.strong and not d.param and d.index is None and isinstance(d.value, ast.Call):
                    return self._ev_call(d.value, self.cfg.nodes[d.node], {}, look, index)
        return self._ev(expr, node, {}, look)

    def _evdef(self, d: Def, look: T.Callable[[str, Node], Val]) -> Val:
        if d.param:
            if d.name == self.selfname or d.name in self.self_aliases:
                return frozenset(['self']), frozenset()
            return frozenset([d.name]), frozenset([f'param:{d.name}'])
        if d.value is None or isinstance(d.value, (ast.FunctionDef, ast.AsyncFunctionDef, ast.ClassDef)):
            return frozenset(), frozenset(['opaque'])
        node = self.cfg.nodes[d.node]
        if d.mut is not None:
            return self._ev_mutation(d, node, look)
        v = self._ev_top(d.value, node, d.index, look)
        if not d.strong:
            # a mutator / += / x[k] = v: the container derives from the value, it is not the value
            return frozenset(), v[1]
        return v

    def _ev_mutation(self, d: Def, node: Node, look: T.Callable[[str, Node], Val]) -> Val:
        """What a callee adds to the argument it mutates in place (`self._one(target, d, result)` appends to `result`)."""
        c = d.value
        cal = self._callee(c)  # type: ignore[arg-type]
        if cal is None:
            return EMPTY
        summ = self.an.summary(cal[1], cal[2], cal[3], self.depth - 1)
        argsval = self._args_val(c, node, {}, look)  # type: ignore[arg-type]
        if summ is None or summ.ff is None:
            if self.an.why_none.get(id(cal[3])) == 'recursion':
                return EMPTY
            return frozenset(), self._maybe(cal[3], cal[0], f'call:{cal[0]}', argsval, cal[4])[1]
        bind = bind_args(cal[3], c, cal[4])  # type: ignore[arg-type]
        if bind is None:
            return frozenset(), self._maybe(cal[3], cal[0], f'call:{cal[0]}', argsval, cal[4])[1]
        hf = summ.ff
        vals = []
        self.an.stack.append(id(cal[3]))
        try:
            for d2 in hf.defs:
                if d2.name == d.mut and not d2.strong and not d2.param and d2.value is not None:
                    vals.append(hf._evdef_public(d2))
        finally:
            self.an.stack.pop()
        if not vals:
            return EMPTY
        mapped = self.map_summary(vjoin(*vals), bind, lambda x: self._ev(x, node, {}, look), keep_self=cal[4])
        return frozenset(), mapped[1]

    def _evdef_public(self, d: Def) -> Val:
        node = self.cfg.nodes[d.node]
        if d.mut is not None:
            self.value_at(d.value, node)     # solve the arguments
            return self._ev_mutation(d, node, self._look_eval)
        return (frozenset(), self.value_at(d.value, node, d.index)[1])

    def _attr_ext(self, base: Val, rest: str) -> Val:
        ids = set()
        der = set(base[1])
        for p in base[0]:
            q = ext_path(p, rest)
            if q is not None:
                ids.add(q)
                der.add(f'attr:{q}')
        return frozenset(ids), frozenset(der)

    def _ev(self, e: T.Optional[ast.AST], node: Node, env: T.Dict[str, Val], look: T.Callable[[str, Node], Val]) -> Val:
        if e is None:
            return EMPTY
        if isinstance(e, ast.Name):
            if e.id in env:
                return env[e.id]
            return look(e.id, node)
        if isinstance(e, ast.Attribute):
            base = self._ev(e.value, node, env, look)
            v = self._attr_ext(base, '.' + e.attr)
            c = attr_chain(e)
            if c is not None and c in self.attr_defs and c not in self._attr_busy:
                self._attr_busy.add(c)
                try:
                    extra = [self._ev_top(val, nd, idx, look) for nd, val, idx in self.attr_defs[c]]
                finally:
                    self._attr_busy.discard(c)
                v = vjoin(v, (frozenset(), vjoin(*extra)[1]))
            return v
        if isinstance(e, ast.Call):
            return self._ev_call(e, node, env, look, None)
        if isinstance(e, ast.Subscript):
            if isinstance(e.value, ast.Call) and isinstance(e.slice, ast.Constant) and isinstance(e.slice.value, int):
                return self._ev_call(e.value, node, env, look, e.slice.value)
            return self._ev(e.value, node, env, look)
        if isinstance(e, ast.Constant):
            if isinstance(e.value, str) and e.value and len(e.value) <= 24:
                return frozenset(), frozenset(['const', f'const:{e.value!r}'])
            return frozenset(), frozenset(['const'])
        if isinstance(e, ast.Starred):
            return self._ev(e.value, node, env, look)
        if isinstance(e, (ast.ListComp, ast.SetComp, ast.GeneratorExp, ast.DictComp)):
            env2 = dict(env)
            for g in e.generators:
                it = self._ev(g.iter, node, env2, look)
                for t in ast.walk(g.target):
                    if isinstance(t, ast.Name):
                        env2[t.id] = it
            if isinstance(e, ast.DictComp):
                v = vjoin(self._ev(e.key, node, env2, look), self._ev(e.value, node, env2, look))
            else:
                v = self._ev(e.elt, node, env2, look)
            return frozenset(), v[1]
        if isinstance(e, ast.Lambda):
            return frozenset(), self._ev(e.body, node, env, look)[1]
        if isinstance(e, ast.IfExp):
            return vjoin(self._ev(e.body, node, env, look), self._ev(e.orelse, node, env, look))
        if isinstance(e, ast.BoolOp):
            return vjoin(*[self._ev(v, node, env, look) for v in e.values])
        if isinstance(e, ast.Compare):
            # evaluate for demand collection only; a comparison result carries no file
            self._ev(e.left, node, env, look)
            return frozenset(), frozenset(['const'])
        if isinstance(e, ast.UnaryOp):
            if isinstance(e.op, ast.Not):
                return frozenset(), frozenset(['const'])
            return self._ev(e.operand, node, env, look)
        if isinstance(e, ast.NamedExpr):
            return self._ev(e.value, node, env, look)
        if isinstance(e, (ast.Await, ast.YieldFrom)):
            return self._ev(e.value, node, env, look)
        if isinstance(e, ast.Yield):
            return self._ev(e.value, node, env, look)
        if isinstance(e, ast.Dict):
            vs = [self._ev(x, node, env, look) for x in list(e.keys) + list(e.values) if x is not None]
            return frozenset(), vjoin(*vs)[1]
        if isinstance(e, (ast.Tuple, ast.List, ast.Set, ast.BinOp, ast.JoinedStr, ast.FormattedValue, ast.Slice)):
            vs = [self._ev(ch, node, env, look) for ch in ast.iter_child_nodes(e) if isinstance(ch, ast.expr)]
            return frozenset(), vjoin(*vs)[1]
        return EMPTY

    def _maybe(self, cfn: T.Optional[ast.AST], desc: str, lab: str, argsval: Val, recv_self: bool = False) -> Val:
        """Result of a callee this analysis does not follow: it carries its own label definitely, and everything its
        arguments carry as *maybe* labels `?<site>|<label>` - enough to tell "provably does not arrive" from "arrives,
        if at all, through code that was not analysed"."""
        n = self.an.site(cfn, desc)
        out = {lab}
        for x in argsval[1]:
            tag, inner = split_maybe(x)
            if inner in ('const', 'opaque') or inner.startswith(('const:', 'name:')):
                continue
            out.add(x if tag else f'?{n}|{inner}')
        if recv_self:
            out.add(f'?{n}|self')
        return frozenset(), frozenset(out)

    def _args_val(self, call: ast.Call, node: Node, env: T.Dict[str, Val], look: T.Callable[[str, Node], Val]) -> Val:
        vs = [self._ev(a, node, env, look) for a in call.args] + [self._ev(k.value, node, env, look) for k in call.keywords]
        return frozenset(), vjoin(*vs)[1]

    def map_summary(self, val: Val, bind: T.Dict[str, ast.AST], evalf: T.Callable[[ast.AST], Val], keep_self: bool = False) -> Val:
        """Rewrite a value over a callee's parameters into the caller's terms.  Labels rooted at a bound parameter are
        re-rooted at the actual argument; with `keep_self` (callee is a method of the same object) labels rooted at
        `self` stay as they are, so that extracting a block into a helper method (or inlining one) does not change
        what a value is known to derive from.  Other labels describe callee locals/globals and are dropped."""
        cache: T.Dict[str, Val] = {}

        def actual(p: str) -> Val:
            if p not in cache:
                cache[p] = evalf(bind[p])
            return cache[p]
        der: T.Set[str] = set()

        def emit(tag: str, lab: str) -> None:
            der.add(lab if (not tag or lab.startswith('?')) else tag + lab)
        for full in val[1]:
            tag, lab = split_maybe(full)
            if lab == 'const':
                if not tag:
                    der.add(lab)
                continue
            if lab == 'self':          # marker of a maybe-label: the unfollowed callee was a method of this object
                if keep_self:
                    der.add(full)
                continue
            kind, root, rest = label_root(lab)
            if keep_self and root == 'self':
                der.add(full)
                continue
            if root not in bind:
                continue
            a = actual(root)
            if kind == 'param' and not rest:
                for x in a[1]:
                    emit(tag, x)
            else:
                for p in a[0]:
                    q = ext_path(p, rest)
                    if q is not None:
                        emit(tag, f'{kind}:{q}')
                if tag:
                    for x in a[1]:     # the root object itself went into the unfollowed callee
                        if split_maybe(x)[1].startswith('param:'):
                            emit(tag, x)
        return frozenset(), frozenset(der)

    def resolve_callable(self, func: ast.AST, node: Node, _seen: T.Optional[T.Set[int]] = None) -> T.Optional[T.List[T.Tuple[str, T.Any]]]:
        """What a local name used as a callee stands for: [('attr', expression)] for `add = elem.add_dep` /
        `f = a.m if c else b.m` / `for fn in (self.a, self.b)`, [('nested', FunctionDef)] for a closure defined in this
        function; None when it cannot be told (a parameter, a computed callable)."""
        if not isinstance(func, ast.Name):
            return None
        ds = self.IN[node.id].get(func.id, frozenset())
        if not ds:
            return None
        seen = _seen if _seen is not None else set()
        out: T.List[T.Tuple[str, T.Any]] = []

        def of_expr(v: ast.AST, at: Node) -> bool:
            if isinstance(v, (ast.FunctionDef, ast.AsyncFunctionDef, ast.Lambda)):
                out.append(('nested', v))
                return True
            if isinstance(v, ast.Attribute):
                root = v
                while isinstance(root, ast.Attribute):
                    root = root.value
                if isinstance(root, ast.Name) and root.id in self.local_names and root.id != self.selfname \
                        and self.IN[at.id].get(root.id) != self.IN[node.id].get(root.id):
                    return False          # the receiver was re-bound between taking the method and calling it
                out.append(('attr', v))
                return True
            if isinstance(v, ast.Call) and call_name(v) in ('functools.partial', 'partial') and v.args \
                    and isinstance(v.args[0], (ast.Attribute, ast.Name)) and not any(isinstance(a, ast.Starred) for a in v.args):
                out.append(('attr', v))
                return True
            if isinstance(v, ast.IfExp):
                return of_expr(v.body, at) and of_expr(v.orelse, at)
            if isinstance(v, ast.Name):
                r = self.resolve_callable(v, at, seen)
                if r is None:
                    return False
                out.extend(r)
                return True
            return False
        for i in ds:
            if i in seen:
                continue
            seen.add(i)
            d = self.defs[i]
            if d.param or not d.strong or d.index is not None or d.value is None:
                return None
            at = self.cfg.nodes[d.node]
            if not of_expr(d.value, at):
                return None
        return out or None

    RECORD_MAKERS = {'T.NamedTuple', 'typing.NamedTuple', 'NamedTuple', 'collections.namedtuple', 'namedtuple', 'dataclasses.make_dataclass', 'make_dataclass'}

    def _local_record_class(self, func: ast.Name, node: Node) -> bool:
        """`Rec = NamedTuple('Rec', ...)` (or a class statement) in this function: calling it builds a record of its arguments."""
        ds = self.IN[node.id].get(func.id, frozenset())
        if not ds:
            return False
        for i in ds:
            d = self.defs[i]
            v = d.value
            if isinstance(v, ast.ClassDef):
                continue
            if d.strong and isinstance(v, ast.Call) and call_name(v) in self.RECORD_MAKERS:
                continue
            return False
        return True

    def closure_summary(self, fn: ast.AST) -> T.Tuple[T.Optional[Summary], T.List[str]]:
        """Summary of a function nested in this one; the variables it captures become extra (implicit) parameters."""
        bound = {a.arg for a in fn.args.posonlyargs + fn.args.args + fn.args.kwonlyargs}  # type: ignore[attr-defined]
        if fn.args.vararg:  # type: ignore[attr-defined]
            bound.add(fn.args.vararg.arg)  # type: ignore[attr-defined]
        if fn.args.kwarg:  # type: ignore[attr-defined]
            bound.add(fn.args.kwarg.arg)  # type: ignore[attr-defined]
        assigned = set()
        read = []
        impure = False
        for n in ast.walk(fn):
            if isinstance(n, ast.Name):
                if isinstance(n.ctx, ast.Load):
                    read.append(n.id)
                else:
                    assigned.add(n.id)
            elif isinstance(n, (ast.Nonlocal, ast.Global)):
                impure = True
        free = []
        for x in read:
            if x not in bound and x not in assigned and x in self.local_names and x not in free:
                free.append(x)
        summ = self.an.summary(self.mod, f'{self.qual}.{getattr(fn, "name", "<lambda>")}', fn, self.depth - 1, implicit=free)
        if summ is not None and summ.ff is not None:
            # a closure that mutates what it captured is an effect on the caller's locals the summary does not carry
            if impure or any((not d.strong or not d.param) and d.name in free for d in summ.ff.defs if d.name in free and not d.param):
                summ.impure_closure = True
        return summ, free

    def _callee(self, call: ast.Call) -> T.Optional[T.Tuple[str, Module, str, ast.AST, bool]]:
        """(label path, module, qualified name, function, is self-call) for a repository callee, else None."""
        f = call.func
        if isinstance(f, ast.Attribute) and isinstance(f.value, ast.Name) and f.value.id in self.selfnames:
            r = self.an.resolve_self(f.attr)
            if r is None:
                self.an.unresolved.add(f'{self.qual}: self.{f.attr}')
                return None
            m, q, fn = r
            return f'self.{f.attr}()', m, q, fn, is_method(fn)
        if isinstance(f, ast.Name) and f.id not in self.local_names:
            if self.mod.has_func(f.id):
                return f'{f.id}()', self.mod, f.id, self.mod.func(f.id), False
            origin = self.an.imports(self.mod).get(f.id)
            if origin is not None and not f.id[:1].isupper():
                r = self.an.resolve_function(origin)
                if r is not None:
                    return f'{f.id}()', r[0], r[1], r[2], False
        return None

    def _module_call(self, e: ast.Call) -> T.Optional[T.Tuple[str, T.Any]]:
        """Classify `root.a.b(...)` where root is a name imported at module level:
        ('repo', callee) a module-level repository function that is summarised; ('unknown', None) a repository function
        that is not (nothing flows through it); ('lib', None) / None: a library function or a constructor/classmethod -
        receiver and arguments flow (B.2 `x.method(args)`)."""
        chain = attr_chain(e.func)
        if chain is None:
            return None
        parts = chain.split('.')
        root = parts[0]
        if (root in self.local_names and root not in self.self_aliases) or root in self.selfnames:
            return None
        origin = self.an.imports(self.mod).get(root)
        if origin is None or not origin.startswith('mesonbuild'):
            return ('lib', None)
        if origin == 'mesonbuild.mlog':
            return ('log', None)            # logging: returns nothing that could be a dependency
        if any(p[:1].isupper() for p in parts):
            return ('lib', None)            # Class(...) / Class.classmethod(...): a constructor
        if len(parts) == 2:
            r = self.an.resolve_function(f'{origin}.{parts[1]}')
            if r is not None:
                return ('repo', (f'{chain}()', r[0], r[1], r[2], False))
        return ('unknown', None)

    def _ev_call(self, e: ast.Call, node: Node, env: T.Dict[str, Val], look: T.Callable[[str, Node], Val],
                 index: T.Optional[int]) -> Val:
        f = e.func
        if isinstance(f, ast.Attribute) and isinstance(f.value, ast.Name) and f.value.id in self.selfnames and f.value.id not in env:
            cal = self._callee(e)
            path = f'self.{f.attr}()'
            return self._ev_repo_call(e, node, env, look, index, path, cal)
        if isinstance(f, ast.Name):
            if f.id in env:
                return self._maybe(None, f'local callable {f.id}', f'call:<local {f.id}>()', self._args_val(e, node, env, look))
            if f.id in self.local_names:
                if self._local_record_class(f, node):
                    return frozenset(), self._args_val(e, node, env, look)[1] | {f'call:{f.id}()'}
                cands = self.resolve_callable(f, node)
                if cands is None:       # unknown callable: nothing flows through it definitely
                    return self._maybe(None, f'local callable {f.id}', f'call:<local {f.id}>()', self._args_val(e, node, env, look))
                vals = []
                for kind, what in cands:
                    if kind == 'attr':
                        syn = syn_call(what, e)
                        vals.append(self._ev_call(syn, node, env, look, index))
                    else:
                        summ, free = self.closure_summary(what)
                        lab = f'call:<closure {getattr(what, "name", "lambda")}>()'
                        bind = bind_args(what, e, False) if summ is not None else None
                        if summ is None or summ.impure_closure or bind is None:
                            if summ is None and self.an.why_none.get(id(what)) == 'recursion':
                                vals.append((frozenset(), frozenset([lab])))
                                continue
                            caps = vjoin(self._args_val(e, node, env, look), *[self._ev(ast.Name(id=p, ctx=ast.Load()), node, env, look) for p in free])
                            vals.append(self._maybe(what, f'closure {getattr(what, "name", "lambda")}', lab, caps, 'self' in free))
                            continue
                        for p in free:
                            bind[p] = ast.copy_location(ast.Name(id=p, ctx=ast.Load()), e)
                        use_index = index is not None and summ.elements is not None and index < len(summ.elements)
                        val = summ.elements[index] if use_index else summ.combined  # type: ignore[index]
                        mapped = self.map_summary(val, bind, lambda x: self._ev(x, node, env, look), keep_self='self' in free)
                        vals.append((frozenset(), mapped[1] | {lab}))
                return vjoin(*vals)
            cal = self._callee(e)
            if cal is not None:
                return self._ev_repo_call(e, node, env, look, index, f'{f.id}()', cal)
            lab = frozenset([f'call:{f.id}()'])
            if f.id in PURE_NAMES or f.id.lstrip('_')[:1].isupper() or self.mod.has_cls(f.id) or (f.id in BUILTIN_NAMES and f.id not in IMPURE_BUILTINS):
                return frozenset(), lab | self._args_val(e, node, env, look)[1]
            return self._maybe(None, f'function {f.id}', f'call:{f.id}()', self._args_val(e, node, env, look))   # unknown callee
        if isinstance(f, ast.Attribute):
            if isinstance(f.value, ast.Call) and isinstance(f.value.func, ast.Name) and f.value.func.id == 'super':
                return self._maybe(None, f'super().{f.attr}', f'call:super().{f.attr}()', self._args_val(e, node, env, look), True)
            how = self._module_call(e)
            if how is not None:
                kind, payload = how
                chain = attr_chain(f) or ''
                if kind == 'repo':
                    return self._ev_repo_call(e, node, env, look, index, f'{chain}()', payload)
                if kind == 'unknown':          # repository function we cannot summarise
                    return self._maybe(None, f'{chain}', f'call:{chain}()', self._args_val(e, node, env, look))
                if kind == 'log':
                    return frozenset(), frozenset([f'call:{chain}()'])
            recv = self._ev(f.value, node, env, look)
            ids = set()
            der = set(recv[1])
            for p in recv[0]:
                q = ext_path(p, f'.{f.attr}()')
                if q is not None:
                    ids.add(q)
                    der.add(f'call:{q}')
            der |= self._args_val(e, node, env, look)[1]
            if isinstance(f.value, ast.Name) and f.value.id not in env:
                der |= self._typed_accessor(e, node, env, look)
            return frozenset(ids), frozenset(der)
        # call of a call / subscript result
        return frozenset(), vjoin(self._ev(f, node, env, look), self._args_val(e, node, env, look))[1]

    def _param_classes(self, name: str) -> T.List[T.Tuple[Module, ast.ClassDef]]:
        """Repository classes named by the annotation of parameter `name` (also inside Union / Optional / a string)."""
        cache = self.an.__dict__.setdefault('_pcls', {})
        if (id(self.fn), name) in cache:
            return cache[(id(self.fn), name)]
        out: T.List[T.Tuple[Module, ast.ClassDef]] = []
        cache[(id(self.fn), name)] = out
        a = self.fn.args  # type: ignore[attr-defined]
        ann = next((x.annotation for x in a.posonlyargs + a.args + a.kwonlyargs if x.arg == name), None)
        if ann is None or name in self.selfnames:
            return out
        if any(not self.defs[d].param for d in range(len(self.defs)) if self.defs[d].name == name):
            return out          # re-bound in the body: the annotation does not describe every value
        todo: T.List[ast.AST] = [ann]
        while todo:
            x = todo.pop()
            if isinstance(x, ast.Constant) and isinstance(x.value, str):
                try:
                    todo.append(ast.parse(x.value, mode='eval').body)
                except SyntaxError:
                    pass
                continue
            c = attr_chain(x) if isinstance(x, (ast.Name, ast.Attribute)) else None
            if c is not None:
                if c.rsplit('.', 1)[-1][:1].isupper() and not c.startswith(('T.', 'typing.')):
                    r = self.an.repo.resolve_class(self.mod, c)
                    if r is not None and not any(r[1] is o[1] for o in out):
                        out.append(r)
                continue
            todo.extend(ch for ch in ast.iter_child_nodes(x) if isinstance(ch, ast.expr))
        return out

    def _typed_accessor(self, e: ast.Call, node: Node, env: T.Dict[str, Val], look: T.Callable[[str, Node], Val]) -> T.Set[str]:
        """`p.m(args)` where parameter p is annotated with a repository class whose method m is defined by exactly one class of
        its module (no override there): the definite labels of m's summary, with m's `self` re-rooted at p.  A one-line
        accessor (`def iter_x(self): return chain(self.a, self.b)`) is thereby read like the expression it wraps."""
        f = e.func
        assert isinstance(f, ast.Attribute) and isinstance(f.value, ast.Name)
        if self.depth <= 0 or f.value.id not in self.params:
            return set()
        out: T.Set[str] = set()
        peers = self.an.__dict__.setdefault('_peers', {})
        rcache = self.an.__dict__.setdefault('_acc', {})
        for m, c in self._param_classes(f.value.id):
            rk = (m.rel, id(c), f.attr)
            if rk not in rcache:
                found = None
                for m2, c2 in self.an.repo.mro(m, c):
                    st = next((x for x in c2.body if isinstance(x, (ast.FunctionDef, ast.AsyncFunctionDef)) and x.name == f.attr), None)
                    if st is not None:
                        found = (m2, c2, st)
                        break
                if found is not None:
                    m2, c2, fn = found
                    if not is_method(fn) or any(d.rsplit('.', 1)[-1] in ('staticmethod', 'classmethod', 'property') for d in decorator_names(fn)):
                        found = None
                    elif sum(1 for k in m2.classes().values() for x in k.body
                             if isinstance(x, (ast.FunctionDef, ast.AsyncFunctionDef)) and x.name == f.attr) != 1:
                        found = None        # another class of the module defines it too: the receiver may be an overriding subclass
                rcache[rk] = found
            found = rcache[rk]
            if found is None:
                continue
            m2, c2, fn = found
            if fn is self.fn or id(fn) in self.an.stack:
                continue
            key = (m2.rel, c2.name)
            peer = peers.get(key)
            if peer is None:
                peer = Analyzer(self.an.repo, m2, c2, 1)
                peers[key] = peer
            summ = peer.summary(m2, f'{c2.name}.{fn.name}', fn, 1)
            bind = bind_args(fn, e, True) if summ is not None else None
            if summ is None or bind is None:
                continue
            bind['self'] = f.value
            definite = frozenset(x for x in summ.combined[1] if not split_maybe(x)[0])
            out |= self.map_summary((frozenset(), definite), bind, lambda x: self._ev(x, node, env, look))[1]
        return out

    def _ev_repo_call(self, e: ast.Call, node: Node, env: T.Dict[str, Val], look: T.Callable[[str, Node], Val],
                      index: T.Optional[int], path: str, cal: T.Optional[T.Tuple[str, Module, str, ast.AST, bool]]) -> Val:
        ids = {path}
        der = {f'call:{path}'}
        summ = None
        if cal is not None and cal[2].rsplit('.', 1)[-1] not in CUTS:
            _, m, q, fn, skip = cal
            summ = self.an.summary(m, q, fn, self.depth - 1)
        use_index = index is not None and summ is not None and summ.elements is not None and index < len(summ.elements)
        if use_index:
            # a known position of a tuple result: only the positional label (the unpositioned one means "position unknown")
            ids = {f'{path}[{index}]'}
            der = {f'call:{path}[{index}]'}
        cut = cal is not None and cal[2].rsplit('.', 1)[-1] in CUTS
        if cal is None and not cut:
            return frozenset(ids), self._maybe(None, path, f'call:{path}', self._args_val(e, node, env, look), path.startswith('self.'))[1]
        if summ is None and cal is not None and not cut and self.an.why_none.get(id(cal[3])) != 'recursion':
            return frozenset(ids), self._maybe(cal[3], path, f'call:{path}', self._args_val(e, node, env, look), cal[4])[1]
        if summ is not None and cal is not None:
            bind = bind_args(cal[3], e, cal[4])
            if bind is None:
                return frozenset(ids), (der | self._maybe(cal[3], path, f'call:{path}', self._args_val(e, node, env, look), cal[4])[1])
            if bind is not None:
                val = summ.elements[index] if use_index else summ.combined  # type: ignore[index]
                mapped = self.map_summary(val, bind, lambda x: self._ev(x, node, env, look), keep_self=cal[4] or bool(summ.ff and summ.ff.self_aliases))
                der |= mapped[1]
        return frozenset(ids), frozenset(der)

    # -- summaries ----------------------------------------------------------
    def return_nodes(self) -> T.List[T.Tuple[Node, ast.AST]]:
        out = []
        for n in self.cfg.nodes:
            if n.kind == 'stmt' and isinstance(n.ast, ast.Return) and n.ast.value is not None:
                out.append((n, n.ast.value))
        return out

    def yield_nodes(self) -> T.List[T.Tuple[Node, ast.AST]]:
        out = []
        for n in self.cfg.nodes:
            e = n.expr()
            if e is None:
                continue
            for y in walk_no_nested(e):
                if isinstance(y, (ast.Yield, ast.YieldFrom)) and y.value is not None:
                    out.append((n, y.value))
        return out

    def summarise(self) -> Summary:
        rets = self.return_nodes()
        ys = self.yield_nodes()
        elements: T.Optional[T.List[Val]] = None
        if rets and not ys and all(isinstance(v, ast.Tuple) and not any(isinstance(x, ast.Starred) for x in v.elts) for _, v in rets) \
                and len({len(v.elts) for _, v in rets}) == 1:  # type: ignore[attr-defined]
            n = len(rets[0][1].elts)  # type: ignore[attr-defined]
            elements = [vjoin(*[self.value_at(v.elts[k], nd) for nd, v in rets]) for k in range(n)]  # type: ignore[attr-defined]
            combined = (frozenset(), vjoin(*elements)[1])
        else:
            combined = vjoin(*[self.value_at(v, nd) for nd, v in rets + ys])
        sinks = []
        for s in self.sinks():
            ds = self.IN[s.node.id].get(s.elem, frozenset())
            if any(self.defs[d].param for d in ds):
                sinks.append((s.elem, s.kind, self.sink_value(s), s.desc))
        return Summary(combined, elements, sinks, [p for p in self.params if p != self.selfname], self)

    # -- sinks --------------------------------------------------------------
    def _elem_candidates(self) -> T.Set[str]:
        out: T.Set[str] = set()
        a = self.fn.args  # type: ignore[attr-defined]
        for p in a.posonlyargs + a.args + a.kwonlyargs:
            if p.annotation is not None and ELEMENT_CLASS in norm(p.annotation):
                out.add(p.arg)
        for n in walk_no_nested(self.fn):
            if isinstance(n, (ast.Assign, ast.AnnAssign)) and isinstance(n.value, ast.Call) and call_name(n.value) == ELEMENT_CLASS:
                for t in (n.targets if isinstance(n, ast.Assign) else [n.target]):
                    if isinstance(t, ast.Name):
                        out.add(t.id)
            elif isinstance(n, ast.Call) and isinstance(n.func, ast.Attribute):
                fv = n.func.value
                if n.func.attr in DEP_METHODS and isinstance(fv, ast.Name):
                    out.add(fv.id)
                elif n.func.attr in ('add', 'update') and isinstance(fv, ast.Attribute) and fv.attr in DEP_FIELDS and isinstance(fv.value, ast.Name):
                    out.add(fv.value.id)
                elif call_name(n) == 'self.add_build' and n.args and isinstance(n.args[0], ast.Name):
                    out.add(n.args[0].id)
        return out

    def node_calls(self, n: Node) -> T.List[ast.Call]:
        r = self._calls_cache.get(n.id)
        if r is None:
            r = self._node_calls(n)
            self._calls_cache[n.id] = r
        return r

    def _node_calls(self, n: Node) -> T.List[ast.Call]:
        if n.kind == 'with_enter':
            roots: T.List[ast.AST] = [i.context_expr for i in n.ast.items]  # type: ignore[union-attr]
        else:
            e = n.expr()
            roots = [e] if e is not None else []
        out = []
        for r in roots:
            if isinstance(r, (ast.FunctionDef, ast.AsyncFunctionDef, ast.ClassDef)):
                continue
            out.extend(c for c in walk_no_nested(r) if isinstance(c, ast.Call))
        return out

    def sinks(self) -> T.List[Sink]:
        if self._sinks is not None:
            return self._sinks
        cands = self._elem_candidates()
        out: T.List[Sink] = []

        def from_summary(n: Node, c: ast.Call, summ: T.Optional[Summary], fn: ast.AST, skip: bool, extra: T.Sequence[str], keep_self: bool) -> None:
            if summ is None or summ.impure_closure:
                return
            bind = bind_args(fn, c, skip)
            if bind is None:
                return
            for p in extra:
                bind[p] = ast.copy_location(ast.Name(id=p, ctx=ast.Load()), c)
            for p, kind, val, desc in summ.sinks:
                a = bind.get(p)
                if isinstance(a, ast.Name) and a.id in cands:
                    mapped = self.map_summary(val, bind, lambda x, n=n: self.value_at(x, n), keep_self=keep_self)
                    out.append(Sink(n, a.id, kind, (), mapped, f'{short(c, 70)} -> {desc}', None))
            # elements built *and registered* inside the callee (a phase method that emits its own edge)
            if summ.ff is not None:
                for g in summ.ff.elem_groups():
                    if any(summ.ff.defs[d].param for s0 in g if s0.ctor_def is None and not s0.elem.startswith('<')
                           for d in summ.ff.elem_defs(s0.elem, s0.node)):
                        continue
                    self._inner_serial += 1
                    for s0 in g:
                        mapped = self.map_summary(summ.ff.sink_value(s0), bind, lambda x, n=n: self.value_at(x, n), keep_self=keep_self)
                        out.append(Sink(n, f'<{self._inner_serial}>', s0.kind, (), mapped, f'{short(c, 60)} -> {s0.desc}', -self._inner_serial))

        def handle(n: Node, c: ast.Call) -> None:
            f = c.func
            if isinstance(f, ast.Name) and f.id in self.local_names:
                for kind, what in self.resolve_callable(f, n) or []:
                    if kind == 'attr':
                        handle(n, syn_call(what, c))
                    else:
                        summ, free = self.closure_summary(what)
                        from_summary(n, c, summ, what, False, free, 'self' in free)
                return
            if not isinstance(f, ast.Attribute):
                return
            fv = f.value
            if f.attr in DEP_METHODS and isinstance(fv, ast.Name) and (c.args or c.keywords):
                out.append(Sink(n, fv.id, DEP_METHODS[f.attr], tuple(c.args) + tuple(k.value for k in c.keywords), None, short(c, 90), None))
            elif f.attr in ('add', 'update') and isinstance(fv, ast.Attribute) and fv.attr in DEP_FIELDS and isinstance(fv.value, ast.Name) and c.args:
                out.append(Sink(n, fv.value.id, DEP_FIELDS[fv.attr], tuple(c.args), None, short(c, 90), None))
            elif isinstance(fv, ast.Name) and fv.id in self.selfnames and f.attr != 'add_build':
                cal = self._callee(c)
                if cal is None or f.attr in CUTS:
                    return
                _, m, q, fn, skip = cal
                if not any(isinstance(a, ast.Name) and a.id in cands for a in list(c.args) + [k.value for k in c.keywords]) \
                        and not self.an.mentions(fn, ELEMENT_CLASS, 2):
                    return
                from_summary(n, c, self.an.summary(m, q, fn, self.depth - 1), fn, skip, (), skip)

        for n in self.cfg.nodes:
            if n.kind == 'stmt' and isinstance(n.ast, (ast.Assign, ast.AnnAssign)) and isinstance(n.ast.value, ast.Call) \
                    and call_name(n.ast.value) == ELEMENT_CLASS:
                tgts = n.ast.targets if isinstance(n.ast, ast.Assign) else [n.ast.target]
                if len(tgts) == 1 and isinstance(tgts[0], ast.Name):
                    c = n.ast.value
                    inf = c.args[3] if len(c.args) > 3 else next((k.value for k in c.keywords if k.arg == 'infilenames'), None)
                    if inf is not None:
                        name = tgts[0].id
                        dd = [d.id for d in self.by_node.get(n.id, []) if d.name == name and d.strong]
                        out.append(Sink(n, name, 'infiles', (inf,), None, f'{name} = {ELEMENT_CLASS}(..., {short(inf, 60)})', dd[0] if dd else None))
            elif n.kind == 'stmt' and isinstance(n.ast, (ast.Assign, ast.AnnAssign)) and isinstance(n.ast.value, ast.Call):
                # `name = self.factory(...)` where every return of the resolved factory is a NinjaBuildElement(...) display:
                # the constructor inputs are the factory's infilenames expression over its parameters, mapped to this call
                tgts = n.ast.targets if isinstance(n.ast, ast.Assign) else [n.ast.target]
                if len(tgts) == 1 and isinstance(tgts[0], ast.Name):
                    pre = self.factory_infiles(n.ast.value, n)
                    if pre is not None:
                        name = tgts[0].id
                        dd = [d.id for d in self.by_node.get(n.id, []) if d.name == name and d.strong]
                        out.append(Sink(n, name, 'infiles', (), pre, f'{name} = {short(n.ast.value, 70)} -> {ELEMENT_CLASS}(...)', dd[0] if dd else None))
            for c in self.node_calls(n):
                handle(n, c)
        self._sinks = out
        return out

    def factory_infiles(self, c: ast.Call, n: Node) -> T.Optional[Val]:
        """`c` calls a resolved repository function whose every return is a direct `NinjaBuildElement(...)` construction
        (an element factory): the value of its infilenames argument, in the terms of this call site.  None otherwise."""
        f = c.func
        if not ((isinstance(f, ast.Attribute) and isinstance(f.value, ast.Name) and f.value.id in self.selfnames)
                or (isinstance(f, ast.Name) and f.id not in self.local_names)):
            return None
        if isinstance(f, ast.Attribute) and self.an.resolve_self(f.attr) is None:
            return None
        cal = self._callee(c)
        if cal is None or cal[3] is self.fn or id(cal[3]) in self.an.stack[:-1] or self.depth <= 0:
            return None
        _, m, q, fn, skip = cal
        rets = [r for r in walk_no_nested(fn) if isinstance(r, ast.Return)]
        if not rets or any(isinstance(y, (ast.Yield, ast.YieldFrom)) for y in walk_no_nested(fn)):
            return None
        infs = []
        for r in rets:
            v = r.value
            if not (isinstance(v, ast.Call) and call_name(v) == ELEMENT_CLASS):
                return None
            inf = v.args[3] if len(v.args) > 3 else next((k.value for k in v.keywords if k.arg == 'infilenames'), None)
            if inf is None or any(isinstance(a, ast.Starred) for a in v.args):
                return None
            infs.append((r, inf))
        bind = bind_args(fn, c, skip)
        if bind is None:
            return None
        try:
            ff = self.an.flow(m, q, fn, self.depth - 1)
            vals = [ff.value_at(inf, nd) for nd, v in ff.return_nodes() for r, inf in infs if r.value is v]
        except Undecided:
            return None
        if len(vals) != len(infs):
            return None
        return self.map_summary((frozenset(), vjoin(*vals)[1]), bind, lambda x: self.value_at(x, n), keep_self=skip)

    def sink_value(self, s: Sink) -> Val:
        if s.pre is not None:
            return s.pre
        return (frozenset(), vjoin(*[self.value_at(e, s.node) for e in s.exprs])[1])

    def reach(self, n: Node) -> T.Set[int]:
        r = self._reach_cache.get(n.id)
        if r is None:
            r = self.cfg.reachable([n])
            self._reach_cache[n.id] = r
        return r

    def elem_defs(self, name: str, node: Node, before: bool = True) -> T.FrozenSet[int]:
        """Definitions of the element held by `name` at `node`, looking through plain aliases (`elem = link_elem`)."""
        out: T.Set[int] = set()
        todo = list(self.IN[node.id].get(name, frozenset()))
        while todo:
            d = todo.pop()
            if d in out:
                continue
            out.add(d)
            df = self.defs[d]
            if df.strong and isinstance(df.value, ast.Name) and df.index is None:
                todo.extend(self.IN[df.node].get(df.value.id, frozenset()))
        return frozenset(out)

    def reg_nodes(self, s: Sink) -> T.List[Node]:
        """Nodes after the sink where the populated element is handed to self.add_build(...) or returned."""
        if s.ctor_def is not None:
            ds: T.FrozenSet[int] = frozenset([s.ctor_def])
        else:
            ds = self.elem_defs(s.elem, s.node)
        after = self.reach(s.node)
        out = []
        for n in self.cfg.nodes:
            if n.id not in after:
                continue
            names: T.List[str] = []
            if n.kind == 'stmt' and isinstance(n.ast, ast.Return) and n.ast.value is not None:
                v = n.ast.value
                els = v.elts if isinstance(v, ast.Tuple) else [v]
                names += [x.id for x in els if isinstance(x, ast.Name)]
            for c in self.node_calls(n):
                if call_name(c) == 'self.add_build' and c.args and isinstance(c.args[0], ast.Name):
                    names.append(c.args[0].id)
            if any(ds & self.elem_defs(z, n) for z in names):
                out.append(n)
        return out

    def registered(self, s: Sink) -> bool:
        """The element populated at the sink is the one handed to self.add_build(...) / returned afterwards
        (or it is a parameter: then registration is the caller's business)."""
        if s.elem.startswith('<'):
            return True          # built and registered inside a summarised callee
        if s.ctor_def is None and any(self.defs[d].param for d in self.elem_defs(s.elem, s.node)):
            return True
        return bool(self.reg_nodes(s))

    def elem_roots(self, s: Sink) -> T.FrozenSet[int]:
        """Identity of the element a sink populates: the non-alias definitions of its name that reach the sink."""
        if s.ctor_def is not None:
            return frozenset([s.ctor_def])
        if s.elem.startswith('<'):
            return frozenset([-int(s.elem[1:-1])])
        return frozenset(d for d in self.elem_defs(s.elem, s.node)
                         if not (self.defs[d].strong and isinstance(self.defs[d].value, ast.Name)))

    def elem_groups(self) -> T.List[T.List[Sink]]:
        """Registered sinks grouped by the element they populate."""
        groups: T.List[T.Tuple[T.Set[int], T.List[Sink]]] = []
        for s in self.sinks():
            if not self.registered(s):
                continue
            roots = set(self.elem_roots(s))
            merged: T.List[Sink] = [s]
            rest = []
            for r, members in groups:
                if r & roots:
                    roots |= r
                    merged = members + merged
                else:
                    rest.append((r, members))
            groups = rest + [(roots, merged)]
        return [m for _, m in groups]

    # -- closed world: where values go that the analysis does not follow ------------------------------------------
    def opaque_uses(self) -> T.List[T.Tuple[Node, str, T.Tuple[ast.AST, ...], T.Optional[ast.AST], T.Optional[Val], bool]]:
        """Calls whose effect on their arguments is unknown to this analysis:
        (node, description, argument expressions, callee function if its source is available, pre-mapped value, receives self)."""
        if self._opaque is not None:
            return self._opaque
        out: T.List[T.Tuple[Node, str, T.Tuple[ast.AST, ...], T.Optional[ast.AST], T.Optional[Val], bool]] = []

        def args_of(c: ast.Call) -> T.Tuple[ast.AST, ...]:
            return tuple(a.value if isinstance(a, ast.Starred) else a for a in c.args) + tuple(k.value for k in c.keywords)

        def via_summary(n: Node, c: ast.Call, summ: T.Optional[Summary], fn: ast.AST, skip: bool, extra: T.Sequence[str], is_self: bool, name: str) -> None:
            if summ is None:
                if self.an.why_none.get(id(fn)) == 'recursion':
                    return
                out.append((n, f'{name} (not analysed: {self.an.why_none.get(id(fn), "?")})', args_of(c), fn, None, is_self))
                return
            if summ.impure_closure:
                out.append((n, f'{name} (closure that changes captured variables)', args_of(c) + tuple(ast.Name(id=p, ctx=ast.Load()) for p in extra), None, None, is_self))
                return
            bind = bind_args(fn, c, skip)
            if bind is None:
                out.append((n, f'{name} (arguments passed with * / **)', args_of(c), fn, None, is_self))
                return
            for p in extra:
                bind[p] = ast.copy_location(ast.Name(id=p, ctx=ast.Load()), c)
            if summ.ff is not None:
                for n2, desc, exprs, cfn, pre, recv_self in summ.ff.opaque_uses():
                    val = pre if pre is not None else vjoin(*[summ.ff.value_at(x, n2) for x in exprs])
                    mapped = self.map_summary(val, bind, lambda x, n=n: self.value_at(x, n), keep_self=is_self)
                    out.append((n, f'{name} -> {desc}', (), cfn, mapped, recv_self and is_self))

        def handle(n: Node, c: ast.Call) -> None:
            f = c.func
            if isinstance(f, ast.Name):
                if f.id in self.local_names:
                    if self._local_record_class(f, n):
                        return
                    cands = self.resolve_callable(f, n)
                    if cands is None:
                        out.append((n, f'call of the local callable `{f.id}`', args_of(c), None, None, False))
                        return
                    for kind, what in cands:
                        if kind == 'attr':
                            handle(n, syn_call(what, c))
                        else:
                            summ, free = self.closure_summary(what)
                            via_summary(n, c, summ, what, False, free, 'self' in free, f'closure {getattr(what, "name", "lambda")}()')
                    return
                cal = self._callee(c)
                if cal is not None:
                    via_summary(n, c, self.an.summary(cal[1], cal[2], cal[3], self.depth - 1), cal[3], False, (), False, f'{f.id}()')
                elif not (f.id in PURE_NAMES or f.id.lstrip('_')[:1].isupper() or self.mod.has_cls(f.id) or f.id in ('isinstance', 'len', 'bool', 'int', 'any', 'all', 'hasattr',
                                                                                'getattr', 'print', 'repr', 'type', 'id', 'min', 'max', 'sum', 'range', 'open', 'super')):
                    out.append((n, f'unknown function {f.id}()', args_of(c), None, None, False))
                return
            if isinstance(f, ast.Attribute):
                if isinstance(f.value, ast.Call) and isinstance(f.value.func, ast.Name) and f.value.func.id == 'super':
                    out.append((n, f'super().{f.attr}()', args_of(c), None, None, True))
                    return
                if isinstance(f.value, ast.Name) and f.value.id in self.selfnames:
                    if f.attr in CUTS:
                        return
                    cal = self._callee(c)
                    if cal is None:
                        out.append((n, f'unresolved self.{f.attr}()', args_of(c), None, None, True))
                    else:
                        via_summary(n, c, self.an.summary(cal[1], cal[2], cal[3], self.depth - 1), cal[3], cal[4], (), True, f'self.{f.attr}()')
                    return
                how = self._module_call(c)
                if how is not None and how[0] == 'repo':
                    pl = how[1]
                    via_summary(n, c, self.an.summary(pl[1], pl[2], pl[3], self.depth - 1), pl[3], False, (), False, attr_chain(f) or f.attr)
                elif how is not None and how[0] == 'unknown':
                    out.append((n, f'repository function {attr_chain(f)}() (not resolved)', args_of(c), None, None, False))
                return
            if isinstance(f, ast.Call) and isinstance(f.func, ast.Name) and f.func.id == 'type':
                return          # type(self)(...): a constructor
            out.append((n, f'call of a computed callable `{short(f, 40)}`', args_of(c), None, None, False))

        for n in self.cfg.nodes:
            for c in self.node_calls(n):
                handle(n, c)
            # a nested function handed around as a value (callback) reads what it captures at an unknown time
            if n.kind == 'stmt' and isinstance(n.ast, (ast.FunctionDef, ast.AsyncFunctionDef)):
                fn = n.ast
                called_only = True
                for m in self.cfg.nodes:
                    for r in self.node_roots(m):
                        if isinstance(r, (ast.FunctionDef, ast.AsyncFunctionDef, ast.ClassDef)):
                            continue
                        calls_funcs = {id(c.func) for c in ast.walk(r) if isinstance(c, ast.Call)}
                        for x in ast.walk(r):
                            if isinstance(x, ast.Name) and x.id == fn.name and isinstance(x.ctx, ast.Load) and id(x) not in calls_funcs:
                                called_only = False
                if not called_only:
                    caps = tuple(ast.Name(id=x, ctx=ast.Load()) for x in sorted({y.id for y in ast.walk(fn) if isinstance(y, ast.Name)} & self.local_names))
                    out.append((self.cfg.exit_return if False else n, f'nested function {fn.name} used as a value', caps, None, None, 'self' in {c.id for c in caps}))
        self._opaque = out
        return out

    def maybe_through(self, source: str, labels: T.Iterable[str]) -> T.Optional[str]:
        """`source` is not among the definite labels of a sink.  Does it - or the object it is read from - arrive there
        through a callee that was not followed (a maybe-label)?  Returns the description of that callee, else None:
        then the sink provably does not receive it."""
        kind, root, rest = label_root(source)
        idents = re.findall(r'[A-Za-z_]\w*', source.split(':', 1)[1])
        leaf = idents[-1] if idents else ''
        for full in labels:
            tag, inner = split_maybe(full)
            if not tag:
                continue
            cfn, desc = self.an.sites[int(tag[1:-1])]
            if inner == source:
                return desc
            if (inner == 'self' if root == 'self' else inner == f'param:{root}') and (cfn is None or self.an.mentions(cfn, leaf)):
                return desc
        return None

    def element_handed_over(self, elem_roots: T.Set[int], source: str) -> T.Optional[str]:
        """The build element itself is passed to (or captured by) a callee that was not followed, together with the
        source or the object it is read from: that callee may populate the edge."""
        kind, root, rest = label_root(source)
        for n, desc, exprs, cfn, pre, recv_self in self.opaque_uses():
            if pre is not None:
                continue
            if not any(isinstance(x, ast.Name) and x.id in self.local_names and set(self.elem_defs(x.id, n)) & elem_roots for x in exprs):
                continue
            labels = vjoin(*[self.value_at(x, n) for x in exprs])[1]
            if source in labels or f'param:{root}' in labels or (root == 'self' and recv_self):
                return desc
        return None

    def deep_callargs(self, callee: str, params: T.Sequence[str], _depth: int = 2) -> T.List[T.Tuple[str, T.FrozenSet[str], ast.AST]]:
        """(call text, labels of the arguments bound to `params`, node) for every call of self.<callee>(...) / <callee>(...)
        in this function and in the summarised helpers it calls (mapped back to this function's terms)."""
        out: T.List[T.Tuple[str, T.FrozenSet[str], ast.AST]] = []
        r = self.an.resolve_self(callee) if self.selfnames else None
        if r is None and self.mod.has_func(callee):
            r = (self.mod, callee, self.mod.func(callee))
        if r is None:
            return out
        cfn = r[2]
        for node, c in self.calls_of(callee):
            b = bind_args(cfn, c, is_method(cfn))
            if b is None:
                raise Undecided(f'{self.qual}: cannot bind arguments of `{short(c)}`')
            labels: T.Set[str] = set()
            for p in params:
                if p in b:
                    labels |= self.origins_at(b[p], node)
            out.append((short(c, 160), frozenset(labels), c))
        if _depth <= 0:
            return out
        seen: T.Set[int] = set()
        for n in self.cfg.nodes:
            for c in self.node_calls(n):
                cal = None
                extra: T.Sequence[str] = ()
                fn2: T.Optional[ast.AST] = None
                skip = False
                keep = False
                if isinstance(c.func, ast.Name) and c.func.id in self.local_names:
                    for kind, what in self.resolve_callable(c.func, n) or []:
                        if kind == 'nested':
                            summ, extra = self.closure_summary(what)
                            fn2, keep = what, 'self' in extra
                else:
                    cal = self._callee(c)
                    if cal is not None and call_name(c) not in (f'self.{callee}', callee):
                        fn2, skip, keep = cal[3], cal[4], cal[4]
                        summ = self.an.summary(cal[1], cal[2], cal[3], self.depth - 1)
                if fn2 is None or id(c) in seen or not self.an.mentions(fn2, callee, 2):
                    continue
                seen.add(id(c))
                if summ is None or summ.ff is None or summ.impure_closure:
                    continue
                b = bind_args(fn2, c, skip)
                if b is None:
                    continue
                for p in extra:
                    b[p] = ast.copy_location(ast.Name(id=p, ctx=ast.Load()), c)
                self.an.stack.append(id(fn2))
                try:
                    inner = summ.ff.deep_callargs(callee, params, _depth - 1)
                finally:
                    self.an.stack.pop()
                for text, labels2, _ in inner:
                    mapped = self.map_summary((frozenset(), labels2), b, lambda x, n=n: self.value_at(x, n), keep_self=keep)
                    out.append((f'{short(c, 60)} -> {text}', mapped[1], c))
        return out

    # -- def-use liveness of accumulations ------------------------------------------------------------------
    def node_roots(self, n: Node) -> T.List[ast.AST]:
        st = n.ast
        if n.kind == 'stmt':
            return [st] if st is not None else []
        if n.kind == 'test':
            return [st.test]  # type: ignore[union-attr]
        if n.kind == 'iter':
            return [st.iter]  # type: ignore[union-attr]
        if n.kind == 'with_enter':
            return [i.context_expr for i in st.items]  # type: ignore[union-attr]
        if n.kind == 'handler':
            return [st.type] if getattr(st, 'type', None) is not None else []  # type: ignore[union-attr]
        return []

    def _pure_names(self, e: ast.AST) -> T.List[ast.Name]:
        """Names of `e` whose only use is to compute the value of `e` (not handed to a call that may keep or act on them)."""
        out: T.List[ast.Name] = []

        def rec(x: ast.AST) -> None:
            if isinstance(x, ast.Name):
                out.append(x)
                return
            if isinstance(x, ast.Call):
                f = x.func
                pure = (isinstance(f, ast.Name) and (f.id in PURE_NAMES or (f.id in BUILTIN_NAMES and f.id not in IMPURE_BUILTINS and f.id != 'print'))) \
                    or (attr_chain(f) or '').startswith('os.path.') \
                    or (isinstance(f, ast.Attribute) and f.attr in ('copy', 'format', 'join', 'replace', 'split', 'strip', 'startswith', 'endswith', 'get', 'keys', 'values', 'items'))
                if not pure:
                    return            # arguments (and receiver) of other calls count as used
            if isinstance(x, (ast.FunctionDef, ast.AsyncFunctionDef, ast.Lambda, ast.ClassDef)):
                for y in ast.walk(x):
                    if isinstance(y, ast.Name):
                        out.append(y)
                return
            for ch in ast.iter_child_nodes(x):
                rec(ch)
        rec(e)
        return out

    def dead_accumulations(self) -> T.List[Def]:
        """Weak definitions (append/extend/+=/add/update on a local) that no read ever observes, directly or through
        other definitions: the collected values leave the function nowhere.  Any read that is not the right-hand side
        of another definition (call argument, return, test, attribute store, use inside a nested function) keeps a
        definition alive; the receiver position of a mutator call is not a read."""
        consumers: T.Dict[int, T.Set[int]] = {}
        live: T.Set[int] = set()
        for n in self.cfg.nodes:
            owner: T.Dict[int, T.List[int]] = {}
            for d2 in self.by_node.get(n.id, []):
                if d2.value is not None and not d2.param:
                    if not d2.strong and not self._fresh_container(d2):
                        continue      # storing into a container that may be owned elsewhere is an effect: its operands are used
                    for x in self._pure_names(d2.value):
                        owner.setdefault(id(x), []).append(d2.id)
            recv: T.Set[int] = set()
            roots = self.node_roots(n)
            for r in roots:
                for c in ast.walk(r):
                    if isinstance(c, ast.Call) and isinstance(c.func, ast.Attribute) and c.func.attr in MUTATORS and isinstance(c.func.value, ast.Name):
                        recv.add(id(c.func.value))
            for r in roots:
                for x in ast.walk(r):
                    if not (isinstance(x, ast.Name) and isinstance(x.ctx, ast.Load)):
                        continue
                    ds = self.IN[n.id].get(x.id, frozenset())
                    if id(x) in owner:
                        for d in ds:
                            consumers.setdefault(d, set()).update(owner[id(x)])
                    elif id(x) in recv:
                        continue
                    else:
                        live |= ds
        for d in self.defs:          # a definition of a parameter name is visible to the caller
            if d.name in self.params:
                live.add(d.id)
        changed = True
        while changed:
            changed = False
            for d, cs in consumers.items():
                if d not in live and cs & live:
                    live.add(d)
                    changed = True
        reachable = self.cfg.reachable([self.cfg.entry], include_start=True)
        self._live = live
        self._reachable_nodes = reachable
        self._consumers = consumers
        return [d for d in self.defs if not d.strong and not d.param and d.mut is None and d.id not in live and d.node in reachable
                and d.name not in self.params and self._fresh_container(d)]

    def dead_defs(self, strong: bool = True) -> T.List[Def]:
        """Plain assignments `name = expr` (one name, no unpacking, not a loop/with/except target) whose value no read ever
        observes, directly or through other definitions: the classic "computed after its last use" slip."""
        self.dead_accumulations()
        out = []
        for d in self.defs:
            if not d.strong or d.param or d.id in self._live or d.node not in self._reachable_nodes or d.name in self.params:
                continue
            n = self.cfg.nodes[d.node]
            st = n.ast
            if n.kind != 'stmt' or d.index is not None or d.value is None or d.name.startswith('_'):
                continue
            if isinstance(st, ast.Assign) and len(st.targets) == 1 and isinstance(st.targets[0], ast.Name) and st.value is d.value:
                out.append(d)
            elif isinstance(st, ast.AnnAssign) and isinstance(st.target, ast.Name) and st.value is d.value:
                out.append(d)
        return out

    FRESH_CTORS = {'list', 'set', 'dict', 'tuple', 'OrderedSet', 'OrderedDict', 'defaultdict', 'deque'}

    def _fresh_container(self, d: Def) -> bool:
        """The accumulator mutated at `d` is a container created in this function (a display, a comprehension,
        list()/set()/..., x.copy(), a concatenation): otherwise it may alias an object owned elsewhere
        (`blk = self.data[k]; blk.append(..)`), and a mutation without a later read is still an effect."""
        strong = [self.defs[i] for i in self.elem_defs(d.name, self.cfg.nodes[d.node]) if self.defs[i].strong]
        if not strong:
            return False
        for s in strong:
            v = s.value
            if s.param or v is None or s.index is not None:
                return False
            if isinstance(v, ast.Name):
                return False  # `cur = vala; cur[f] = x` mutates the other local: aliasing between locals is not tracked
            if isinstance(v, (ast.List, ast.Set, ast.Dict, ast.ListComp, ast.SetComp, ast.DictComp, ast.BinOp)):
                continue
            if isinstance(v, ast.Call):
                if isinstance(v.func, ast.Name) and v.func.id in self.FRESH_CTORS:
                    continue
                if isinstance(v.func, ast.Attribute) and v.func.attr == 'copy' and not v.args:
                    continue
            return False
        return True

    # -- other sink shapes ----------------------------------------------------
    def calls_of(self, callee: str) -> T.List[T.Tuple[Node, ast.Call]]:
        out = []
        seen: T.Set[int] = set()
        for n in self.cfg.nodes:
            for c0 in self.node_calls(n):
                cs = [c0]
                if isinstance(c0.func, ast.Name) and c0.func.id in self.local_names:
                    cs = [syn_call(w, c0) for k, w in (self.resolve_callable(c0.func, n) or []) if k == 'attr']
                for c in cs:
                    if call_name(c) in (f'self.{callee}', callee) and id(c0) not in seen:
                        seen.add(id(c0))
                        out.append((n, c))
        return out

    def stores(self, chain: str) -> T.List[T.Tuple[Node, ast.AST, T.Optional[int]]]:
        return list(self.attr_defs.get(chain, []))

    def deep_store_labels(self, chain: str, _depth: int = 2) -> T.Set[str]:
        """Labels of what the resolved self-callees of this function (to `_depth`) store into `chain`, mapped back to this
        function's terms (a block of stores extracted into a helper method that takes the object as a parameter)."""
        out: T.Set[str] = set()
        if _depth <= 0 or not chain.startswith('self.'):
            return out
        leaf = chain.rsplit('.', 1)[-1]
        for n in self.cfg.nodes:
            for c in self.node_calls(n):
                f = c.func
                if not (isinstance(f, ast.Attribute) and isinstance(f.value, ast.Name) and f.value.id in self.selfnames):
                    continue
                if self.an.resolve_self(f.attr) is None:
                    continue
                cal = self._callee(c)
                if cal is None or cal[3] is self.fn or id(cal[3]) in self.an.stack[:-1] or not cal[4] or not self.an.mentions(cal[3], leaf, _depth):
                    continue
                b = bind_args(cal[3], c, True)
                if b is None:
                    raise Undecided(f'{self.qual}: cannot bind arguments of `{short(c)}`, a helper that mentions {leaf}')
                ff2 = self.an.flow(cal[1], cal[2], cal[3], max(self.depth - 1, 0))
                inner: T.Set[str] = set()
                for nd, v, idx in ff2.stores(chain):
                    inner |= ff2.origins_at(v, nd, idx)
                self.an.stack.append(id(cal[3]))
                try:
                    inner |= ff2.deep_store_labels(chain, _depth - 1)
                finally:
                    self.an.stack.pop()
                out |= self.map_summary((frozenset(), frozenset(inner)), b, lambda x, n=n: self.value_at(x, n), keep_self=True)[1]
        return out

    def def_nodes(self, name: str) -> T.List[Def]:
        return [d for d in self.defs if d.name == name and not d.param]
