"""C01.R6 - immutability of held values (DESIGN section 2 C01.R6).

K2 / effect analysis: a flow-insensitive *may-alias* classification of every expression of a function:

    H   the expression may denote a held value itself (``self.held_object``, an unholdered operand,
        an element / attribute / item of one)
    E   a freshly built container whose elements are held values (``held + other``, ``list(held)``,
        ``[_unholder(x) for x in xs]``, ``held.items()``)

In-place mutation of an H expression (mutator method, item/attribute store, ``del``, augmented assignment)
is what would make a change visible through another variable name; mutation of an E container is harmless.
Unknown callees are assumed to return fresh values (stated in ASSUMPTIONS).
"""
from __future__ import annotations

import ast
import typing as T

from ..core import Module, Undecided, norm, short, attr_chain, walk_no_nested
from ..report import RuleCtx
from .c01_sym import sym_paths, is_call, show
from .c01_eval import IB, EvalFn, views, abstract, fmt, EV, dispatch_arms, arm_method, rename
from .c01_parser import mro_cached

PRIM = 'mesonbuild/interpreter/primitives/'
PRIM_FILES = [PRIM + f for f in ('integer.py', 'string.py', 'boolean.py', 'array.py', 'dict.py', 'range.py')]
BASEOBJ = 'mesonbuild/interpreterbase/baseobjects.py'
IOBJ = 'mesonbuild/interpreter/interpreterobjects.py'

MUTATORS = {'append', 'extend', 'insert', 'remove', 'pop', 'clear', 'sort', 'reverse', 'update', 'setdefault', 'popitem', 'add', 'discard',
            'appendleft', 'extendleft', '__setitem__', '__delitem__', '__iadd__', 'difference_update', 'intersection_update', 'symmetric_difference_update'}
SHALLOW = {'list', 'sorted', 'tuple', 'set', 'frozenset', 'dict', 'reversed', 'iter', 'enumerate', 'zip', 'flatten', 'listify', 'OrderedSet', 'filter', 'map', 'chain'}
VIEW_METHODS = {'items', 'keys', 'values', 'copy'}
ELEM_METHODS = {'get', 'pop', 'popitem', 'setdefault', '__getitem__'}

FuncLike = T.Union[ast.FunctionDef, ast.AsyncFunctionDef, ast.Lambda]


class Alias:
    def __init__(self, fn: FuncLike, tainted_params: T.Iterable[str], cls_methods: T.Optional[T.Dict[str, ast.FunctionDef]] = None, depth: int = 0):
        self.fn = fn
        self.tainted = set(tainted_params)
        self.cls_methods = cls_methods or {}
        self.depth = depth
        self.defs: T.Dict[str, T.List[T.Tuple[str, ast.AST]]] = {}     # name -> [(kind, expr)] kind: val | elem
        self.nested: T.Dict[str, FuncLike] = {}
        body: T.List[ast.AST] = list(fn.body) if not isinstance(fn, ast.Lambda) else [fn.body]
        for st in body:
            for n in ast.walk(st):
                self._collect(n)
        # parameters of nested functions receive the arguments of their call sites
        for st in body:
            for n in ast.walk(st):
                if isinstance(n, ast.Call) and isinstance(n.func, ast.Name) and n.func.id in self.nested:
                    f = self.nested[n.func.id]
                    ps = [a.arg for a in f.args.args]
                    for p, a in zip(ps, n.args):
                        self.defs.setdefault(p, []).append(('val', a))
        self._memo: T.Dict[str, T.FrozenSet[str]] = {}

    def _bind(self, target: ast.AST, kind: str, value: ast.AST) -> None:
        if isinstance(target, ast.Name):
            self.defs.setdefault(target.id, []).append((kind, value))
        elif isinstance(target, (ast.Tuple, ast.List)):
            if kind == 'val' and isinstance(value, (ast.Tuple, ast.List)) and len(value.elts) == len(target.elts):
                for t, v in zip(target.elts, value.elts):
                    self._bind(t, 'val', v)
            else:
                for t in target.elts:
                    self._bind(t, 'elem', value)
        elif isinstance(target, ast.Starred):
            self._bind(target.value, 'elem', value)

    def _collect(self, n: ast.AST) -> None:
        if isinstance(n, ast.Assign):
            for t in n.targets:
                self._bind(t, 'val', n.value)
        elif isinstance(n, ast.AnnAssign) and n.value is not None:
            self._bind(n.target, 'val', n.value)
        elif isinstance(n, ast.AugAssign):
            self._bind(n.target, 'val', n.value)
        elif isinstance(n, (ast.For, ast.AsyncFor)):
            self._bind(n.target, 'elem', n.iter)
        elif isinstance(n, ast.comprehension):
            self._bind(n.target, 'elem', n.iter)
        elif isinstance(n, ast.NamedExpr):
            self._bind(n.target, 'val', n.value)
        elif isinstance(n, (ast.With, ast.AsyncWith)):
            for i in n.items:
                if i.optional_vars is not None:
                    self._bind(i.optional_vars, 'val', i.context_expr)
        elif isinstance(n, (ast.FunctionDef, ast.AsyncFunctionDef)) and n is not self.fn:
            self.nested[n.name] = n

    @staticmethod
    def elem(s: T.AbstractSet[str]) -> T.FrozenSet[str]:
        return frozenset({'H'}) if s else frozenset()

    def name(self, n: str, busy: T.FrozenSet[str]) -> T.FrozenSet[str]:
        if n in self._memo:
            return self._memo[n]
        if n in busy:
            return frozenset()
        out: T.Set[str] = set()
        if n in self.tainted:
            out.add('H')
        for kind, v in self.defs.get(n, []):
            t = self.tags(v, busy | {n})
            out |= (self.elem(t) if kind == 'elem' else t)
        res = frozenset(out)
        if not busy:
            self._memo[n] = res
        return res

    def tags(self, e: T.Optional[ast.AST], busy: T.FrozenSet[str] = frozenset()) -> T.FrozenSet[str]:
        if e is None:
            return frozenset()
        if isinstance(e, ast.Name):
            return self.name(e.id, busy)
        if isinstance(e, ast.Attribute):
            if e.attr == 'held_object':
                return frozenset({'H'})
            return frozenset({'H'}) if 'H' in self.tags(e.value, busy) else frozenset()
        if isinstance(e, ast.Subscript):
            t = self.tags(e.value, busy)
            if isinstance(e.slice, ast.Slice):
                return frozenset({'E'}) if t else frozenset()
            return self.elem(t)
        if isinstance(e, ast.Call):
            f = e.func
            argt: T.Set[str] = set()
            for a in list(e.args) + [k.value for k in e.keywords]:
                argt |= self.tags(a.value if isinstance(a, ast.Starred) else a, busy)
            if isinstance(f, ast.Name):
                if f.id == '_unholder':
                    return frozenset({'H'})
                if f.id in SHALLOW:
                    return frozenset({'E'}) if argt else frozenset()
                if f.id in ('next',):
                    return self.elem(argt)
                if f.id in self.nested and self.depth < 2:
                    return self._returns(self.nested[f.id], busy, e)
                return frozenset()
            if isinstance(f, ast.Attribute):
                chain = attr_chain(f)
                if chain in ('copy.deepcopy',):
                    return frozenset()
                if chain in ('copy.copy',):
                    return frozenset({'E'}) if argt else frozenset()
                if chain == 'self._unholder_args':
                    return frozenset({'E'})
                recv = self.tags(f.value, busy)
                if f.attr in VIEW_METHODS:
                    return frozenset({'E'}) if recv else frozenset()
                if f.attr in ELEM_METHODS:
                    return self.elem(recv) | (frozenset({'H'}) if 'H' in argt and f.attr in ('get', 'setdefault', 'pop') else frozenset())
                if isinstance(f.value, ast.Name) and f.value.id == 'self' and f.attr in self.cls_methods and self.depth < 2:
                    return self._returns(self.cls_methods[f.attr], busy, e, method=True)
                if f.attr in SHALLOW:
                    return frozenset({'E'}) if argt else frozenset()
            return frozenset()
        if isinstance(e, ast.BinOp):
            t = self.tags(e.left, busy) | self.tags(e.right, busy)
            return frozenset({'E'}) if t else frozenset()
        if isinstance(e, (ast.List, ast.Tuple, ast.Set)):
            t: T.Set[str] = set()
            for x in e.elts:
                t |= self.tags(x.value if isinstance(x, ast.Starred) else x, busy)
            return frozenset({'E'}) if t else frozenset()
        if isinstance(e, ast.Dict):
            t = set()
            for x in list(e.keys) + list(e.values):
                t |= self.tags(x, busy)
            return frozenset({'E'}) if t else frozenset()
        if isinstance(e, (ast.ListComp, ast.SetComp, ast.GeneratorExp)):
            return frozenset({'E'}) if self.tags(e.elt, busy) else frozenset()
        if isinstance(e, ast.DictComp):
            return frozenset({'E'}) if (self.tags(e.key, busy) | self.tags(e.value, busy)) else frozenset()
        if isinstance(e, ast.IfExp):
            return self.tags(e.body, busy) | self.tags(e.orelse, busy)
        if isinstance(e, ast.BoolOp):
            out: T.Set[str] = set()
            for v in e.values:
                out |= self.tags(v, busy)
            return frozenset(out)
        if isinstance(e, ast.NamedExpr):
            return self.tags(e.value, busy)
        if isinstance(e, ast.Starred):
            return self.tags(e.value, busy)
        if isinstance(e, ast.Await):
            return self.tags(e.value, busy)
        return frozenset()

    def _returns(self, f: FuncLike, busy: T.FrozenSet[str], call: ast.Call, method: bool = False) -> T.FrozenSet[str]:
        """May-alias tags of what a local helper / sibling method returns; a parameter is tainted iff its argument is."""
        if isinstance(f, ast.Lambda):
            return frozenset()
        ps = [a.arg for a in f.args.args]
        if method and ps and ps[0] in ('self', 'cls'):
            ps = ps[1:]
        tainted = [p for p, a in zip(ps, call.args) if 'H' in self.tags(a, busy)]
        tainted += [k.arg for k in call.keywords if k.arg and 'H' in self.tags(k.value, busy)]
        sub = Alias(f, tainted, self.cls_methods, self.depth + 1)
        if not method:
            for k, v in self.defs.items():
                if k not in sub.defs and k not in ps:
                    sub.defs[k] = v
            sub.tainted |= (self.tainted - set(ps))
        out: T.Set[str] = set()
        for n in walk_no_nested(f):
            if isinstance(n, ast.Return) and n.value is not None:
                out |= sub.tags(n.value)
        return frozenset(out)

    # ------------------------------------------------------------------
    def mutations(self) -> T.List[T.Tuple[ast.AST, str]]:
        out: T.List[T.Tuple[ast.AST, str]] = []
        body: T.List[ast.AST] = list(self.fn.body) if not isinstance(self.fn, ast.Lambda) else [self.fn.body]
        for st in body:
            for n in ast.walk(st):
                if isinstance(n, ast.Call) and isinstance(n.func, ast.Attribute) and n.func.attr in MUTATORS and 'H' in self.tags(n.func.value):
                    out.append((n, f'calls the mutator .{n.func.attr}() on `{short(n.func.value, 50)}`, which may be a held value'))
                targets: T.List[ast.AST] = []
                if isinstance(n, ast.Assign):
                    targets = list(n.targets)
                elif isinstance(n, (ast.AugAssign, ast.AnnAssign)):
                    targets = [n.target] if not (isinstance(n, ast.AnnAssign) and n.value is None) else []
                elif isinstance(n, ast.Delete):
                    targets = list(n.targets)
                flat: T.List[ast.AST] = []
                for t in targets:
                    flat.extend(t.elts if isinstance(t, (ast.Tuple, ast.List)) else [t])
                for t in flat:
                    if isinstance(t, ast.Attribute) and t.attr == 'held_object':
                        out.append((n, f'rebinds `{short(t, 50)}`: every name bound to this holder would see another value'))
                    elif isinstance(t, (ast.Subscript, ast.Attribute)) and 'H' in self.tags(t.value):
                        what = 'deletes from' if isinstance(n, ast.Delete) else 'stores into'
                        out.append((n, f'{what} `{short(t.value, 50)}`, which may be a held value'))
                    elif isinstance(n, ast.AugAssign) and isinstance(t, ast.Name) and 'H' in self.tags(t):
                        out.append((n, f'augmented assignment updates `{t.id}` in place, which may be a held value'))
        return out


_POSITIVE = '''
class BadHolder:
    def op_plus(self, other):
        self.held_object += other
        return self.held_object
    def add_method(self, args, kwargs):
        lst = self.held_object
        lst.append(args[0])
        for sub in other_values(kwargs):
            pass
        first = args[0]
        first['k'] = 1
        return lst
'''


def scan_class_functions(mod: Module, clsname: str) -> T.List[T.Tuple[str, FuncLike, T.List[str]]]:
    """[(qualified name, function or lambda, tainted parameter names)] for every method, nested function and table lambda of a class."""
    cls = mod.cls(clsname)
    out: T.List[T.Tuple[str, FuncLike, T.List[str]]] = []
    for st in cls.body:
        if isinstance(st, (ast.FunctionDef, ast.AsyncFunctionDef)):
            ps = [a.arg for a in st.args.args + st.args.kwonlyargs]
            if any(norm(d) == 'staticmethod' for d in st.decorator_list):
                tainted = ps
            else:
                tainted = ps[1:]
            if st.name == '__init__':
                continue
            out.append((f'{clsname}.{st.name}', st, tainted))
        elif isinstance(st, (ast.Assign, ast.AnnAssign)) and st.value is not None:
            from .c01_ops import resolve_impl
            for n in ast.walk(st.value):
                if isinstance(n, ast.Lambda):
                    ps = [a.arg for a in n.args.args]
                    out.append((f'{clsname}.<table lambda>', n, ps[1:]))
                elif isinstance(n, ast.Call) and isinstance(n.func, ast.Name) and mod.has_func(n.func.id):
                    g = resolve_impl(mod, n)
                    if g is not None:
                        ps = [a.arg for a in g.args.args]
                        out.append((f'{clsname}.<table entry {n.func.id}>', g, ps[1:]))
    return out


def _setvar_args(call: T.Any) -> T.Optional[T.Tuple[T.Any, T.Any]]:
    """(name, value) of a self.set_variable(...) call term, bound by position or by keyword (varname, variable)."""
    kw = dict(call[5])
    pos = list(call[4])
    try:
        name = pos[0] if len(pos) > 0 else kw['varname']
        val = pos[1] if len(pos) > 1 else kw['variable']
    except KeyError:
        return None
    return name, val


def r6(ctx: RuleCtx) -> None:
    repo = ctx.repo
    # built-in positive example
    pos = ast.parse(_POSITIVE).body[0]
    found = 0
    for st in pos.body:     # type: ignore[attr-defined]
        found += len(Alias(st, [a.arg for a in st.args.args[1:]]).mutations())
    if found != 3:
        raise Undecided(f'built-in positive example of the mutation scan: {found} of 3 mutations recognised')
    # (a) primitive holders
    nfun = 0
    hits = 0
    for rel in PRIM_FILES:
        mod = repo.module(rel)
        for cname, cls in mod.classes().items():
            if '.' in cname:
                continue
            meths = {s.name: s for s in cls.body if isinstance(s, ast.FunctionDef)}
            for qn, f, tainted in scan_class_functions(mod, cname):
                nfun += 1
                for node, why in Alias(f, tainted, meths).mutations():
                    hits += 1
                    ctx.violation(mod, qn, node, f'{qn} {why}: values are immutable, an operation must build a new value', node)
    ctx.floor('methods / operator lambdas of the primitive holders scanned', nfun, 40)
    if not hits:
        ctx.ok(f'no method, operator or table lambda of the primitive holders ({nfun} functions) mutates a held value or an operand in place')
    # ObjectHolder itself: held_object is bound once, in __init__
    bm = repo.module(BASEOBJ)
    writes = []
    for q, f in bm.funcs().items():
        for n in ast.walk(f):
            if isinstance(n, (ast.Assign, ast.AugAssign, ast.AnnAssign)):
                for t in (n.targets if isinstance(n, ast.Assign) else [n.target]):
                    if isinstance(t, ast.Attribute) and t.attr == 'held_object':
                        writes.append(q)
    extra = [w for w in writes if not _constructor_only(bm, 'ObjectHolder', w)]
    if not writes:
        raise Undecided('no assignment of held_object found in baseobjects.py')
    ctx.require(not extra, 'held_object is bound only by the constructor of ObjectHolder', bm, 'ObjectHolder', f'writers of held_object: {writes}',
                f'held_object is assigned in {extra}, outside the constructor; it must be bound once, by the constructor', bm.cls('ObjectHolder'))
    # (a') the evaluator
    im = repo.module(IB)
    names = [q for q in im.funcs() if q.startswith('InterpreterBase.') and q.count('.') == 1 and
             (q.split('.')[1].startswith('evaluate_') or q.split('.')[1] in ('assignment', 'set_variable', 'get_variable', 'function_call', 'method_call', 'reduce_arguments',
                                                                              'expand_default_kwargs', '_holderify', '_unholder_args'))]
    meths = {s.name: s for s in im.cls('InterpreterBase').body if isinstance(s, ast.FunctionDef)}
    hits = 0
    for q in names:
        for node, why in Alias(im.func(q), [], meths).mutations():
            hits += 1
            ctx.violation(im, q, node, f'{q} {why}', node)
    ctx.floor('evaluator functions scanned', len(names), 12)
    if not hits:
        ctx.ok(f'no evaluator function ({len(names)} of InterpreterBase) mutates an unholdered value in place')
    # the variable table is written by set_variable only (and never shared)
    vwr = []
    for q, f in im.funcs().items():
        for n in ast.walk(f):
            tg: T.List[ast.AST] = []
            if isinstance(n, ast.Assign):
                tg = list(n.targets)
            elif isinstance(n, (ast.AugAssign, ast.AnnAssign)):
                tg = [n.target]
            elif isinstance(n, ast.Delete):
                tg = list(n.targets)
            for t in tg:
                base = t.value if isinstance(t, ast.Subscript) else t
                if attr_chain(base) == 'self.variables':
                    vwr.append(q)
            if isinstance(n, ast.Call) and isinstance(n.func, ast.Attribute) and n.func.attr in MUTATORS and attr_chain(n.func.value) == 'self.variables':
                vwr.append(q)
    others = sorted(w for w in set(vwr) if w != 'InterpreterBase.set_variable' and not _constructor_only(im, 'InterpreterBase', w))
    if 'InterpreterBase.set_variable' not in vwr:
        raise Undecided('InterpreterBase.set_variable does not store into self.variables directly')
    ctx.require(not others, 'InterpreterBase.variables is written only by the constructor and set_variable', im, 'InterpreterBase',
                f'writers of self.variables: {sorted(set(vwr))}', f'self.variables is also written by {others}, bypassing the checks of set_variable', im.cls('InterpreterBase'))
    # (b) += builds a new holder from the operator result
    arms = dispatch_arms(ctx)
    target = arm_method(arms, 'PlusAssignmentNode')
    if target is None:
        raise Undecided('evaluate_statement: arm for PlusAssignmentNode is not a single evaluator call')
    ef = EvalFn(ctx, target)
    n = 0
    for sp in ef.paths:
        if sp.outcome == 'raise':
            continue
        sets = [c for c in sp.calls('self.set_variable')]
        n += 1
        ok = len(sets) == 1
        got = ''
        if ok and _setvar_args(sets[0]) is None:
            raise Undecided(f'{ef.qn}: set_variable call of unknown shape')
        if ok:
            name_t, val_t = _setvar_args(sets[0])       # type: ignore[misc]
            ab = abstract(ef.r(val_t))
            got = fmt(ab)
            ok = isinstance(ab, tuple) and ab[0] == 'HOLD' and ab[1][0] == 'OP' and ab[1][1] == ('name', 'MesonOperator.PLUS') and ab[1][3] == ('UNHOLD', EV('value')) \
                and ab[1][2][0] == 'call' and ab[1][2][1] == 'self.get_variable' and ab[1][2][3] == (abstract(ef.r(name_t)),) and ef.r(name_t) == ('name', 'NODE.var_name.value')
        ctx.require(ok, f'{target}: stores holderify(old.operator_call(PLUS, unholder(eval(value)))) under the same name', ef.mod, ef.qn, f'{target}: set_variable({got})',
                    f'`+=` stores {got or "nothing / several values"}; it must store a new holder built from old + addition under the assigned name', sp.last_node)
    ctx.floor(f'{target}: storing paths', n, 1)
    # (c) assignment copies mutable objects
    target = arm_method(arms, 'AssignmentNode')
    if target is None:
        raise Undecided('evaluate_statement: arm for AssignmentNode is not a single evaluator call')
    ef = EvalFn(ctx, target)
    seen = set()
    for sp in ef.paths:
        if sp.outcome == 'raise':
            continue
        sets = [c for c in sp.calls('self.set_variable')]
        if len(sets) != 1:
            ctx.violation(ef.mod, ef.qn, f'{target}: {len(sets)} stores', f'an assignment path stores {len(sets)} values', sp.last_node)
            continue
        if _setvar_args(sets[0]) is None:
            raise Undecided(f'{ef.qn}: set_variable call of unknown shape')
        val = abstract(ef.r(_setvar_args(sets[0])[1]))      # type: ignore[index]
        mut = None
        for t, v in sp.conds():
            ab = abstract(ef.r(t))
            if ab == ('call', 'isinstance', None, (EV('value'), ('name', 'MutableInterpreterObject')), ()):
                mut = v
        seen.add(mut)
        if mut is True:
            ok = val == ('call', 'copy.deepcopy', None, (EV('value'),), ())
        elif mut is False:
            ok = val == EV('value')
        else:
            ok = False
        ctx.require(ok, f'{target}: {"mutable object -> deep copy stored" if mut else "immutable value -> stored as is"}', ef.mod, ef.qn, f'{target}: mutable={mut} stores {fmt(val)}',
                    f'assignment with isinstance(value, MutableInterpreterObject) = {mut} stores {fmt(val)}; a mutable object must be deep-copied so that the two names do not share state',
                    sp.last_node)
        ctx.require(ef.r(_setvar_args(sets[0])[0]) == ('name', 'NODE.var_name.value'), f'{target}: stored under the assigned name', ef.mod, ef.qn, f'{target}: name {show(_setvar_args(sets[0])[0])}',
                    'assignment stores under another name than the target', sp.last_node)
    ctx.require(seen == {True, False}, f'{target}: both the mutable and the immutable row exist', ef.mod, ef.qn, f'{target}: rows {sorted(map(str, seen))}',
                f'assignment distinguishes mutable objects on rows {sorted(map(str, seen))}', ef.fn)
    # (d) holders whose interpreter-visible methods change the held object are marked mutable
    check_mutable_marker(ctx)


def _constructor_only(mod: Module, cls: str, qn: str) -> bool:
    """`qn` is the constructor of `cls`, or a method of it that is called from the constructor and from nowhere else in the class."""
    if qn == f'{cls}.__init__':
        return True
    if not qn.startswith(cls + '.') or qn.count('.') != 1:
        return False
    name = qn.split('.')[1]
    callers = set()
    for st in mod.cls(cls).body:
        if isinstance(st, ast.FunctionDef):
            for c in ast.walk(st):
                if isinstance(c, ast.Call) and isinstance(c.func, ast.Attribute) and c.func.attr == name and isinstance(c.func.value, ast.Name) and c.func.value.id == 'self':
                    callers.add(st.name)
    return callers == {'__init__'}


def _self_effects(f: ast.FunctionDef) -> bool:
    """Does a method of a held class change `self` (attribute store, item store or mutator on self.<attr>)?"""
    for n in ast.walk(f):
        tg: T.List[ast.AST] = []
        if isinstance(n, ast.Assign):
            tg = list(n.targets)
        elif isinstance(n, (ast.AugAssign, ast.AnnAssign)):
            tg = [n.target]
        elif isinstance(n, ast.Delete):
            tg = list(n.targets)
        for t in tg:
            for x in (t.elts if isinstance(t, (ast.Tuple, ast.List)) else [t]):
                base = x
                while isinstance(base, (ast.Subscript, ast.Attribute)):
                    base = base.value
                if isinstance(base, ast.Name) and base.id == 'self' and x is not base:
                    return True
        if isinstance(n, ast.Call) and isinstance(n.func, ast.Attribute) and n.func.attr in MUTATORS:
            c = attr_chain(n.func.value)
            if c and c.startswith('self.'):
                return True
    return False


HELD_CLASS_FILES = ['mesonbuild/utils/core.py', 'mesonbuild/utils/universal.py', 'mesonbuild/build.py']


def check_mutable_marker(ctx: RuleCtx) -> None:
    repo = ctx.repo
    mod = repo.module(IOBJ)
    held_index: T.Dict[str, T.Tuple[Module, ast.ClassDef]] = {}
    for rel in HELD_CLASS_FILES:
        m = repo.module(rel)
        for cn, c in m.classes().items():
            if '.' not in cn:
                held_index.setdefault(cn, (m, c))
    marked = 0
    unresolved = 0
    for cname, cls in mod.classes().items():
        if '.' in cname:
            continue
        chain = mro_cached(repo, mod, cname)
        if not any(c.name == 'ObjectHolder' for _, c in chain):
            continue
        is_marked = any(c.name == 'MutableInterpreterObject' for _, c in chain)
        held: T.Optional[str] = None
        for _, c in chain:
            for b in c.bases:
                if isinstance(b, ast.Subscript) and (attr_chain(b.value) or '').split('.')[-1] in ('ObjectHolder',):
                    h = attr_chain(b.slice)
                    if h:
                        held = h.split('.')[-1]
            if held:
                break
        changing: T.List[T.Tuple[str, ast.AST, str]] = []
        for st in cls.body:
            if not isinstance(st, ast.FunctionDef):
                continue
            visible = any(isinstance(d, ast.Call) and (attr_chain(d.func) or '').endswith('.method') for d in st.decorator_list)
            if not visible:
                continue
            for n in ast.walk(st):
                # direct change of the held object
                tg: T.List[ast.AST] = []
                if isinstance(n, ast.Assign):
                    tg = list(n.targets)
                elif isinstance(n, (ast.AugAssign, ast.AnnAssign)):
                    tg = [n.target]
                elif isinstance(n, ast.Delete):
                    tg = list(n.targets)
                for t in tg:
                    base = t
                    while isinstance(base, (ast.Subscript, ast.Attribute)):
                        if isinstance(base, ast.Attribute) and attr_chain(base) == 'self.held_object' and base is not t:
                            changing.append((st.name, n, f'stores into {short(t, 60)}'))
                            break
                        base = base.value
                if isinstance(n, ast.Call) and isinstance(n.func, ast.Attribute):
                    recv = attr_chain(n.func.value) or ''
                    if n.func.attr in MUTATORS and recv.startswith('self.held_object.'):
                        changing.append((st.name, n, f'mutates {recv}'))
                    elif recv == 'self.held_object':
                        if held is None or held not in held_index:
                            unresolved += 1
                            continue
                        hm, hc = held_index[held]
                        target = None
                        for _, c in mro_cached(repo, hm, held):
                            for s in c.body:
                                if isinstance(s, ast.FunctionDef) and s.name == n.func.attr:
                                    target = s
                                    break
                            if target is not None:
                                break
                        if target is None:
                            unresolved += 1
                        elif _self_effects(target):
                            changing.append((st.name, n, f'calls {held}.{n.func.attr}(), which changes the object'))
        if changing:
            marked += is_marked
            m0 = changing[0]
            ctx.require(is_marked, f'{cname}: changes its held {held} ({len(changing)} sites, e.g. {m0[0]}: {m0[2]}) and is a MutableInterpreterObject', mod, cname,
                        f'{cname}.{m0[0]} {m0[2]}', f'{cname}.{m0[0]} {m0[2]}, but {cname} does not derive from MutableInterpreterObject: assignment would not copy it and two names would share state',
                        m0[1])
    ctx.floor('holders that change their held object and are marked mutable', marked, 2)
    ctx.note(f'mutable-marker scan: {unresolved} calls on held objects could not be resolved to a method of {HELD_CLASS_FILES} and were not judged')
