"""Regex *structure* facts for the C18 pack (helper; the shared sa.rx answers language questions
about whole patterns only).

* `groups(pattern)`  -> {index: Group(items, optional)} read from the re._parser tree: the sub-tree of
  every capture group and whether the group can be unset (None) in a successful match (it sits under
  a repeat with minimum 0 or inside an alternation).
* `accepts(items, text, prefix=False)` -> can the item list match `text` completely (or a prefix of it);
  a small backtracking matcher over the parsed items, used on short *specification samples* only.
* `digits_bound(items)` -> (lo, hi|None) when the group is a single repeat over a digits-only class.
* `role(items)` -> which TAP field a capture group denotes, decided from its language on samples.
* `line_form(pattern)` -> which TAP line form a whole pattern denotes (roles of its groups + literal
  prefix + specification samples).

Nothing here looks at source text of /repo; the inputs are patterns folded by sa.consteval.
"""
from __future__ import annotations

import re
import typing as T

from ..core import Undecided
from .. import rx
from ..rx import sre_c

_REPEATS = (sre_c.MAX_REPEAT, sre_c.MIN_REPEAT)


def _is_repeat(op: T.Any) -> bool:
    return op in _REPEATS or str(op) == 'POSSESSIVE_REPEAT'


class Group(T.NamedTuple):
    items: T.List[T.Any]
    optional: bool
    anchor: T.Optional[int] = None    # identity of the outermost optional construct the group sits in:
                                      # groups with the same anchor are set / unset together


def groups(pattern: str, flags: int = 0) -> T.Dict[int, Group]:
    out: T.Dict[int, Group] = {}

    counter = [0]

    def fresh() -> int:
        counter[0] += 1
        return counter[0]

    def walk(items: T.Any, anchor: T.Optional[int]) -> None:
        for op, av in items:
            if op is sre_c.SUBPATTERN:
                g, _add, _del, p = av
                if g is not None:
                    out[g] = Group(list(p), anchor is not None, anchor)
                walk(p, anchor)
            elif _is_repeat(op):
                lo, _hi, sub = av
                walk(sub, anchor if anchor is not None or lo > 0 else fresh())
            elif op is sre_c.BRANCH:
                for b in av[1]:
                    walk(b, anchor if anchor is not None else fresh())
            elif op in (sre_c.ASSERT, sre_c.ASSERT_NOT):
                walk(av[1], anchor if anchor is not None else fresh())
            elif str(op) == 'ATOMIC_GROUP':
                walk(av, anchor)
            elif op in (sre_c.GROUPREF, sre_c.GROUPREF_EXISTS):
                raise Undecided(f'regex back-reference in {pattern!r}')
    walk(rx.parse(pattern, flags), None)
    return out


def _is_word(ch: str) -> bool:
    return re.fullmatch(r'\w', ch) is not None


def _match(items: T.List[T.Any], s: str, pos: int, k: T.Callable[[int], bool], ic: bool, depth: int = 0) -> bool:
    if depth > 400:
        raise Undecided('regex sample matcher: recursion too deep')
    if not items:
        return k(pos)
    (op, av), rest = items[0], items[1:]

    def nxt(p: int) -> bool:
        return _match(rest, s, p, k, ic, depth + 1)

    def one(pred: T.Callable[[str], bool]) -> bool:
        return pos < len(s) and pred(s[pos]) and nxt(pos + 1)

    if op is sre_c.LITERAL:
        c = chr(av)
        return one(lambda ch: ch == c or (ic and ch.lower() == c.lower()))
    if op is sre_c.NOT_LITERAL:
        c = chr(av)
        return one(lambda ch: ch != c)
    if op is sre_c.ANY:
        return one(lambda ch: ch != '\n')
    if op is sre_c.IN:
        return one(lambda ch: bool(rx.class_chars(av, [ch], ic)))
    if op is sre_c.CATEGORY:
        return one(lambda ch: bool(rx.class_chars([(sre_c.CATEGORY, av)], [ch], ic)))
    if op is sre_c.SUBPATTERN:
        return _match(list(av[3]), s, pos, nxt, ic, depth + 1)
    if str(op) == 'ATOMIC_GROUP':
        return _match(list(av), s, pos, nxt, ic, depth + 1)
    if op is sre_c.BRANCH:
        return any(_match(list(b), s, pos, nxt, ic, depth + 1) for b in av[1])
    if _is_repeat(op):
        lo, hi, sub = av
        sub = list(sub)
        hi_n = len(s) + 1 if hi is sre_c.MAXREPEAT else hi

        def rep(p: int, n: int) -> bool:
            if n >= lo and nxt(p):
                return True
            if n >= hi_n:
                return False
            return _match(sub, s, p, lambda q: (q > p or n < lo) and rep(q, n + 1), ic, depth + 1)
        return rep(pos, 0)
    if op in (sre_c.ASSERT, sre_c.ASSERT_NOT):
        direction, sub = av
        if direction < 0:
            raise Undecided('regex look-behind outside the subset of the sample matcher')
        ahead = _match(list(sub), s, pos, lambda p: True, ic, depth + 1)
        return ahead == (op is sre_c.ASSERT) and nxt(pos)
    if op is sre_c.AT:
        name = str(av)
        if name in ('AT_BOUNDARY', 'AT_NON_BOUNDARY'):
            a = pos > 0 and _is_word(s[pos - 1])
            b = pos < len(s) and _is_word(s[pos])
            return (a != b) == (name == 'AT_BOUNDARY') and nxt(pos)
        if name in ('AT_BEGINNING', 'AT_BEGINNING_STRING'):
            return pos == 0 and nxt(pos)
        if name in ('AT_END', 'AT_END_STRING'):
            return (pos == len(s) or (name == 'AT_END' and s[pos:] == '\n')) and nxt(pos)
        raise Undecided(f'regex anchor {name}')
    raise Undecided(f'regex construct {op} outside the subset of the sample matcher')


def accepts(items: T.Sequence[T.Any], text: str, prefix: bool = False, ignorecase: bool = False) -> bool:
    end = (lambda p: True) if prefix else (lambda p: p == len(text))
    return _match(list(items), text, 0, end, ignorecase)


def pattern_accepts(pattern: str, text: str, flags: int = 0, prefix: bool = True) -> bool:
    """`re.match` semantics (prefix) decided on the parsed pattern."""
    return accepts(list(rx.parse(pattern, flags)), text, prefix, bool(flags & re.IGNORECASE))


def digits_bound(items: T.Sequence[T.Any]) -> T.Optional[T.Tuple[int, T.Optional[int]]]:
    """(min, max|None=unbounded) if the group is one repeat over a class containing decimal digits only."""
    items = list(items)
    if len(items) != 1 or not _is_repeat(items[0][0]):
        return None
    lo, hi, sub = items[0][1]
    sub = list(sub)
    if len(sub) != 1:
        return None
    op, av = sub[0]
    probe = '0123456789aZ_-+ .#x\n'
    if op is sre_c.IN:
        chars = rx.class_chars(av, probe)
    elif op is sre_c.CATEGORY:
        chars = rx.class_chars([(sre_c.CATEGORY, av)], probe)
    else:
        return None
    if not chars or not chars <= set('0123456789'):
        return None
    return lo, (None if hi is sre_c.MAXREPEAT else hi)


# role recognisers: (accept samples, reject samples); the first recogniser satisfied wins
_ROLE_SAMPLES: T.List[T.Tuple[str, T.List[str], T.List[str]]] = [
    ('status', ['ok', 'not ok'], ['', 'not', 'notok', 'ok ', 'not  ok', 'okay', 'OK', 'nok', '1']),
    ('directive', ['SKIP', 'skip', 'sKiP', 'SKIPPED', 'skip-all', 'TODO', 'todo', 'ToDo'],
     ['', 'SKI', 'TOD', 'TODOS', 'TODO-later', 'todo:', 'TODO(x)', 'FIXME', 'SKIP ME', ' skip', '1']),
    ('indent', [' ', '  ', '\t', ' \t '], ['', 'a', ' a', '-', '1']),
    ('name', ['', 'foo', '- a b ', '1 x'], ['#', 'a#b', 'a # SKIP']),
    ('text', ['', 'foo', 'a#b', '  x  ', '1'], []),
]


def role(items: T.Sequence[T.Any]) -> T.Optional[str]:
    if digits_bound(items) is not None:
        return 'digits'
    for name, acc, rej in _ROLE_SAMPLES:
        if all(accepts(items, a) for a in acc) and not any(accepts(items, r) for r in rej):
            return name
    return None


# TAP line forms (TAP 12/13 specification): literal lead-in, roles of the capture groups in order,
# samples `re.match` must accept / reject.
_FORMS: T.Dict[str, T.Tuple[T.Optional[str], T.List[str], T.List[str], T.List[str]]] = {
    'test': (None, ['status', 'digits', 'name', 'directive', 'text'],
             ['ok', 'not ok', 'ok 1', 'not ok 2 - desc', 'ok 3 # SKIP why', 'not ok 4 - d # TODO', 'ok 5 - d # todo later', 'ok 6 desc'],
             ['', '1..3', 'Bail out!', '# ok', 'TAP version 13', 'nok', '  ...']),
    'plan': ('1..', ['digits', 'directive', 'text'], ['1..0', '1..5', '1..0 # SKIP none', '1..12 # skip', '1..123'],
             ['', 'ok', 'not ok', '2..3', '..3', '1..', '1..x', 'Bail out!']),
    'bailout': ('Bail out!', ['text'], ['Bail out!', 'Bail out! no db'], ['', 'ok', '1..2', 'Bail', '# Bail out!']),
    'version': ('TAP version ', ['digits'], ['TAP version 13', 'TAP version 12', 'TAP version 14'],
                ['', 'ok', 'TAP version', 'TAP version x', '1..2']),
    'yaml_start': (None, ['indent'], ['  ---', ' ---', '  --- x', '\t---'], ['', '---', '  ...', 'ok', '  message: x']),
    'yaml_end': (None, [], ['  ...', ' ...', '  ...  ', '\t...'], ['', '...', '  ---', 'ok', '  message: x']),
}


# The status word of a test line is a word: `ok` / `not ok` is followed by white space, the test number after white space, or the end of the
# line (TAP 12/13: `ok`/`not ok`, then a space and the number, a space and the description; TAP::Parser reads /^(not )?ok\b/).  A line that
# merely starts with the letters `ok` (`okay`, `ok_then`, `ok1`) is no test line - it is an unknown line (TAP 13: an error; TAP 12: ignored).
_STATUS_WORD_REJECT = ['okay', 'not okay', 'ok_then', 'okx 1', 'okay then # SKIP', 'ok1', 'not ok2 - d']
_STATUS_WORD_ACCEPT = ['ok', 'not ok', 'ok 1', 'not ok 2', 'ok - d', 'ok desc', 'ok # SKIP', 'not ok # TODO x', 'ok 7 - d # skip']


def status_word_problems(pattern: str, flags: int = 0) -> T.Tuple[T.List[str], T.List[str]]:
    """(lines starting with ok/not ok + a word character that `re.match` takes for a test line, delimited test lines it refuses)."""
    return ([r for r in _STATUS_WORD_REJECT if pattern_accepts(pattern, r, flags)],
            [a for a in _STATUS_WORD_ACCEPT if not pattern_accepts(pattern, a, flags)])


def status_word_selfcheck() -> None:
    """Built-in positive example: the undelimited status word is seen, the delimited spellings are clean."""
    if status_word_problems(r'((?:not )?ok)\s*([0-9]+)?') != (_STATUS_WORD_REJECT, []):
        raise Undecided('status-word fact: the built-in undelimited example is not recognised')
    for good in (r'((?:not )?ok)\b\s*([0-9]+)?.*', r'((?:not )?ok)(?![\w])\s*([0-9]+)?.*', r'((?:not )?ok)(?:\s+([0-9]+))?(?:\s.*)?$'):
        if status_word_problems(good) != ([], []):
            raise Undecided(f'status-word fact: the built-in delimited example {good!r} is not recognised')


def diagnose(pattern: str, flags: int, kind: str) -> T.List[T.Tuple[str, str]]:
    """Why `pattern` is not the `kind` line form: ('sample', ...) = it contradicts a specification sample
    (a defect of the pattern), ('structure', ...) = its groups are not laid out as this pack expects (cannot tell)."""
    lit, want_roles, acc, rej = _FORMS[kind]
    out: T.List[T.Tuple[str, str]] = []
    for a in acc:
        if not pattern_accepts(pattern, a, flags):
            out.append(('sample', f'does not match the {kind} line {a!r}'))
    for r in rej:
        if pattern_accepts(pattern, r, flags):
            out.append(('sample', f'matches {r!r}, which is not a {kind} line'))
    gs = groups(pattern, flags)
    roles = [role(gs[i].items) for i in sorted(gs)]
    if roles != want_roles:
        # a directive group whose language reaches beyond the directive words (every accept sample of the role is captured, and so is a
        # reject sample) while every other group has its role: a defect of the pattern, not a different layout
        idx = sorted(gs)
        wide: T.List[T.Tuple[int, str]] = []
        if len(roles) == len(want_roles):
            for k, (have, want) in enumerate(zip(roles, want_roles)):
                if have != want:
                    acc_s, rej_s = next((a_, r_) for n_, a_, r_ in _ROLE_SAMPLES if n_ == want) if want == 'directive' else ([], [])
                    hit = [r for r in rej_s if accepts(gs[idx[k]].items, r)] if acc_s and all(accepts(gs[idx[k]].items, a) for a in acc_s) else []
                    if not hit or digits_bound(gs[idx[k]].items) is not None:
                        wide = []
                        break
                    wide.append((idx[k], hit[0]))
        if wide:
            for g, w in wide:
                out.append(('sample', f'captures {w!r} in group {g} (the directive word), which is neither SKIP... nor TODO: such a comment becomes a '
                                      f'directive, and the directive-adjusted status / the invalid-directive Error of parse_test follows from it'))
        out.append(('structure', f'capture groups denote {roles}, expected {want_roles}'))
    lead = rx.literal_prefix(list(rx.parse(pattern, flags)))
    if lit is not None and lead != lit:
        out.append(('structure', f'literal lead-in is {lead!r}, expected {lit!r}'))
    return out


class Form(T.NamedTuple):
    kind: str
    roles: T.Dict[int, str]        # group index -> role
    optional: T.Dict[int, bool]
    bounds: T.Dict[int, T.Tuple[int, T.Optional[int]]]   # digits groups: (min, max|None)
    samples: int
    leader: T.Dict[int, int] = {}  # optional group -> first group of the same optional construct
    names: T.Dict[str, int] = {}   # named groups (?P<name>...) -> index


def line_form(pattern: str, flags: int = 0) -> T.Optional[Form]:
    """The TAP line form a pattern denotes, or None if it is none of the six."""
    gs = groups(pattern, flags)
    idx = sorted(gs)
    roles = [role(gs[i].items) for i in idx]
    tree = list(rx.parse(pattern, flags))
    lead = rx.literal_prefix(tree)
    for kind, (lit, want_roles, acc, rej) in _FORMS.items():
        if roles != want_roles:
            continue
        if lit is not None and lead != lit:
            continue
        if not all(pattern_accepts(pattern, a, flags) for a in acc):
            continue
        if any(pattern_accepts(pattern, r, flags) for r in rej):
            continue
        bounds = {i: digits_bound(gs[i].items) for i in idx if digits_bound(gs[i].items) is not None}
        leader: T.Dict[int, int] = {}
        for i in idx:
            if gs[i].anchor is not None:
                leader[i] = min(j for j in idx if gs[j].anchor == gs[i].anchor)
        names = dict(getattr(getattr(rx.parse(pattern, flags), 'state', None), 'groupdict', {}) or {})
        return Form(kind, dict(zip(idx, want_roles)), {i: gs[i].optional for i in idx}, bounds, len(acc) + len(rej), leader, names)   # type: ignore[arg-type]
    return None


# ---------------------------------------------------------------------------------------------------
# TAP numbers are ASCII decimal digits: the language of a digits group must not reach beyond [0-9]
# ---------------------------------------------------------------------------------------------------
_NON_ASCII_DIGITS = '٢１२௧۳'     # Arabic-Indic 2, fullwidth 1, Devanagari 2, Tamil 1, Extended Arabic-Indic 3


def _class_accepts(op: T.Any, av: T.Any, ch: str, ascii_: bool) -> bool:
    """Does the one-character item (IN / CATEGORY / LITERAL / ANY) accept `ch`; categories follow the ASCII flag in scope."""
    def cat(c: T.Any) -> bool:
        pos = {'CATEGORY_DIGIT': r'\d', 'CATEGORY_NOT_DIGIT': r'\D', 'CATEGORY_SPACE': r'\s', 'CATEGORY_NOT_SPACE': r'\S',
               'CATEGORY_WORD': r'\w', 'CATEGORY_NOT_WORD': r'\W'}
        if str(c) not in pos:
            raise Undecided(f'regex category {c}')
        return re.fullmatch(pos[str(c)], ch, re.ASCII if ascii_ else 0) is not None
    if op is sre_c.CATEGORY:
        return cat(av)
    if op is sre_c.LITERAL:
        return chr(av) == ch
    if op is sre_c.ANY:
        return ch != '\n'
    if op is not sre_c.IN:
        raise Undecided(f'regex construct {op} in a digits group')
    neg = hit = False
    for o2, a2 in av:
        if o2 is sre_c.NEGATE:
            neg = True
        elif o2 is sre_c.LITERAL:
            hit = hit or chr(a2) == ch
        elif o2 is sre_c.RANGE:
            hit = hit or a2[0] <= ord(ch) <= a2[1]
        elif o2 is sre_c.CATEGORY:
            hit = hit or cat(a2)
        else:
            raise Undecided(f'regex class item {o2} in a digits group')
    return hit != neg


def non_ascii_digit_groups(pattern: str, flags: int = 0) -> T.Dict[int, str]:
    """{group index: witness character} for every digits group (see digits_bound) whose class also accepts a character outside
    ASCII 0-9 - `\\d` / `[^\\D]` in a str pattern without the ASCII flag (global, inline `(?a)` or scoped `(?a:...)`), or an explicit
    non-ASCII range.  A regex-language fact; int() converts every Unicode decimal digit, so such a group reads numbers the TAP
    grammar does not contain."""
    tree = rx.parse(pattern, flags)
    glob = flags | int(getattr(getattr(tree, 'state', None), 'flags', 0) or 0)
    out: T.Dict[int, str] = {}

    def probe_of(items: T.Any) -> str:
        extra = ''
        for op, av in items:
            if op is sre_c.IN:
                for o2, a2 in av:
                    if o2 is sre_c.LITERAL and a2 > 127:
                        extra += chr(a2)
                    elif o2 is sre_c.RANGE and a2[1] > 127:
                        extra += chr(max(a2[0], 128)) + chr(a2[1])
            elif op is sre_c.LITERAL and av > 127:
                extra += chr(av)
        return _NON_ASCII_DIGITS + extra

    def walk(items: T.Any, ascii_: bool) -> None:
        for op, av in items:
            if op is sre_c.SUBPATTERN:
                g, add, dele, p = av
                a2 = (ascii_ or bool(add & re.ASCII)) and not bool(dele & re.ASCII)
                if g is not None and digits_bound(list(p)) is not None:
                    sub = list(list(p)[0][1][2])
                    for ch in probe_of(sub):
                        if _class_accepts(sub[0][0], sub[0][1], ch, a2):
                            out[g] = ch
                            break
                walk(p, a2)
            elif _is_repeat(op):
                walk(av[2], ascii_)
            elif op is sre_c.BRANCH:
                for b in av[1]:
                    walk(b, ascii_)
            elif op in (sre_c.ASSERT, sre_c.ASSERT_NOT):
                walk(av[1], ascii_)
            elif str(op) == 'ATOMIC_GROUP':
                walk(av, ascii_)
    walk(tree, bool(glob & re.ASCII))
    return out
