"""Shared rules for the two version classes (mesonlib.Version, cargo.SemVer):
one comparison core (C19.R1) and symmetric ranking keys (C19.R2 / C20.R2)."""
from __future__ import annotations

import ast
import copy
import typing as T

from ..core import Module, Undecided, norm, short, attr_chain, names_in, walk_no_nested
from ..report import RuleCtx
from .. import tables
from .c19_norm import normalise

DUNDER_OP = {'__lt__': 'lt', '__gt__': 'gt', '__le__': 'le', '__ge__': 'ge'}


def one_core(ctx: RuleCtx, mod: Module, cls: str) -> T.Optional[str]:
    """__lt__/__gt__/__le__/__ge__ delegate to one core method with operator.lt/gt/le/ge;
    __eq__/__ne__/__hash__ read the same single field.  Returns the core method name."""
    meths = mod.methods(cls)
    cores: T.Set[str] = set()
    for dunder, op in DUNDER_OP.items():
        if dunder not in meths:
            raise Undecided(f'{cls}.{dunder} not defined (total_ordering or inherited?)')
        fn = meths[dunder]
        tab = tables.extract(normalise(fn), inline=False, name=f'{cls}.{dunder}')
        good = 0
        for r in tab.rows:
            isinst = [(a, v) for a, v in r.conds.items() if a.kind == 'isinstance' and a.args[0] == 'ARG1']
            if r.outcome == ('return', 'NotImplemented'):
                continue
            if r.outcome[0] != 'return':
                if r.outcome[0] == 'raise':
                    raise Undecided(f'{cls}.{dunder}: a row raises {r.outcome}')
                ctx.violation(mod, f'{cls}.{dunder}', r.path.events[-1].node if r.path.events else fn, f'{dunder} can leave by {r.outcome} (returns None instead of a verdict)')
                continue
            ret = ast.parse(r.outcome[1], mode='eval').body
            if not (isinstance(ret, ast.Call) and isinstance(ret.func, ast.Attribute) and attr_chain(ret.func.value) == 'self'):
                raise Undecided(f'{cls}.{dunder}: comparison result is not a call of a core method: {r.outcome[1]}')
            cores.add(ret.func.attr)
            actual = list(ret.args) + [k.value for k in ret.keywords if k.arg is not None]      # positional or keyword: same operands
            if any(isinstance(a, ast.Starred) for a in ret.args) or any(k.arg is None for k in ret.keywords):
                raise Undecided(f'{cls}.{dunder}: cannot bind the arguments of {r.outcome[1]}')
            ops = [attr_chain(a) for a in actual if (attr_chain(a) or '').startswith('operator.')]
            if not ops:
                raise Undecided(f'{cls}.{dunder}: no operator.* function among the arguments of {r.outcome[1]}')
            ctx.require(ops == [f'operator.{op}'], f'{cls}.{dunder} passes operator.{op} to the core', mod, f'{cls}.{dunder}', ret,
                        f'{dunder} must compare with operator.{op}, passes {ops}')
            firsts = [a for a in actual if not (attr_chain(a) or '').startswith('operator.')]
            if len(firsts) != 1:
                raise Undecided(f'{cls}.{dunder}: cannot tell the operand from the comparator in {r.outcome[1]}')
            ctx.require('ARG1' in names_in(firsts[0]), f'{cls}.{dunder} passes the other operand', mod, f'{cls}.{dunder}',
                        ret, f'{dunder} hands `{norm(firsts[0])}` to the core, not the other operand')
            good += 1
            if not any(v for a, v in isinst):
                ctx.note(f'{cls}.{dunder}: a comparing row is not guarded by isinstance(other, {cls})')
        if not good:
            ctx.violation(mod, f'{cls}.{dunder}', fn, f'{dunder} never compares')
    ctx.require(len(cores) == 1, f'{cls}: one comparison core {sorted(cores)}', mod, cls, cls, f'ordering dunders use different cores: {sorted(cores)}')
    # equality / hash are decided on the same single field (read from the decision tables, so `not self == other`,
    # a renamed parameter or an early `return NotImplemented` guard make no difference)
    if '__eq__' not in meths:
        raise Undecided(f'{cls}.__eq__ not defined')

    def eq_atoms(row: tables.Row) -> T.List[T.Tuple[T.Optional[str], bool]]:
        out: T.List[T.Tuple[T.Optional[str], bool]] = []
        for a, v in row.conds.items():
            if a.kind == 'cmp' and a.args[0] == 'eq':
                x, y = sorted(a.args[1:])
                if (x, y) == ('ARG1', 'self'):
                    out.append((None, v))                   # delegates to the other equality operator
                elif x.startswith('ARG1.') and y.startswith('self.') and x[5:] == y[5:]:
                    out.append((x[5:], v))
        return out
    field: T.Optional[str] = None
    for name, positive in (('__eq__', True), ('__ne__', False)):
        if name not in meths:
            continue
        tab = tables.extract(normalise(meths[name]), inline=False, bool_returns=True, name=f'{cls}.{name}')
        n = 0
        for r in tab.rows:
            if r.outcome == ('return', 'NotImplemented'):
                continue
            if r.outcome not in (('return', 'True'), ('return', 'False')):
                raise Undecided(f'{cls}.{name}: cannot read the result of row {r!r}')
            eqs = eq_atoms(r)
            if len(eqs) != 1:
                raise Undecided(f'{cls}.{name}: row {r!r} does not test the equality of exactly one field')
            f, holds = eqs[0]
            if f is None:
                if name == '__eq__':
                    raise Undecided(f'{cls}.__eq__ delegates to another operator')
            elif field is None:
                field = f
            else:
                ctx.require(f == field, f'{cls}.{name} compares field {field}', mod, f'{cls}.{name}', meths[name],
                            f'{name} compares field {f} but __eq__ compares {field}')
            n += 1
            ctx.require((r.outcome[1] == 'True') == (holds == positive), f'{cls}.{name}: {"equal" if holds else "different"} fields -> {holds == positive}', mod,
                        f'{cls}.{name}', r.path.events[-1].node if r.path.events else meths[name],
                        f'{name} returns {r.outcome[1]} when the key fields are {"equal" if holds else "different"}')
        if not n:
            raise Undecided(f'{cls}.{name}: no row compares the key field')
    if '__hash__' in meths and field is not None:
        fs = {n.attr for n in ast.walk(meths['__hash__']) if isinstance(n, ast.Attribute) and isinstance(n.value, ast.Name) and n.value.id == 'self'}
        if not fs:
            raise Undecided(f'{cls}.__hash__: cannot see which field is hashed')
        ctx.require(fs == {field}, f'{cls}.__hash__ reads exactly field {field}', mod, f'{cls}.__hash__', meths['__hash__'],
                    f'__hash__ reads {sorted(fs)} but __eq__ compares {field}')
    if meths.get('__hash__') is None and '__hash__' in [s.targets[0].id for s in mod.cls(cls).body if isinstance(s, ast.Assign) and isinstance(s.targets[0], ast.Name)]:
        ctx.note(f'{cls}: unhashable by declaration')
    return next(iter(cores)) if len(cores) == 1 else None


class _Side(ast.NodeTransformer):
    exact: T.Set[str] = set()     # names that are a *component* themselves (loop targets): `ours.lower()` projects them

    def __init__(self, sides: T.Dict[str, str]):
        self.sides = sides
        self.seen: T.Set[str] = set()
        self.exact = {k for k in sides if k.startswith('=')}
        self.sides = {k.lstrip('='): v for k, v in sides.items()}
        self.exact = {k.lstrip('=') for k in self.exact}

    def visit_Attribute(self, n: ast.Attribute) -> ast.AST:
        c = attr_chain(n)
        if c is not None:
            for k, s in self.sides.items():
                if c.startswith(k + '.') and k in self.exact:
                    continue
                if c == k or c.startswith(k + '.'):
                    self.seen.add(s)
                    return ast.Name(id='@', ctx=ast.Load())
        return self.generic_visit(n)

    def visit_Name(self, n: ast.Name) -> ast.AST:
        if n.id in self.sides:
            self.seen.add(self.sides[n.id])
            return ast.Name(id='@', ctx=ast.Load())
        return n


def core_method(mod: Module, cls: str, core: str) -> T.Tuple[str, T.Any]:
    """(method name, *normalised* function) of the comparison core: locals are resolved by their reaching
    definition, so a hoisted `mine = self._v` reads as `self._v` again."""
    meths = mod.methods(cls)
    name = core if core in meths else f'_{cls}{core}' if f'_{cls}{core}' in meths else core
    if name not in meths:
        raise Undecided(f'{cls}.{core} not found')
    return name, normalise(meths[name])


def zip_operands(mod: Module, cls: str, core: str) -> T.Tuple[str, str, str]:
    """(own field chain `self.<field>`, text of the other operand, name of the `other` parameter) of the
    component loop `for a, b in zip(<own>, <theirs>)` of the core, read on the normalised core."""
    name, fn = core_method(mod, cls, core)
    params = [a.arg for a in fn.args.args]
    if len(params) != 3:
        raise Undecided(f'{cls}.{name}: expected (self, other, comparator)')
    other = params[1]
    loops = [s for s in fn.body if isinstance(s, ast.For)]
    if len(loops) != 1 or not (isinstance(loops[0].iter, ast.Call) and norm(loops[0].iter.func) == 'zip' and len(loops[0].iter.args) == 2):
        raise Undecided(f'{cls}.{name}: component loop is not `for a, b in zip(x, y)`')
    own = [attr_chain(a) for a in loops[0].iter.args if 'self' in names_in(a) and other not in names_in(a)]
    theirs = [norm(a) for a in loops[0].iter.args if other in names_in(a) and 'self' not in names_in(a)]
    if len(own) != 1 or own[0] is None or not own[0].startswith('self.') or len(theirs) != 1:
        raise Undecided(f'{cls}.{name}: cannot attribute the zip operands')
    return own[0], theirs[0], other


def ranking_keys(ctx: RuleCtx, mod: Module, cls: str, core: str) -> T.List[T.Tuple[str, str]]:
    """Extract [(projection, direction)] from the core comparison method.

    Every return must be comparator(f(a), f(b)) with the same projection f on both
    sides; (ours, theirs) = ascending, (theirs, ours) = descending."""
    meths = mod.methods(cls)
    name = core if core in meths else f'_{cls}{core}' if f'_{cls}{core}' in meths else core
    if name not in meths:
        raise Undecided(f'{cls}.{core} not found')
    # locals are resolved by their reaching definition first (hoisted `a = self._v`, renamed flags)
    fn = normalise(meths[name])
    qn = f'{cls}.{name}'
    params = [a.arg for a in fn.args.args]
    if len(params) != 3:
        raise Undecided(f'{qn}: expected (self, other, comparator)')
    other, comparator = params[1], params[2]
    loops = [s for s in fn.body if isinstance(s, ast.For)]
    if len(loops) != 1:
        raise Undecided(f'{qn}: expected exactly one component loop')
    loop = loops[0]
    it = loop.iter
    if not (isinstance(it, ast.Call) and norm(it.func) == 'zip' and len(it.args) == 2 and isinstance(loop.target, ast.Tuple) and len(loop.target.elts) == 2):
        raise Undecided(f'{qn}: component loop is not `for a, b in zip(x, y)`')
    sides: T.Dict[str, str] = {'self': 'ours', other: 'theirs', 'ARG1': 'theirs'}
    for arg, tgt in zip(it.args, loop.target.elts):
        rd = names_in(arg)
        if 'self' in rd and other not in rd:
            sides['=' + tgt.id] = 'ours'      # type: ignore[attr-defined]
        elif other in rd and 'self' not in rd:
            sides['=' + tgt.id] = 'theirs'    # type: ignore[attr-defined]
        else:
            raise Undecided(f'{qn}: cannot attribute zip argument {short(arg)} to one operand')
    ctx.require({sides['=' + t.id] for t in loop.target.elts} == {'ours', 'theirs'}, f'{qn}: loop pairs our components with theirs', mod, qn, loop.iter,  # type: ignore[attr-defined]
                'the component loop does not pair the two operands')

    def key_of(call: ast.AST, where: str) -> T.Optional[T.Tuple[str, str]]:
        if not (isinstance(call, ast.Call) and norm(call.func) in (comparator, 'ARG2') and len(call.args) == 2):
            raise Undecided(f'{qn}: {where}: cannot read the result {short(call)} as comparator(x, y)')
        a, b = copy.deepcopy(call.args[0]), copy.deepcopy(call.args[1])
        sa, sb = _Side(sides), _Side(sides)
        ta, tb = norm(sa.visit(a)), norm(sb.visit(b))
        if len(sa.seen) != 1 or len(sb.seen) != 1 or sa.seen == sb.seen:
            ctx.violation(mod, qn, call, f'{where}: the two comparator arguments do not come one from each operand')
            return None
        if ta != tb:
            ctx.violation(mod, qn, call, f'{where}: different projections on the two sides: {ta} vs {tb}')
            return None
        ctx.ok(f'{qn}: {where}: symmetric projection {ta}')
        return ta, ('asc' if sa.seen == {'ours'} else 'desc')

    keys: T.List[T.Tuple[str, str]] = []
    key_atoms: T.List[tables.Atom] = []
    tab = tables.extract(fn, body=loop.body, name=qn + ':loop')
    for r in tab.rows:
        if r.outcome[0] in ('fall', 'continue'):
            continue
        if r.outcome[0] != 'return':
            raise Undecided(f'{qn}: a loop row leaves by {r.outcome}')
        call = ast.parse(r.outcome[1], mode='eval').body
        k = key_of(call, f'loop row {r!r}'[:150])
        if k is None:
            continue
        # the atom "the two projections are equal", and every consistent world of the table's atoms (ordering trichotomy etc.)
        e_atom = tables.canon(ast.Compare(left=call.args[0], ops=[ast.Eq()], comparators=[call.args[1]]), True)[0]   # type: ignore[attr-defined]
        fires_equal: T.Optional[T.Dict[tables.Atom, bool]] = None
        fires_early: T.Optional[T.Dict[tables.Atom, bool]] = None
        early_key = ''
        for w in tab.worlds([e_atom] + key_atoms):
            if r not in tab.fire(w):
                continue
            if w.get(e_atom):
                fires_equal = w
            for (pk, _), pa in zip(keys, key_atoms):
                if pa != e_atom and w.get(pa) is False:
                    fires_early, early_key = w, pk
        ctx.require(fires_equal is None, f'{qn}: key {k[0]} is returned exactly when the two projections differ', mod, qn, r.path.events[-1].node,
                    f'the row returning the {k[0]} comparison is also taken when {k[0]}(ours) == {k[0]}(theirs) (the loop stops at the first component): {r!r}')
        ctx.require(fires_early is None, f'{qn}: key {k[0]} is consulted only when the earlier keys are equal', mod, qn, r.path.events[-1].node,
                    f'key {k[0]} is compared although the earlier key {early_key} may differ: {r!r}')
        if k not in keys:
            keys.append(k)
            key_atoms.append(e_atom)
    after = fn.body[fn.body.index(loop) + 1:]
    rets = [s for s in after if isinstance(s, ast.Return)]
    if len(rets) != 1 or len(after) != 1:
        raise Undecided(f'{qn}: expected a single return after the component loop')
    k = key_of(rets[0].value, 'after the loop')
    if k is not None:
        keys.append(k)
    return keys
