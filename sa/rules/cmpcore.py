"""Shared rules for the two version classes (mesonlib.Version, cargo.SemVer):
one comparison core (C19.R1) and symmetric ranking keys (C19.R2 / C20.R2)."""
from __future__ import annotations

import ast
import copy
import typing as T

from ..core import Module, Undecided, norm, short, attr_chain, names_in, walk_no_nested
from ..report import RuleCtx
from .. import tables
from .c19_norm import normalise

DUNDER_OP = {'__lt__': 'lt', '__gt__': 'gt', '__le__': 'le', '__ge__': 'ge'}


def one_core(ctx: RuleCtx, mod: Module, cls: str) -> T.Optional[str]:
    """__lt__/__gt__/__le__/__ge__ delegate to one core method with operator.lt/gt/le/ge;
    __eq__/__ne__/__hash__ read the same single field.  Returns the core method name."""
    meths = mod.methods(cls)
    cores: T.Set[str] = set()
    for dunder, op in DUNDER_OP.items():
        if dunder not in meths:
            raise Undecided(f'{cls}.{dunder} not defined (total_ordering or inherited?)')
        fn = meths[dunder]
        tab = tables.extract(fn, name=f'{cls}.{dunder}')
        good = 0
        for r in tab.rows:
            isinst = [(a, v) for a, v in r.conds.items() if a.kind == 'isinstance' and a.args[0] == 'ARG1']
            if r.outcome == ('return', 'NotImplemented'):
                continue
            if r.outcome[0] != 'return':
                ctx.violation(mod, f'{cls}.{dunder}', r.path.events[-1].node if r.path.events else fn, f'{dunder} can leave by {r.outcome}')
                continue
            ret = ast.parse(r.outcome[1], mode='eval').body
            if not (isinstance(ret, ast.Call) and isinstance(ret.func, ast.Attribute) and attr_chain(ret.func.value) == 'self'):
                raise Undecided(f'{cls}.{dunder}: comparison result is not a call of a core method: {r.outcome[1]}')
            cores.add(ret.func.attr)
            ops = [attr_chain(a) for a in ret.args if (attr_chain(a) or '').startswith('operator.')]
            ctx.require(ops == [f'operator.{op}'], f'{cls}.{dunder} passes operator.{op} to the core', mod, f'{cls}.{dunder}', ret,
                        f'{dunder} must compare with operator.{op}, passes {ops}')
            firsts = [a for a in ret.args if not (attr_chain(a) or '').startswith('operator.')]
            ctx.require(len(firsts) == 1 and 'ARG1' in names_in(firsts[0]), f'{cls}.{dunder} passes the other operand', mod, f'{cls}.{dunder}',
                        ret, f'{dunder} does not hand the other operand to the core')
            good += 1
            if not any(v for a, v in isinst):
                ctx.note(f'{cls}.{dunder}: a comparing row is not guarded by isinstance(other, {cls})')
        if not good:
            ctx.violation(mod, f'{cls}.{dunder}', fn, f'{dunder} never compares')
    ctx.require(len(cores) == 1, f'{cls}: one comparison core {sorted(cores)}', mod, cls, cls, f'ordering dunders use different cores: {sorted(cores)}')
    # equality / hash read the same field
    fields: T.Dict[str, T.Set[str]] = {}
    for name in ('__eq__', '__ne__', '__hash__'):
        if name not in meths:
            continue
        fs = set()
        for n in ast.walk(meths[name]):
            if isinstance(n, ast.Attribute) and isinstance(n.value, ast.Name) and n.value.id in ('self', 'other'):
                fs.add(n.attr)
        fields[name] = fs
    if '__eq__' not in fields:
        raise Undecided(f'{cls}.__eq__ not defined')
    for name, fs in fields.items():
        ctx.require(fs == fields['__eq__'] and len(fs) == 1, f'{cls}.{name} reads exactly field {sorted(fields["__eq__"])}', mod, f'{cls}.{name}',
                    meths[name], f'{name} reads {sorted(fs)} but __eq__ reads {sorted(fields["__eq__"])}')
    # __eq__ True <-> fields equal; __ne__ is its negation
    for name, want in (('__eq__', ast.Eq), ('__ne__', ast.NotEq)):
        if name not in meths:
            continue
        cmps = [n for n in ast.walk(meths[name]) if isinstance(n, ast.Compare) and len(n.ops) == 1
                and {attr_chain(n.left) or '', attr_chain(n.comparators[0]) or ''} == {f'self.{next(iter(fields["__eq__"]))}', f'other.{next(iter(fields["__eq__"]))}'}]
        ctx.require(len(cmps) == 1 and isinstance(cmps[0].ops[0], want), f'{cls}.{name} compares the field with {want.__name__}', mod,
                    f'{cls}.{name}', meths[name], f'{name} does not compare the key field with {want.__name__}')
    if meths.get('__hash__') is None and '__hash__' in [s.targets[0].id for s in mod.cls(cls).body if isinstance(s, ast.Assign) and isinstance(s.targets[0], ast.Name)]:
        ctx.note(f'{cls}: unhashable by declaration')
    return next(iter(cores)) if len(cores) == 1 else None


class _Side(ast.NodeTransformer):
    exact: T.Set[str] = set()     # names that are a *component* themselves (loop targets): `ours.lower()` projects them

    def __init__(self, sides: T.Dict[str, str]):
        self.sides = sides
        self.seen: T.Set[str] = set()
        self.exact = {k for k in sides if k.startswith('=')}
        self.sides = {k.lstrip('='): v for k, v in sides.items()}
        self.exact = {k.lstrip('=') for k in self.exact}

    def visit_Attribute(self, n: ast.Attribute) -> ast.AST:
        c = attr_chain(n)
        if c is not None:
            for k, s in self.sides.items():
                if c.startswith(k + '.') and k in self.exact:
                    continue
                if c == k or c.startswith(k + '.'):
                    self.seen.add(s)
                    return ast.Name(id='@', ctx=ast.Load())
        return self.generic_visit(n)

    def visit_Name(self, n: ast.Name) -> ast.AST:
        if n.id in self.sides:
            self.seen.add(self.sides[n.id])
            return ast.Name(id='@', ctx=ast.Load())
        return n


def ranking_keys(ctx: RuleCtx, mod: Module, cls: str, core: str) -> T.List[T.Tuple[str, str]]:
    """Extract [(projection, direction)] from the core comparison method.

    Every return must be comparator(f(a), f(b)) with the same projection f on both
    sides; (ours, theirs) = ascending, (theirs, ours) = descending."""
    meths = mod.methods(cls)
    name = core if core in meths else f'_{cls}{core}' if f'_{cls}{core}' in meths else core
    if name not in meths:
        raise Undecided(f'{cls}.{core} not found')
    # locals are resolved by their reaching definition first (hoisted `a = self._v`, renamed flags)
    fn = normalise(meths[name])
    qn = f'{cls}.{name}'
    params = [a.arg for a in fn.args.args]
    if len(params) != 3:
        raise Undecided(f'{qn}: expected (self, other, comparator)')
    other, comparator = params[1], params[2]
    loops = [s for s in fn.body if isinstance(s, ast.For)]
    if len(loops) != 1:
        raise Undecided(f'{qn}: expected exactly one component loop')
    loop = loops[0]
    it = loop.iter
    if not (isinstance(it, ast.Call) and norm(it.func) == 'zip' and len(it.args) == 2 and isinstance(loop.target, ast.Tuple) and len(loop.target.elts) == 2):
        raise Undecided(f'{qn}: component loop is not `for a, b in zip(x, y)`')
    sides: T.Dict[str, str] = {'self': 'ours', other: 'theirs', 'ARG1': 'theirs'}
    for arg, tgt in zip(it.args, loop.target.elts):
        rd = names_in(arg)
        if 'self' in rd and other not in rd:
            sides['=' + tgt.id] = 'ours'      # type: ignore[attr-defined]
        elif other in rd and 'self' not in rd:
            sides['=' + tgt.id] = 'theirs'    # type: ignore[attr-defined]
        else:
            raise Undecided(f'{qn}: cannot attribute zip argument {short(arg)} to one operand')
    ctx.require({sides['=' + t.id] for t in loop.target.elts} == {'ours', 'theirs'}, f'{qn}: loop pairs our components with theirs', mod, qn, loop.iter,  # type: ignore[attr-defined]
                'the component loop does not pair the two operands')

    def key_of(call: ast.AST, where: str) -> T.Optional[T.Tuple[str, str]]:
        if not (isinstance(call, ast.Call) and norm(call.func) in (comparator, 'ARG2') and len(call.args) == 2):
            ctx.violation(mod, qn, call, f'{where}: result is not comparator(x, y)')
            return None
        a, b = copy.deepcopy(call.args[0]), copy.deepcopy(call.args[1])
        sa, sb = _Side(sides), _Side(sides)
        ta, tb = norm(sa.visit(a)), norm(sb.visit(b))
        if len(sa.seen) != 1 or len(sb.seen) != 1 or sa.seen == sb.seen:
            ctx.violation(mod, qn, call, f'{where}: the two comparator arguments do not come one from each operand')
            return None
        if ta != tb:
            ctx.violation(mod, qn, call, f'{where}: different projections on the two sides: {ta} vs {tb}')
            return None
        ctx.ok(f'{qn}: {where}: symmetric projection {ta}')
        return ta, ('asc' if sa.seen == {'ours'} else 'desc')

    keys: T.List[T.Tuple[str, str]] = []
    tab = tables.extract(fn, body=loop.body, name=qn + ':loop')
    for r in tab.rows:
        if r.outcome[0] in ('fall', 'continue'):
            continue
        if r.outcome[0] != 'return':
            ctx.violation(mod, qn, r.path.events[-1].node, f'loop row leaves by {r.outcome}')
            continue
        k = key_of(ast.parse(r.outcome[1], mode='eval').body, f'loop row {r!r}'[:150])
        if k is None:
            continue
        # the guard of the row must be the inequality of the same projection
        true_atoms = [(a, v) for a, v in r.conds.items()]
        last_atom, last_val = true_atoms[-1] if true_atoms else (None, None)
        guard_ok = False
        if last_atom is not None and last_atom.kind == 'cmp' and last_atom.args[0] == 'eq' and last_val is False:
            ga, gb = (ast.parse(x, mode='eval').body for x in last_atom.args[1:])
            s1, s2 = _Side(sides), _Side(sides)
            t1, t2 = norm(s1.visit(ga)), norm(s2.visit(gb))
            guard_ok = t1 == t2 == k[0] and s1.seen != s2.seen
        ctx.require(guard_ok, f'{qn}: key {k[0]} is returned exactly when the two projections differ', mod, qn, r.path.events[-1].node,
                    f'the row returning the {k[0]} comparison is not guarded by `{k[0]}(ours) != {k[0]}(theirs)`: {r!r}')
        # earlier keys must be known equal on this row
        for pk, _ in keys:
            eq_known = any(a.kind == 'cmp' and a.args[0] == 'eq' and v is True and
                           norm(_Side(sides).visit(ast.parse(a.args[1], mode='eval').body)) == pk for a, v in r.conds.items())
            ctx.require(eq_known, f'{qn}: key {k[0]} is consulted only when {pk} is equal', mod, qn, r.path.events[-1].node,
                        f'key {k[0]} is compared although the earlier key {pk} may differ')
        keys.append(k)
    after = fn.body[fn.body.index(loop) + 1:]
    rets = [s for s in after if isinstance(s, ast.Return)]
    if len(rets) != 1 or len(after) != 1:
        raise Undecided(f'{qn}: expected a single return after the component loop')
    k = key_of(rets[0].value, 'after the loop')
    if k is not None:
        keys.append(k)
    return keys
