"""Shared rules for the two version classes (mesonlib.Version, cargo.SemVer):
one comparison core (C19.R1) and symmetric ranking keys (C19.R2 / C20.R2)."""
from __future__ import annotations

import ast
import copy
import typing as T

from ..core import Module, Undecided, norm, short, attr_chain, names_in, walk_no_nested
from ..report import RuleCtx
from .. import tables
from .c19_norm import normalise, normal_form

DUNDER_OP = {'__lt__': 'lt', '__gt__': 'gt', '__le__': 'le', '__ge__': 'ge'}


def class_methods(mod: Module, cls: str) -> T.Dict[str, T.Any]:
    """The methods of `cls` by name, including those that the class body *generates*: `__lt__ = _template(operator.lt)`
    where `_template(p..)` is a function of the class body that defines one nested function and returns it (the nested
    function with the template's parameters replaced by the arguments), and plain aliases `a = b` of methods."""
    meths: T.Dict[str, T.Any] = dict(mod.methods(cls))
    body = mod.cls(cls).body
    local = {st.name: st for st in body if isinstance(st, (ast.FunctionDef, ast.AsyncFunctionDef))}
    for st in body:
        if not (isinstance(st, ast.Assign) and all(isinstance(t, ast.Name) for t in st.targets)):
            continue
        made: T.Optional[T.Any] = None
        v = st.value
        if isinstance(v, ast.Name) and v.id in local:
            made = local[v.id]
        elif isinstance(v, ast.Call) and isinstance(v.func, ast.Name) and v.func.id in local and not any(isinstance(a, ast.Starred) for a in v.args) \
                and all(k.arg is not None for k in v.keywords):
            tmpl = local[v.func.id]
            inner = [x for x in tmpl.body if isinstance(x, (ast.FunctionDef, ast.AsyncFunctionDef))]
            rest = [x for x in tmpl.body if not isinstance(x, (ast.FunctionDef, ast.AsyncFunctionDef)) and not (isinstance(x, ast.Expr) and isinstance(x.value, ast.Constant))]
            params = [a.arg for a in tmpl.args.posonlyargs + tmpl.args.args]
            if len(inner) == 1 and len(rest) == 1 and isinstance(rest[0], ast.Return) and isinstance(rest[0].value, ast.Name) and rest[0].value.id == inner[0].name \
                    and not tmpl.args.vararg and not tmpl.args.kwarg and len(v.args) <= len(params) and not inner[0].decorator_list:
                bound = dict(zip(params, v.args))
                bound.update({k.arg: k.value for k in v.keywords if k.arg in params})        # type: ignore[misc]
                shadow = {a.arg for a in inner[0].args.posonlyargs + inner[0].args.args + inner[0].args.kwonlyargs}
                stores = {n.id for n in ast.walk(inner[0]) if isinstance(n, ast.Name) and isinstance(n.ctx, (ast.Store, ast.Del))}
                if set(bound) == set(params) and not (set(params) & (shadow | stores)):
                    made = copy.deepcopy(inner[0])
                    made.body = [tables._Subst(dict(bound)).visit(x) for x in made.body]      # type: ignore[attr-defined]
        if made is not None:
            for t in st.targets:
                m2 = copy.copy(made)
                m2.name = t.id          # type: ignore[attr-defined]
                meths[t.id] = m2        # type: ignore[attr-defined]
    return meths


class CoreInfo(T.NamedTuple):
    name: str                 # method name (as written in the class) or module-level function name
    fn: T.Any                 # the FunctionDef
    is_method: bool
    ours: str                 # parameter that receives (a part of) self
    theirs: str               # parameter that receives (a part of) the other operand
    comparator: str           # parameter that receives operator.xx
    ours_actual: str          # what the dunders pass for `ours`   ('self' or e.g. 'self._v')
    theirs_actual: str        # what the dunders pass for `theirs` ('ARG1' or e.g. 'ARG1._v'; ARG1 = the other operand)


def _bind_core_call(mod: Module, cls: str, call: ast.Call) -> T.Optional[T.Tuple[str, T.Any, bool, T.Dict[str, ast.AST]]]:
    """Resolve the callee of a dunder's comparing call and bind the arguments to its parameters by signature.
    Forms: `self.m(..)`, `Cls.m(self, ..)`, module-level `f(..)` (E2 of the catalogue).  None: not such a call."""
    meths = class_methods(mod, cls)
    f = call.func
    recv: T.Optional[ast.AST] = None
    if isinstance(f, ast.Attribute) and attr_chain(f.value) == 'self':
        name = f.attr if f.attr in meths else f'_{cls}{f.attr}' if f'_{cls}{f.attr}' in meths else None
        if name is None:
            return None
        fn, is_method, recv = meths[name], True, f.value
        shown = f.attr
    elif isinstance(f, ast.Attribute) and attr_chain(f.value) == cls and (f.attr in meths or f'_{cls}{f.attr}' in meths):
        fn, is_method = meths[f.attr if f.attr in meths else f'_{cls}{f.attr}'], True
        shown = f.attr
    elif isinstance(f, ast.Name) and mod.has_func(f.id):
        fn, is_method, shown = mod.func(f.id), False, f.id
    else:
        return None
    a = fn.args
    if a.vararg or a.kwarg or any(isinstance(x, ast.Starred) for x in call.args) or any(k.arg is None for k in call.keywords):
        return None
    params = [p.arg for p in a.posonlyargs + a.args]
    bound: T.Dict[str, ast.AST] = {}
    pos = list(call.args)
    if recv is not None:
        bound[params[0]] = recv
        names = params[1:]
    else:
        names = params
    if len(pos) > len(names):
        return None
    for pn, x in zip(names, pos):
        bound[pn] = x
    for k in call.keywords:
        if k.arg in bound or k.arg not in params + [p.arg for p in a.kwonlyargs]:
            return None
        bound[k.arg] = k.value          # type: ignore[index]
    return shown, fn, is_method, bound


def core_info(mod: Module, cls: str, ctx: T.Optional[RuleCtx] = None) -> CoreInfo:
    """The comparison core of `cls`, found by role: what the four ordering dunders call with operator.lt/gt/le/ge.
    With `ctx`, the obligations of C19.R1 (right operator per dunder, other operand handed over, one core) are emitted."""
    meths = class_methods(mod, cls)
    infos: T.Dict[str, CoreInfo] = {}
    for dunder, op in DUNDER_OP.items():
        if dunder not in meths:
            raise Undecided(f'{cls}.{dunder} not defined (total_ordering or inherited?)')
        fn = meths[dunder]
        tab = tables.extract(normalise(fn), inline=False, name=f'{cls}.{dunder}')
        good = 0
        for r in tab.rows:
            if r.outcome == ('return', 'NotImplemented'):
                continue
            if r.outcome[0] != 'return':
                if r.outcome[0] == 'raise':
                    raise Undecided(f'{cls}.{dunder}: a row raises {r.outcome}')
                if ctx is not None:
                    ctx.violation(mod, f'{cls}.{dunder}', r.path.events[-1].node if r.path.events else fn, f'{dunder} can leave by {r.outcome} (returns None instead of a verdict)')
                continue
            ret = ast.parse(r.outcome[1], mode='eval').body
            three_way: T.Optional[str] = None
            if isinstance(ret, ast.Compare) and len(ret.ops) == 1:
                # `core(..) < 0`: the core answers negative / zero / positive and the dunder compares that with 0
                l0, r0 = ret.left, ret.comparators[0]
                names3 = {ast.Lt: 'lt', ast.Gt: 'gt', ast.LtE: 'le', ast.GtE: 'ge'}
                mirror = {'lt': 'gt', 'gt': 'lt', 'le': 'ge', 'ge': 'le'}
                if type(ret.ops[0]) in names3 and isinstance(r0, ast.Constant) and r0.value == 0 and isinstance(l0, ast.Call):
                    three_way, ret = names3[type(ret.ops[0])], l0
                elif type(ret.ops[0]) in names3 and isinstance(l0, ast.Constant) and l0.value == 0 and isinstance(r0, ast.Call):
                    three_way, ret = mirror[names3[type(ret.ops[0])]], r0
            res = _bind_core_call(mod, cls, ret) if isinstance(ret, ast.Call) else None
            if res is None:
                raise Undecided(f'{cls}.{dunder}: comparison result is not a call of a core method/function: {r.outcome[1]}')
            shown, cfn, is_method, bound = res
            opsp = [pn for pn, x in bound.items() if (attr_chain(x) or '').startswith('operator.')]
            oursp = [pn for pn, x in bound.items() if pn not in opsp and 'self' in names_in(x) and 'ARG1' not in names_in(x)]
            theirsp = [pn for pn, x in bound.items() if pn not in opsp and 'ARG1' in names_in(x) and 'self' not in names_in(x)]
            rest = [pn for pn in bound if pn not in opsp + oursp + theirsp]
            if three_way is not None:
                if opsp or rest or len(oursp) + len(theirsp) != 2:
                    raise Undecided(f'{cls}.{dunder}: cannot read the three-way call in {r.outcome[1]}')
                if ctx is not None:
                    ctx.require(three_way == op, f'{cls}.{dunder} compares the three-way result of the core with 0 by `{op}`', mod, f'{cls}.{dunder}', ret,
                                f'{dunder} must test the three-way result with `{op} 0`, tests it with `{three_way} 0`: {r.outcome[1]}')
                opsp = ['']
            elif len(opsp) != 1 or rest or len(oursp) + len(theirsp) != 2:
                raise Undecided(f'{cls}.{dunder}: cannot tell the operands from the comparator in {r.outcome[1]}')
            elif ctx is not None:
                ctx.require(attr_chain(bound[opsp[0]]) == f'operator.{op}', f'{cls}.{dunder} passes operator.{op} to the core', mod, f'{cls}.{dunder}', ret,
                            f'{dunder} must compare with operator.{op}, passes {attr_chain(bound[opsp[0]])}')
            if len(theirsp) != 1:
                # both operand slots receive the same operand: positive evidence that the other one is not compared
                if ctx is not None:
                    ctx.violation(mod, f'{cls}.{dunder}', ret, f'{dunder} hands {"self" if oursp else "the other operand"} to both operand slots of the core: {r.outcome[1]}')
                continue
            good += 1
            infos[dunder] = CoreInfo(shown, cfn, is_method, oursp[0], theirsp[0], opsp[0], norm(bound[oursp[0]]), norm(bound[theirsp[0]]))
            if ctx is not None and not any(v for a, v in r.conds.items() if a.kind == 'isinstance' and a.args[0] == 'ARG1'):
                ctx.note(f'{cls}.{dunder}: a comparing row is not guarded by isinstance(other, {cls})')
        if not good and ctx is not None:
            ctx.violation(mod, f'{cls}.{dunder}', fn, f'{dunder} never compares')
    if not infos:
        raise Undecided(f'{cls}: no ordering dunder compares')
    distinct = {(i.name, i.ours, i.theirs, i.comparator, i.ours_actual, i.theirs_actual) for i in infos.values()}
    if ctx is not None:
        ctx.require(len({i.name for i in infos.values()}) == 1, f'{cls}: one comparison core {sorted({i.name for i in infos.values()})}', mod, cls, cls,
                    f'ordering dunders use different cores: {sorted({i.name for i in infos.values()})}')
        if len({i.name for i in infos.values()}) == 1:
            ctx.require(len(distinct) == 1, f'{cls}: the dunders hand the operands to the core in the same way', mod, cls, cls + ' operands',
                        f'the ordering dunders bind the operands of the core differently: {sorted(distinct)}')
    if len(distinct) != 1:
        raise Undecided(f'{cls}: the ordering dunders do not call one core in one way: {sorted(distinct)}')
    return next(iter(infos.values()))


def one_core(ctx: RuleCtx, mod: Module, cls: str) -> T.Optional[str]:
    """__lt__/__gt__/__le__/__ge__ delegate to one core method with operator.lt/gt/le/ge;
    __eq__/__ne__/__hash__ read the same single field.  Returns the core method name."""
    meths = class_methods(mod, cls)
    info = core_info(mod, cls, ctx)
    # equality / hash are decided on the same single field (read from the decision tables, so `not self == other`,
    # a renamed parameter or an early `return NotImplemented` guard make no difference)
    if '__eq__' not in meths:
        raise Undecided(f'{cls}.__eq__ not defined')

    def eq_atoms(row: tables.Row) -> T.List[T.Tuple[T.Optional[str], bool]]:
        out: T.List[T.Tuple[T.Optional[str], bool]] = []
        for a, v in row.conds.items():
            if a.kind == 'cmp' and a.args[0] == 'eq':
                x, y = sorted(a.args[1:])
                if (x, y) == ('ARG1', 'self'):
                    out.append((None, v))                   # delegates to the other equality operator
                elif x.startswith('ARG1.') and y.startswith('self.') and x[5:] == y[5:]:
                    out.append((x[5:], v))
        return out
    field: T.Optional[str] = None
    for name, positive in (('__eq__', True), ('__ne__', False)):
        if name not in meths:
            continue
        tab = tables.extract(normalise(meths[name]), inline=False, bool_returns=True, name=f'{cls}.{name}')
        n = 0
        for r in tab.rows:
            if r.outcome == ('return', 'NotImplemented'):
                continue
            if r.outcome not in (('return', 'True'), ('return', 'False')):
                raise Undecided(f'{cls}.{name}: cannot read the result of row {r!r}')
            eqs = eq_atoms(r)
            if len(eqs) != 1:
                raise Undecided(f'{cls}.{name}: row {r!r} does not test the equality of exactly one field')
            f, holds = eqs[0]
            if f is None:
                if name == '__eq__':
                    raise Undecided(f'{cls}.__eq__ delegates to another operator')
            elif field is None:
                field = f
            else:
                ctx.require(f == field, f'{cls}.{name} compares field {field}', mod, f'{cls}.{name}', meths[name],
                            f'{name} compares field {f} but __eq__ compares {field}')
            n += 1
            ctx.require((r.outcome[1] == 'True') == (holds == positive), f'{cls}.{name}: {"equal" if holds else "different"} fields -> {holds == positive}', mod,
                        f'{cls}.{name}', r.path.events[-1].node if r.path.events else meths[name],
                        f'{name} returns {r.outcome[1]} when the key fields are {"equal" if holds else "different"}')
        if not n:
            raise Undecided(f'{cls}.{name}: no row compares the key field')
    if '__hash__' in meths and field is not None:
        fs = {n.attr for n in ast.walk(meths['__hash__']) if isinstance(n, ast.Attribute) and isinstance(n.value, ast.Name) and n.value.id == 'self'}
        if not fs:
            raise Undecided(f'{cls}.__hash__: cannot see which field is hashed')
        ctx.require(fs == {field}, f'{cls}.__hash__ reads exactly field {field}', mod, f'{cls}.__hash__', meths['__hash__'],
                    f'__hash__ reads {sorted(fs)} but __eq__ compares {field}')
    if meths.get('__hash__') is None and '__hash__' in [s.targets[0].id for s in mod.cls(cls).body if isinstance(s, ast.Assign) and isinstance(s.targets[0], ast.Name)]:
        ctx.note(f'{cls}: unhashable by declaration')
    return info.name


class _Side(ast.NodeTransformer):
    exact: T.Set[str] = set()     # names that are a *component* themselves (loop targets): `ours.lower()` projects them

    def __init__(self, sides: T.Dict[str, str]):
        self.sides = sides
        self.seen: T.Set[str] = set()
        self.exact = {k for k in sides if k.startswith('=')}
        self.sides = {k.lstrip('='): v for k, v in sides.items()}
        self.exact = {k.lstrip('=') for k in self.exact}

    def visit_Attribute(self, n: ast.Attribute) -> ast.AST:
        c = attr_chain(n)
        if c is not None:
            for k, s in self.sides.items():
                if c.startswith(k + '.') and k in self.exact:
                    continue
                if c == k or c.startswith(k + '.'):
                    self.seen.add(s)
                    return ast.Name(id='@', ctx=ast.Load())
        return self.generic_visit(n)

    def visit_Name(self, n: ast.Name) -> ast.AST:
        if n.id in self.sides:
            self.seen.add(self.sides[n.id])
            return ast.Name(id='@', ctx=ast.Load())
        return n


def _core_nf(mod: Module, cls: str, info: 'CoreInfo') -> T.Any:
    """The core in normal form: private helpers of the class/module inlined (a search loop split off, a sort-key helper),
    locals resolved by their reaching definition."""
    return normal_form(info.fn, mod.tree, cls=cls)


def _sort_key_form(fn: T.Any, info: 'CoreInfo') -> T.Optional[T.Tuple[str, str, T.List[str], bool]]:
    """`return comparator(SEQ(ours), SEQ(theirs))` where SEQ is one comprehension `[key(c) for c in <source>]` (or
    list()/tuple() of such a generator) with the same key on both sides -> (ours source, theirs source, [projection of
    each key element, `@` = the component], operands swapped?).  None: the core has another shape."""
    body = [s for s in fn.body if not (isinstance(s, ast.Expr) and isinstance(s.value, ast.Constant))]
    if not body or not isinstance(body[-1], ast.Return) or not isinstance(body[-1].value, ast.Call):
        return None
    # the key sequences may be bound to locals first: `mine = [..]; yours = [..]; return comparator(mine, yours)`
    bound: T.Dict[str, ast.AST] = {}
    for st in body[:-1]:
        if isinstance(st, ast.Assign) and len(st.targets) == 1 and isinstance(st.targets[0], ast.Name) and st.targets[0].id not in bound:
            bound[st.targets[0].id] = st.value
        else:
            return None
    call = copy.deepcopy(body[-1].value)
    call.args = [bound.get(a.id, a) if isinstance(a, ast.Name) else a for a in call.args]
    if norm(call.func) != info.comparator or len(call.args) != 2 or call.keywords:
        return None
    sides: T.List[T.Tuple[str, T.List[str]]] = []
    for a in call.args:
        while isinstance(a, ast.Call) and norm(a.func) in ('list', 'tuple') and len(a.args) == 1 and not a.keywords:
            a = a.args[0]
        if not (isinstance(a, (ast.ListComp, ast.GeneratorExp)) and len(a.generators) == 1 and not a.generators[0].ifs
                and isinstance(a.generators[0].target, ast.Name) and not a.generators[0].is_async):
            return None
        var = a.generators[0].target.id
        elts = list(a.elt.elts) if isinstance(a.elt, ast.Tuple) else [a.elt]
        projs = []
        for e in elts:
            t = copy.deepcopy(e)
            for n in ast.walk(t):
                if isinstance(n, ast.Name) and n.id == var:
                    n.id = '@'
            projs.append(norm(t))
        sides.append((norm(a.generators[0].iter), projs))
    if sides[0][1] != sides[1][1]:
        return None
    o = [i for i, (src, _) in enumerate(sides) if info.ours in names_in(ast.parse(src, mode='eval')) and info.theirs not in names_in(ast.parse(src, mode='eval'))]
    t_ = [i for i, (src, _) in enumerate(sides) if info.theirs in names_in(ast.parse(src, mode='eval')) and info.ours not in names_in(ast.parse(src, mode='eval'))]
    if len(o) != 1 or len(t_) != 1:
        return None
    return sides[o[0]][0], sides[t_[0]][0], sides[0][1], o[0] == 1


def core_method(mod: Module, cls: str, core: str = '') -> T.Tuple[str, T.Any]:
    """(name, *normalised* function) of the comparison core (found by role; `core` is only a label): locals are
    resolved by their reaching definition, so a hoisted `mine = self._v` reads as `self._v` again."""
    info = core_info(mod, cls)
    return info.name, _core_nf(mod, cls, info)


def _suffix(text: str, root: str) -> T.Optional[str]:
    return text[len(root):] if text == root or text.startswith(root + '.') else None


def zip_operands(mod: Module, cls: str, core: str = '') -> T.Tuple[str, str, str]:
    """(own field chain `self.<field>`, text of the other operand, name of the `other` parameter) of the
    component loop `for a, b in zip(<own>, <theirs>)` of the core, read on the normalised core.  When the core takes
    the component sequences themselves (module-level function called with `self._v, other._v`), the own chain is
    given as the dunders pass it."""
    info = core_info(mod, cls)
    fn = _core_nf(mod, cls, info)
    sk = _sort_key_form(fn, info)
    if sk is not None:
        own_chain = info.ours_actual + (_suffix(sk[0], info.ours) or '')
        if _suffix(sk[0], info.ours) is None or not own_chain.startswith('self.'):
            raise Undecided(f'{cls}.{info.name}: cannot attribute the compared sequences')
        return own_chain, sk[1], info.theirs
    loops = [s for s in fn.body if isinstance(s, ast.For)]
    if len(loops) != 1 or not (isinstance(loops[0].iter, ast.Call) and norm(loops[0].iter.func) == 'zip' and len(loops[0].iter.args) == 2):
        raise Undecided(f'{cls}.{info.name}: component loop is not `for a, b in zip(x, y)`')
    own = [norm(a) for a in loops[0].iter.args if info.ours in names_in(a) and info.theirs not in names_in(a)]
    theirs = [norm(a) for a in loops[0].iter.args if info.theirs in names_in(a) and info.ours not in names_in(a)]
    if len(own) != 1 or len(theirs) != 1 or _suffix(own[0], info.ours) is None:
        raise Undecided(f'{cls}.{info.name}: cannot attribute the zip operands')
    own_chain = info.ours_actual + (_suffix(own[0], info.ours) or '')
    if not own_chain.startswith('self.'):
        raise Undecided(f'{cls}.{info.name}: cannot attribute the zip operands')
    return own_chain, theirs[0], info.theirs


def _signum_form(e: ast.AST) -> T.Optional[T.Tuple[ast.AST, ast.AST]]:
    """`(x > y) - (x < y)` (either comparison may be written mirrored: `y < x`) -> (x, y): the expression is positive, zero or
    negative as x is greater than, equal to or less than y (bool arithmetic; ASSUMPTIONS: builtin comparison is a total order on
    the compared values).  None for any other shape."""
    if not (isinstance(e, ast.BinOp) and isinstance(e.op, ast.Sub)):
        return None

    def pair(c: ast.AST) -> T.Optional[T.Tuple[ast.AST, ast.AST]]:
        # (greater, lesser) operand of a strict comparison
        if isinstance(c, ast.Compare) and len(c.ops) == 1 and isinstance(c.ops[0], (ast.Gt, ast.Lt)):
            return (c.left, c.comparators[0]) if isinstance(c.ops[0], ast.Gt) else (c.comparators[0], c.left)
        return None
    a, b = pair(e.left), pair(e.right)
    if a is None or b is None or norm(a[0]) != norm(b[1]) or norm(a[1]) != norm(b[0]):
        return None
    return a


def _three_way_keys(ctx: RuleCtx, mod: Module, qn: str, fn: T.Any, info: 'CoreInfo', argname: T.Dict[str, str]) -> T.List[T.Tuple[str, str]]:
    """Ranking keys of a core that answers negative / zero / positive (the dunders compare the answer with 0).
    A loop row that returns a constant of known sign under `f(ours) != f(theirs)` and one more test tells the direction
    of key f: `f(ours) < f(theirs)` -> negative is ascending; for a boolean key `f(ours)` true -> negative is descending.
    The result after the loop is `g(ours) - g(theirs)` (ascending) or the reverse."""
    ours_p, other = info.ours, info.theirs
    loops = [s for s in fn.body if isinstance(s, ast.For)]
    if len(loops) != 1:
        raise Undecided(f'{qn}: expected exactly one component loop')
    loop = loops[0]
    it = loop.iter
    if not (isinstance(it, ast.Call) and norm(it.func) == 'zip' and len(it.args) == 2 and isinstance(loop.target, ast.Tuple) and len(loop.target.elts) == 2):
        raise Undecided(f'{qn}: component loop is not `for a, b in zip(x, y)`')
    sides: T.Dict[str, str] = {ours_p: 'ours', other: 'theirs'}
    for pn, sd in ((ours_p, 'ours'), (other, 'theirs')):
        if pn in argname:
            sides[argname[pn]] = sd
    for arg, tgt in zip(it.args, loop.target.elts):
        rd = names_in(arg)
        if ours_p in rd and other not in rd:
            sides['=' + tgt.id] = 'ours'        # type: ignore[attr-defined]
        elif other in rd and ours_p not in rd:
            sides['=' + tgt.id] = 'theirs'      # type: ignore[attr-defined]
        else:
            raise Undecided(f'{qn}: cannot attribute zip argument {short(arg)} to one operand')

    def proj(text: str) -> T.Tuple[str, T.Set[str]]:
        sd = _Side(sides)
        return norm(sd.visit(ast.parse(text, mode='eval').body)), sd.seen

    def sign(text: str) -> T.Optional[int]:
        try:
            v = ast.literal_eval(text)
        except (ValueError, SyntaxError):
            return None
        return (v > 0) - (v < 0) if isinstance(v, int) and not isinstance(v, bool) and v != 0 else None
    found: T.Dict[str, T.Set[str]] = {}
    order: T.List[str] = []
    tab = tables.extract(fn, body=loop.body, name=qn + ':loop', inline=False)
    for r in tab.rows:
        if r.outcome[0] in ('fall', 'continue'):
            continue
        sg = sign(r.outcome[1]) if r.outcome[0] == 'return' else None
        signum: T.Optional[T.Tuple[str, str]] = None
        if sg is None and r.outcome[0] == 'return':
            # `(x > y) - (x < y)`: the sign of comparing x with y (round 13) - the key and its direction are in the expression itself
            try:
                cf = _signum_form(ast.parse(r.outcome[1], mode='eval').body)
            except SyntaxError:
                cf = None
            if cf is not None:
                (qx, tx), (qy, ty) = proj(norm(cf[0])), proj(norm(cf[1]))
                if qx == qy and tx != ty and len(tx) == len(ty) == 1:
                    signum = (qx, 'asc' if tx == {'ours'} else 'desc')
        if sg is None and signum is None:
            raise Undecided(f'{qn}: cannot read the three-way result of row {r!r}')
        # the guard `f(ours) != f(theirs)` of this row (the last inequality on the path)
        guards = [a for a, v in r.conds.items() if a.kind == 'cmp' and a.args[0] == 'eq' and v is False]
        if not guards:
            raise Undecided(f'{qn}: row {r!r} returns a verdict without a test that the two projections differ')
        g = guards[-1]
        (p1, s1), (p2, s2) = proj(g.args[1]), proj(g.args[2])
        if p1 != p2 or s1 == s2 or len(s1) != 1 or len(s2) != 1:
            raise Undecided(f'{qn}: cannot read the guard {g!r} of row {r!r}')
        key = p1
        for a, v in r.conds.items():          # earlier keys must be known equal
            if a.kind == 'cmp' and a.args[0] == 'eq' and v is True:
                continue
        direction: T.Optional[str] = None
        if signum is not None:
            if signum[0] != key:
                raise Undecided(f'{qn}: row {r!r} is guarded by a difference of {key} but answers by comparing {signum[0]}')
            direction = signum[1]
        for a, v in ([] if signum is not None else r.conds.items()):
            if a.kind == 'cmp' and a.args[0] == 'lt':
                (q1, t1), (q2, t2) = proj(a.args[1]), proj(a.args[2])
                if q1 == q2 == key and t1 != t2 and len(t1) == len(t2) == 1:
                    ours_less = v if t1 == {'ours'} else not v          # f(ours) < f(theirs)  (the guard excludes equality)
                    direction = 'asc' if ours_less == (sg < 0) else 'desc'
            elif a.kind in ('truth', 'isinstance'):
                txt = a.args[0] if a.kind == 'truth' else f'isinstance({a.args[0]}, {", ".join(a.args[1])})'
                q, t = proj(txt)
                if q == key and len(t) == 1:
                    ours_true = v if t == {'ours'} else not v             # boolean key: exactly one side is true under the guard
                    direction = 'desc' if ours_true == (sg < 0) else 'asc'
        if direction is None:
            raise Undecided(f'{qn}: cannot tell the direction of key {key} from row {r!r}')
        found.setdefault(key, set()).add(direction)
        if key not in order:
            order.append(key)
            for pk in order[:-1]:
                known = any(a.kind == 'cmp' and a.args[0] == 'eq' and v is True and proj(a.args[1])[0] == pk for a, v in r.conds.items())
                ctx.require(known, f'{qn}: key {key} is consulted only when {pk} is equal', mod, qn, r.path.events[-1].node,
                            f'key {key} decides although the earlier key {pk} may differ: {r!r}')
    keys: T.List[T.Tuple[str, str]] = []
    for k in order:
        ctx.require(len(found[k]) == 1, f'{qn}: the rows of key {k} agree on its direction', mod, qn, f'key {k}',
                    f'the rows that decide on {k} rank it both ways ({sorted(found[k])}): the answer is not antisymmetric')
        keys.append((k, sorted(found[k])[0]))
        ctx.ok(f'{qn}: three-way key {k} ({keys[-1][1]})')
    after = fn.body[fn.body.index(loop) + 1:]
    if len(after) != 1 or not isinstance(after[0], ast.Return) or not isinstance(after[0].value, ast.BinOp) or not isinstance(after[0].value.op, ast.Sub):
        raise Undecided(f'{qn}: expected `return g(ours) - g(theirs)` after the component loop')
    sides2 = {k: v for k, v in sides.items() if not k.startswith('=')}
    sa, sb = _Side(sides2), _Side(sides2)
    # `(g(a) > g(b)) - (g(a) < g(b))` has the sign of `g(a) - g(b)`
    left, right = _signum_form(after[0].value) or (after[0].value.left, after[0].value.right)
    ta, tb = norm(sa.visit(copy.deepcopy(left))), norm(sb.visit(copy.deepcopy(right)))
    if ta != tb or sa.seen == sb.seen or len(sa.seen) != 1 or len(sb.seen) != 1:
        raise Undecided(f'{qn}: cannot read the difference {short(after[0].value)}')
    keys.append((ta, 'asc' if sa.seen == {'ours'} else 'desc'))
    return keys


def ranking_keys(ctx: RuleCtx, mod: Module, cls: str, core: str = '') -> T.List[T.Tuple[str, str]]:
    """Extract [(projection, direction)] from the comparison core (method or module-level function).

    Every return must be comparator(f(a), f(b)) with the same projection f on both
    sides; (ours, theirs) = ascending, (theirs, ours) = descending."""
    info = core_info(mod, cls)
    name = info.name
    # locals are resolved by their reaching definition first (hoisted `a = self._v`, renamed flags)
    fn = _core_nf(mod, cls, info)
    qn = f'{cls}.{name}' if info.is_method else name
    argname = {k: v.id for k, v in tables._param_map(fn).items()}       # type: ignore[attr-defined]
    ours_p, other, comparator = info.ours, info.theirs, info.comparator
    if comparator == '':
        return _three_way_keys(ctx, mod, qn, fn, info, argname)
    sk = _sort_key_form(fn, info)
    if sk is not None:
        # `comparator([key(c) for c in ours], [key(c) for c in theirs])`: sequences compare lexicographically - the first pair of
        # differing keys decides, tuple keys element by element, and a proper prefix is smaller: keys in order, then the length
        src_o, src_t, projs, flipped = sk
        eo = (_suffix(info.ours_actual, 'self') or '') + (_suffix(src_o, ours_p) or '')
        et = (_suffix(info.theirs_actual, 'ARG1') or '') + (_suffix(src_t, other) or '')
        ctx.require(eo == et, f'{qn}: both operands contribute the same field ({eo or "themselves"})', mod, qn, 'compared sequences',
                    f'the core compares self{eo} with other{et}: the two operands are not read through the same field')
        keys: T.List[T.Tuple[str, str]] = []
        for pr in projs:
            direction = 'desc' if flipped else 'asc'
            if pr.startswith('not '):
                inner = ast.parse(pr[4:].replace('@', '_AT_'), mode='eval').body
                pr, direction = norm(inner).replace('_AT_', '@'), ('asc' if flipped else 'desc')      # `not p` ranks a boolean key the other way round
            keys.append((pr, direction))
            ctx.ok(f'{qn}: sort key {pr} ({direction}) is applied to both sequences')
        keys.append(('len(@)', 'desc' if flipped else 'asc'))
        return keys
    loops = [s for s in fn.body if isinstance(s, ast.For)]
    if len(loops) != 1:
        raise Undecided(f'{qn}: expected exactly one component loop')
    loop = loops[0]
    it = loop.iter
    if not (isinstance(it, ast.Call) and norm(it.func) == 'zip' and len(it.args) == 2 and isinstance(loop.target, ast.Tuple) and len(loop.target.elts) == 2):
        raise Undecided(f'{qn}: component loop is not `for a, b in zip(x, y)`')
    sides: T.Dict[str, str] = {ours_p: 'ours', other: 'theirs'}
    for pn, sd in ((ours_p, 'ours'), (other, 'theirs')):
        if pn in argname:
            sides[argname[pn]] = sd
    eff: T.Dict[str, str] = {}
    for arg, tgt in zip(it.args, loop.target.elts):
        rd = names_in(arg)
        if ours_p in rd and other not in rd:
            sides['=' + tgt.id] = 'ours'      # type: ignore[attr-defined]
            eff['ours'] = (_suffix(info.ours_actual, 'self') or '') + (_suffix(norm(arg), ours_p) if _suffix(norm(arg), ours_p) is not None else '?' + norm(arg))
        elif other in rd and ours_p not in rd:
            sides['=' + tgt.id] = 'theirs'    # type: ignore[attr-defined]
            eff['theirs'] = (_suffix(info.theirs_actual, 'ARG1') or '') + (_suffix(norm(arg), other) if _suffix(norm(arg), other) is not None else '?' + norm(arg))
        else:
            raise Undecided(f'{qn}: cannot attribute zip argument {short(arg)} to one operand')
    ctx.require({sides['=' + t.id] for t in loop.target.elts} == {'ours', 'theirs'}, f'{qn}: loop pairs our components with theirs', mod, qn, loop.iter,  # type: ignore[attr-defined]
                'the component loop does not pair the two operands')
    if set(eff) == {'ours', 'theirs'} and '?' not in eff['ours'] + eff['theirs']:
        # what reaches the loop is <self><x> on one side and <other><y> on the other (through the dunders' arguments): x must be y
        ctx.require(eff['ours'] == eff['theirs'], f'{qn}: both operands contribute the same field ({eff["ours"] or "themselves"})', mod, qn, loop.iter,
                    f'the loop pairs self{eff["ours"]} with other{eff["theirs"]}: the two operands are not read through the same field')

    def key_of(call: ast.AST, where: str) -> T.Optional[T.Tuple[str, str]]:
        if not (isinstance(call, ast.Call) and norm(call.func) in (comparator, argname.get(comparator)) and len(call.args) == 2 and not call.keywords):
            raise Undecided(f'{qn}: {where}: cannot read the result {short(call)} as comparator(x, y)')
        a, b = copy.deepcopy(call.args[0]), copy.deepcopy(call.args[1])
        sa, sb = _Side(sides), _Side(sides)
        ta, tb = norm(sa.visit(a)), norm(sb.visit(b))
        if len(sa.seen) != 1 or len(sb.seen) != 1 or sa.seen == sb.seen:
            ctx.violation(mod, qn, call, f'{where}: the two comparator arguments do not come one from each operand')
            return None
        if ta != tb:
            ctx.violation(mod, qn, call, f'{where}: different projections on the two sides: {ta} vs {tb}')
            return None
        ctx.ok(f'{qn}: {where}: symmetric projection {ta}')
        return ta, ('asc' if sa.seen == {'ours'} else 'desc')

    keys: T.List[T.Tuple[str, str]] = []
    key_atoms: T.List[tables.Atom] = []
    tab = tables.extract(fn, body=loop.body, name=qn + ':loop')
    for r in tab.rows:
        if r.outcome[0] in ('fall', 'continue'):
            continue
        if r.outcome[0] != 'return':
            raise Undecided(f'{qn}: a loop row leaves by {r.outcome}')
        call = ast.parse(r.outcome[1], mode='eval').body
        k = key_of(call, f'loop row {r!r}'[:150])
        if k is None:
            continue
        # the atom "the two projections are equal", and every consistent world of the table's atoms (ordering trichotomy etc.)
        e_atom = tables.canon(ast.Compare(left=call.args[0], ops=[ast.Eq()], comparators=[call.args[1]]), True)[0]   # type: ignore[attr-defined]
        fires_equal: T.Optional[T.Dict[tables.Atom, bool]] = None
        fires_early: T.Optional[T.Dict[tables.Atom, bool]] = None
        early_key = ''
        for w in tab.worlds([e_atom] + key_atoms):
            if r not in tab.fire(w):
                continue
            if w.get(e_atom):
                fires_equal = w
            for (pk, _), pa in zip(keys, key_atoms):
                if pa != e_atom and w.get(pa) is False:
                    fires_early, early_key = w, pk
        ctx.require(fires_equal is None, f'{qn}: key {k[0]} is returned exactly when the two projections differ', mod, qn, r.path.events[-1].node,
                    f'the row returning the {k[0]} comparison is also taken when {k[0]}(ours) == {k[0]}(theirs) (the loop stops at the first component): {r!r}')
        ctx.require(fires_early is None, f'{qn}: key {k[0]} is consulted only when the earlier keys are equal', mod, qn, r.path.events[-1].node,
                    f'key {k[0]} is compared although the earlier key {early_key} may differ: {r!r}')
        if k not in keys:
            keys.append(k)
            key_atoms.append(e_atom)
    after = fn.body[fn.body.index(loop) + 1:]
    rets = [s for s in after if isinstance(s, ast.Return)]
    if len(rets) != 1 or len(after) != 1:
        raise Undecided(f'{qn}: expected a single return after the component loop')
    k = key_of(rets[0].value, 'after the loop')
    if k is not None:
        keys.append(k)
    return keys
