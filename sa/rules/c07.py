"""C07 — option values resolve by the documented precedence and are always valid (DESIGN §2 C07)."""
from __future__ import annotations

import ast
import re
import typing as T

from ..core import Undecided, norm, short, walk_no_nested, attr_chain
from ..report import Rule, RuleCtx
from .. import tables
from ..tables import Atom, canon
from ..consteval import fold_const, fold_expr
from . import c07_sym as S
from . import c07_scan
from . import c07_val

OPT = 'mesonbuild/options.py'
INTERP = 'mesonbuild/interpreter/interpreter.py'
INTRO = 'mesonbuild/ast/introspection.py'
CMDLINE = 'mesonbuild/cmdline.py'
DOC = 'docs/markdown/Builtin-options.md'

EXPLANATION = (
    'Decides structural clauses of C07 on mesonbuild/options.py from decision tables and effect shapes obtained by path enumeration with '
    'reaching-definition substitution (no statement is executed, no value computed; atoms are decided only by world enumeration): '
    'R1 the top-level initialiser applies [project default_options, machine file, command line] in that order through '
    'set_user_option, the prefix candidates have the same order (last non-None wins) and the callers pass the sources '
    'in the positions the callee expects; R2 the write/pop events into the merged mapping of the subproject initialiser '
    'equal the eight-step list of Builtin-options.md (parsed at check time) and the final loop keeps existing augments; '
    'R3 lookup is augment > yielding parent > own value; R4 every stored option value is the result of validate_value of the '
    'option it is stored for (.value only in UserOption, augments only in set_option, one justified and re-verified writer '
    'outside options.py); R5 the decision tables of the validate_value family equal the reference conditions on every world '
    'of their atoms, and an accepting path of the language-standard validator returns a candidate only after `candidate in self.choices` (a replacement only '
    'after its lookup in deprecated_stds succeeded) whatever else the path tests; a disagreeing row whose only foreign atoms read non-constraint fields of the option object is a violation, not undecided; '
    'R1 reads prefix_split_options in loop form (comprehensions, a filtered intermediate list, one loop per result = loop fission) as the union of what the loops do per entry class; '
    'R6 DEFAULT_DEPENDENTS equals the documented buildtype table, the expansion runs exactly when the value '
    'changed to a non-custom buildtype and the command line puts buildtype first; R7 the prefix-dependent directory defaults '
    '(hard reset, reset on prefix change, initial default) follow the reference tables; R9 a value taken out of pending_options is applied through set_option unless it is the None sentinel of the pop; R8 also: storing into an option object always switches its yielding off; R8 an option is linked to a parent (and so may report the parent\'s value) only under an exact '
    'class identity test, because the option classes subclass one another, and .yielding is only ever False or "parent linked". '
    'R3 reads a call of a pure accessor of the option object (closed-world unique public method whose body only branches and returns field reads) as its body; a lookup result computed by any other call is undecided; '
    'R5 knows the truth value of an Optional[int] bound ("not None and not 0"): a range test guarded by the truth of the bound skips a bound of exactly 0 and is a violation; '
    'R9 judges every value taken out of pending_options on its own (several pops in one function); '
    'R10 Environment.mfilestr2key returns the key evolved to the machine of the file on every path for the BUILD machine (the native file of a cross build) and the key as parsed on every other path '
    '(undecided when a caller re-keys the result itself). '
    'Does NOT decide which value wins for concrete option sets (run-time), the directory values for concrete prefixes, '
    'per-machine canonicalisation for concrete cross files beyond R10 (which machine a file is loaded for, the build.* copy loop and the build-key filter of Environment.__init__), nor the behaviour of set_user_option for unknown/pending options. '
    'Observed on the tree and NOT decided (no exact structural clause, or documented behaviour): buildtype listed after debug/optimization in '
    'project default_options or a machine file overwrites the explicit values (only the command line is reordered); a yielding option reports a '
    'same-class parent value outside its own choices/range (documented: get_option returns the superproject value); sanitize_prefix strips one trailing '
    'slash only (string semantics); a prefix change outside the first invocation does not reset the dependants (deliberate guard, pinned); '
    'a guard moved from a caller into a non-private callee (e.g. hard_reset_from_prefix(None) returning early) is undecided. '
    'Does NOT decide whether the "something changed" flag returned by set_from_configure_command accumulates over all -D arguments (it only gates persistence in mconf: '
    'the stored values are right, saving them is C08\'s clause), nor the apply loops of the top-level initialiser when one source is iterated by several consecutive loops (undecided).')
ASSUMPTIONS = [
    'asserts are no-ops (python -O semantics); T.cast is the identity',
    'the same canonical expression evaluated twice on one path between which the analysed function stores nothing has the same value',
    'option objects outside options.py are only reached through annotated names/returns or through an OptionStore (meson is fully annotated)',
    'positional parameter order of the two initialisers is (project default_options, command line, machine file) / '
    '(subproject, subproject() default_options, project default_options, command line, machine file): checked against the call sites',
]
TECHNIQUE = ('path enumeration with copy propagation (canonical, reaching-definition-versioned atoms) + world enumeration of decision tables against reference '
             'denotations + symbolic comparison of effect shapes and their order + who-may-write scan with def-use origin evidence + constant tables folded and compared with the documentation')


def A(text: str) -> Atom:
    a, v = canon(S.sub({}, ast.parse(text, mode='eval').body), True)
    if not v:
        raise ValueError(f'give the positive form of {text}')
    return a


def P(text: str) -> str:
    """canonical text of an expression"""
    return norm(S.sub({}, ast.parse(text, mode='eval').body))


def _signatures(ctx: RuleCtx) -> None:
    S.set_signatures(ctx.repo.module(OPT), ctx.repo.module(CMDLINE))


def arg_names(e: ast.AST) -> T.Set[str]:
    return {n.id for n in ast.walk(e) if isinstance(n, ast.Name) and re.fullmatch(r'ARG\d+', n.id)}


def is_call(e: ast.AST, name: str) -> bool:
    if not isinstance(e, ast.Call):
        return False
    f = e.func
    return (f.attr if isinstance(f, ast.Attribute) else (f.id if isinstance(f, ast.Name) else None)) == name


def call_args(c: ast.Call, names: T.Sequence[str]) -> T.Dict[str, ast.AST]:
    """positional + keyword arguments by parameter name"""
    out: T.Dict[str, ast.AST] = {}
    for n, a in zip(names, c.args):
        if isinstance(a, ast.Starred):
            raise Undecided(f'starred argument in {short(c)}')
        out[n] = a
    for k in c.keywords:
        if k.arg is None:
            raise Undecided(f'** argument in {short(c)}')
        out[k.arg] = k.value
    return out


def loop_rows(sym: S.Sym, loop: S.Loop) -> T.List[S.SRow]:
    return (loop.sym or sym).rows(body=loop.node.body, env0=loop.env, prepared=True)


def is_logging(f: S.Fx) -> bool:
    if f.kind != 'call':
        return False
    ch = attr_chain(f.node.func) or ''
    return ch.startswith('mlog.') or ch.startswith('logging.') or ch == 'print'


def visible(row: S.SRow) -> T.List[S.Fx]:
    """effects that change state or call something (name bindings are already substituted; logging is no effect)"""
    return [f for f in row.fx if f.kind in ('call', 'store', 'augstore', 'del', 'opaque', 'expr', 'new') and not is_logging(f)]


def foreign_calls(fxs: T.Iterable[S.Fx], known: T.Iterable[str]) -> T.List[S.Fx]:
    """call effects whose callee this rule does not know: what they do is not visible here, so an obligation that is
    not found next to them is *undecided*, not violated"""
    kn = set(known)
    out = []
    for f in fxs:
        if f.kind == 'call' and not is_logging(f):
            c = f.node.func
            name = c.attr if isinstance(c, ast.Attribute) else (c.id if isinstance(c, ast.Name) else '?')
            if name not in kn:
                out.append(f)
    return out


def tokens(qn: str, row: tables.Row, classify: T.Callable[[S.Fx], T.Optional[str]]) -> T.Any:
    """The effects of a row as reference tokens.  A row that leaves the loop/function is reported as such; an
    effect the classifier does not know makes the comparison undecided (never a violation)."""
    sr: S.SRow = row.srow  # type: ignore[attr-defined]
    if row.outcome[0] == 'raise':
        return ('raise', row.outcome[1])
    if row.outcome[0] in ('return', 'break'):
        return ('leaves', row.outcome)
    out = []
    for f in visible(sr):
        k = classify(f)
        if k is None:
            raise Undecided(f'{qn}: effect outside the reference vocabulary: {f.text}')
        out.append(k)
    return tuple(out)


def _row_node(row: tables.Row, fn: ast.AST) -> ast.AST:
    if row.path is not None and row.path.events:
        n = row.path.events[-1].node
        if n is not None:
            return n
    return fn


# ---------------------------------------------------------------------------
# R1  top-level precedence
TOP_SRC = {1: 'project default_options', 2: 'command line', 3: 'machine file'}
TOP_ORDER = [1, 3, 2]      # Builtin-options.md / property statement: defaults < machine file < command line


def _prefix_split_summary(ctx: RuleCtx, mod: T.Any) -> None:
    """prefix_split_options(coll) -> (value of the key named 'prefix' or None, every other entry).

    Read in loop form (comprehensions and filtered intermediate lists are loops over their source).  The function may
    partition the source in one loop or in several (loop fission): what happens to an entry of a given class is what
    the loops together do to it; a loop that raises for the class rejects it (the results are locals, nothing else is
    observable)."""
    qn = 'OptionStore.prefix_split_options'
    fn0 = mod.func(qn)
    fn = S.loop_form(fn0)
    sym = S.Sym(fn)
    items, _ = S.straight_line(sym, fn, qn, mod, 'OptionStore')
    loops = [x for k, x in items if k == 'loop']
    rets = [x for k, x in items if k == 'return']
    news = [x.node[0] for k, x in items if k == 'fx' and x.kind == 'new']
    if any(k == 'block' for k, _x in items):
        raise Undecided(f'{qn}: compound statement outside the loops')
    if not loops or len(rets) != 1:
        raise Undecided(f'{qn}: expected loops over the collection and one return')
    ret = rets[0]
    if not (isinstance(ret, ast.Tuple) and len(ret.elts) == 2 and all(isinstance(x, ast.Name) for x in ret.elts)):
        raise Undecided(f'{qn}: result of unknown form: {short(ret)}')
    first, second = ret.elts[0].id.split('@')[0], ret.elts[1].id.split('@')[0]  # type: ignore[attr-defined]
    rests = [n for n in news if n in (first, second)]
    if len(rests) != 1 or first == second:
        raise Undecided(f'{qn}: expected exactly one returned accumulator mapping, found {rests}')
    rest = rests[0]
    pname = first if second == rest else second
    isp = A("KEY.name == 'prefix'")
    isstr = Atom('isinstance', ('VAL', ('str',)))
    vocab = {isp, isstr}

    def got(r: tables.Row) -> T.Any:
        sr: S.SRow = r.srow  # type: ignore[attr-defined]
        t = tokens(qn, r, lambda f: 'rest' if f.kind == 'store' and f.text == f'{rest}[KEY] := VAL' else None)
        if t and t[0] in ('raise', 'leaves'):
            return t
        takes = [f for f in sr.fx if f.kind == 'let' and f.node[0] == pname]
        if any(norm(f.node[1]) != 'VAL' for f in takes):
            raise Undecided(f'{qn}: the returned local {pname} is bound to {[norm(f.node[1]) for f in takes]} in a loop')
        return (('take',) if takes else ()) + t

    contrib: T.Dict[T.Tuple[bool, bool], T.List[T.Tuple[T.Any, tables.Row]]] = {}
    nrows = 0
    for loop in loops:
        srcs = S.chain_sources(loop.iter)
        if [norm(s) for s in srcs] != ['ARG1']:
            raise Undecided(f'{qn}: loop iterates {short(loop.iter)}')
        if not (isinstance(loop.iter, ast.Call) and is_call(loop.iter, 'items')):
            raise Undecided(f'{qn}: loop iterates {short(loop.iter)}, not the items of the collection')
        tab = S.to_table(loop_rows(sym, loop), f'{qn}:loop{loop.index}')
        unknown = [a for a in tab.atoms() if a not in vocab and not S.is_free(a)]
        if unknown:
            raise Undecided(f'{qn}: atoms outside the vocabulary: {unknown}')
        nrows += len(tab.rows)
        per: T.Dict[T.Tuple[bool, bool], T.Tuple[T.Any, tables.Row]] = {}
        for w in tab.worlds([isp, isstr]):
            key = (w[isp], w.get(isstr, True))
            rows = tab.fire(w)
            if not rows:
                raise Undecided(f'{qn}: no row fires in world { {repr(a): x for a, x in w.items()} }')
            gs = [got(r) for r in rows]
            if any(x != gs[0] for x in gs[1:]) or (key in per and per[key][0] != gs[0]):
                raise Undecided(f'{qn}: rows with different outcomes fire in world { {repr(a): x for a, x in w.items()} }')
            per[key] = (gs[0], rows[0])
        for key, v in per.items():
            contrib.setdefault(key, []).append(v)
        ctx.note(f'{qn}: table {tab.dump()}')

    def ref(prefix: bool, is_str: bool) -> T.Any:
        if prefix:
            return ('take',) if is_str else ('raise', 'MesonException')
        return ('rest',)
    bad = 0
    for (prefix, is_str), parts in sorted(contrib.items()):
        raising = [g for g, _r in parts if g and g[0] == 'raise']
        if any(g and g[0] == 'leaves' for g, _r in parts):
            raise Undecided(f'{qn}: a loop is left early for an entry with prefix={prefix}, str={is_str}')
        total = raising[0] if raising else tuple(sorted(x for g, _r in parts for x in g))
        want = ref(prefix, is_str)
        if total != want:
            bad += 1
            row = next((r for g, r in parts if g), parts[0][1])
            ctx.violation(mod, qn, repr(row), f'an entry with key.name == \'prefix\' {prefix} and a str value {is_str} yields {total!r} (row `{short(repr(row), 200)}`); the reference '
                          f'(prefix entry split off, wrong type rejected, everything else kept) requires {want!r}', _row_node(row, fn0))
    if not bad:
        ctx.ok(f'{qn}: {nrows} rows in {len(loops)} loop(s) agree with the reference (prefix entry split off, wrong type rejected, everything else kept) on {len(contrib)} entry classes')
    ctx.require(first == pname and second == rest, f'{qn}: returns (prefix value, remaining entries)', mod, qn, ret,
                f'returns ({first}, {second}): the remaining entries come first and the prefix value second; callers unpack (prefix, rest)', fn0)


def _prefix_candidate(e: ast.AST) -> T.Optional[int]:
    """source index (ARGn) of an expression that denotes "the prefix entry of source n", else None."""
    if isinstance(e, ast.Subscript) and isinstance(e.slice, ast.Constant) and e.slice.value == 0 and is_call(e.value, 'prefix_split_options'):
        inner = e.value.args  # type: ignore[attr-defined]
    elif is_call(e, 'pop') and len(e.args) == 2 and norm(e.args[0]) == "OptionKey('prefix')" \
            and isinstance(e.args[1], ast.Constant) and e.args[1].value is None:  # type: ignore[attr-defined]
        inner = [e.func.value]  # type: ignore[attr-defined]
    else:
        return None
    names = set()
    for x in inner:
        names |= arg_names(x)
    if len(names) != 1:
        return None
    return int(next(iter(names))[3:])


def _rest_source(e: ast.AST) -> T.Optional[int]:
    """source index of an expression that denotes "source n without its prefix entry"."""
    if isinstance(e, ast.Subscript) and isinstance(e.slice, ast.Constant) and e.slice.value == 1 and is_call(e.value, 'prefix_split_options'):
        names = arg_names(e.value)
    elif is_call(e, 'copy') or is_call(e, 'dict'):
        names = arg_names(e)
    else:
        return None
    if len(names) != 1:
        return None
    return int(next(iter(names))[3:])


def _first_handle_prefix(ctx: RuleCtx, mod: T.Any) -> T.List[int]:
    """Checks the prefix precedence; returns the summary: result position -> parameter index."""
    qn = 'OptionStore.first_handle_prefix'
    fn = mod.func(qn)
    rows = S.Sym(fn).rows()
    tab = S.to_table(rows, qn)
    sem: T.Dict[Atom, str] = {}
    cand: T.Dict[int, str] = {}
    for a in tab.atoms():
        if a.kind == 'is' and a.args[1] == 'None':
            src = _prefix_candidate(ast.parse(a.args[0], mode='eval').body)
            if src is not None:
                sem[a] = f'none{src}'
                cand[src] = a.args[0]
    if set(cand) != {1, 2, 3}:
        raise Undecided(f'{qn}: prefix candidates found for sources {sorted(cand)}; expected one per source (1 project, 2 command line, 3 machine file)')
    ctx.floor('prefix candidates', len(cand), 3)
    prio = list(reversed(TOP_ORDER))   # highest priority first

    def view(w: T.Dict[Atom, bool]) -> T.Any:
        return {k: w[a] for a, k in sem.items()}

    def ref(v: T.Dict[str, bool]) -> T.Any:
        for s in prio:
            if not v[f'none{s}']:
                return ('reset', TOP_SRC[s])
        return ('no reset',)

    def got(r: tables.Row) -> T.Any:
        sr: S.SRow = r.srow  # type: ignore[attr-defined]
        calls = [f.node for f in sr.fx if f.kind == 'call' and is_call(f.node, 'hard_reset_from_prefix')]
        if not calls:
            return ('no reset',)
        if len(calls) == 1 and len(calls[0].args) == 1:
            t = norm(calls[0].args[0])
            for s, txt in cand.items():
                if txt == t:
                    return ('reset', TOP_SRC[s])
        raise Undecided(f'{qn}: reset call(s) of unknown form: {[norm(c) for c in calls]}')
    S.compare(ctx, mod, qn, fn, tab, sem, view, ref, got, list(sem),
              what='documented precedence (command line over machine file over project default_options; last non-None candidate wins)')
    summaries = set()
    for r in rows:
        if r.outcome[0] != 'return' or not isinstance(r.value, ast.Tuple):
            raise Undecided(f'{qn}: does not return a tuple display on every path')
        summaries.add(tuple(_rest_source(e) for e in r.value.elts))
    if len(summaries) != 1:
        raise Undecided(f'{qn}: result depends on the path: {summaries}')
    summ = list(next(iter(summaries)))
    if any(s is None for s in summ) or sorted(summ) != [1, 2, 3]:  # type: ignore[type-var]
        raise Undecided(f'{qn}: cannot attribute the returned mappings to the parameters: {summ}')
    ctx.ok(f'{qn}: returns the prefix-free copies of parameters {summ} (by position)')
    return T.cast('T.List[int]', summ)


def _resolve_top_source(e: ast.AST, summ: T.List[int]) -> int:
    """`self.first_handle_prefix(a, b, c)[i]` -> index of the caller's parameter that reaches result i."""
    if isinstance(e, ast.Subscript) and isinstance(e.slice, ast.Constant) and isinstance(e.slice.value, int) and is_call(e.value, 'first_handle_prefix'):
        c = e.value
        assert isinstance(c, ast.Call)
        args = call_args(c, ['project_default_options', 'cmd_line_options', 'machine_file_options'])
        order = ['project_default_options', 'cmd_line_options', 'machine_file_options']
        if set(args) != set(order):
            raise Undecided(f'first_handle_prefix call with arguments {sorted(args)}')
        if not 0 <= e.slice.value < len(summ):
            raise Undecided(f'result index {e.slice.value}')
        a = args[order[summ[e.slice.value] - 1]]
        if isinstance(a, ast.Name) and re.fullmatch(r'ARG\d+', a.id):
            return int(a.id[3:])
    raise Undecided(f'loop source {short(e)} is not a result of first_handle_prefix applied to the parameters')


def _apply_kind(f: S.Fx) -> T.Optional[str]:
    if f.kind == 'call' and is_call(f.node, 'set_user_option'):
        a = call_args(f.node, ['o', 'new_value', 'first_invocation'])
        if norm(a.get('o')) == 'KEY' and norm(a.get('new_value')) == 'VAL' and norm(a.get('first_invocation')) == 'True':
            return 'apply'
        return 'apply?' + f.text
    if f.kind == 'store' and f.text == 'self.pending_subproject_options[KEY] := VAL':
        return 'park'
    return None


def r1(ctx: RuleCtx) -> None:
    _signatures(ctx)
    mod = ctx.repo.module(OPT)
    _prefix_split_summary(ctx, mod)
    summ = _first_handle_prefix(ctx, mod)
    qn = 'OptionStore.initialize_from_top_level_project_call'
    fn = mod.func(qn)
    sym = S.Sym(fn, pure={'is_for_build'})
    items, _ = S.straight_line(sym, fn, qn, mod, 'OptionStore')
    for kind, x in items:
        if kind == 'block':
            raise Undecided(f'{qn}: compound statement at top level: {short(x[0])}')
        if kind == 'fx' and x.kind not in ('let',) and not is_logging(x):
            raise Undecided(f'{qn}: unexpected top-level effect {x.text}')
    loops = [x for k, x in items if k == 'loop']
    cross, forbuild, subp = A('self.is_cross'), A('KEY.is_for_build()'), A('KEY.subproject')
    sem = {cross: 'cross', forbuild: 'for_build', subp: 'subproject'}
    seq: T.List[int] = []
    for loop in loops:
        srcs = [_resolve_top_source(s, summ) for s in S.chain_sources(loop.iter)]
        if seq and set(srcs) & set(seq):
            raise Undecided(f'{qn}: source {[TOP_SRC.get(s_, s_) for s_ in srcs if s_ in seq]} is iterated by more than one apply loop (loop fission of an apply loop is not read)')
        rows = loop_rows(sym, loop)
        tab = S.to_table(rows, f'{qn}:loop{loop.index}')
        park = all(s == 1 for s in srcs)
        label = ' + '.join(TOP_SRC.get(s, f'ARG{s}') for s in srcs)

        def ref(v: T.Dict[str, bool], park: bool = park) -> T.Any:
            if not v['cross'] and v['for_build']:
                return ()
            if v['subproject']:
                return ('park',) if park else ()
            return ('apply',)

        def got(r: tables.Row, lq: str = f'{qn} loop over {label}') -> T.Any:
            return tokens(lq, r, _apply_kind)
        S.compare(ctx, mod, f'{qn} loop over {label}', fn, tab, sem, lambda w: {k: w[a] for a, k in sem.items()}, ref, got, list(sem),
                  what='reference (build-machine keys ignored natively; subproject-qualified keys ' + ('parked' if park else 'left for the subproject') +
                       '; everything else through set_user_option(key, value, True))')
        seq.extend(srcs)
    ctx.floor('apply loops of the top-level initialiser', len(loops), 2)
    ctx.require(seq == TOP_ORDER, f'{qn}: sources applied in the order {[TOP_SRC[s] for s in seq if s in TOP_SRC]}', mod, qn,
                'order of the apply loops by origin of the iterated mapping',
                f'sources are applied in the order {[TOP_SRC.get(s, s) for s in seq]}; documented precedence (later overrides earlier) is {[TOP_SRC[s] for s in TOP_ORDER]}', fn)
    # call sites: the sources are passed in the positions the callee expects
    _call_sites(ctx, 'initialize_from_top_level_project_call', ['project', 'cmdline', 'machine'], 1)
    _recorded_command_line(ctx)


def _recorded_command_line(ctx: RuleCtx) -> None:
    """on reconfigure the options given now override the ones recorded in cmd_line.txt: in the merged mapping the
    current command line comes last"""
    cm = ctx.repo.module(CMDLINE)
    qn = 'read_cmd_line_file'
    if not cm.has_func(qn):
        raise Undecided(f'{CMDLINE}: {qn} not found')
    fn = cm.func(qn)
    D = 'ARG2.cmd_line_options'
    n = 0
    for r in S.Sym(fn).rows():
        stores = [f for f in r.fx if f.kind == 'store' and norm(f.node[0]) == D and norm(f.node[1]) != D]
        if not stores:
            continue
        if len(stores) != 1:
            raise Undecided(f'{qn}: cmd_line_options stored {len(stores)} times on a path')
        parts = _dict_build(r, stores[0])
        if not parts:
            raise Undecided(f'{qn}: merged command line built in an unknown way: {stores[0].text}')
        # every part is either the current command line or something recorded (items / a comprehension over the file)
        kinds_: T.List[str] = []
        for p in parts:
            k = 'command line' if p[0] == 'spread' and norm(p[1]) == D else 'recorded'
            if k == 'recorded' and D in norm(p[1] if p[0] == 'spread' else p[2]):
                raise Undecided(f'{qn}: merged command line built in an unknown way: {stores[0].text}')
            if not kinds_ or kinds_[-1] != k:
                kinds_.append(k)
        if 'command line' not in kinds_:
            raise Undecided(f'{qn}: the current command line is not part of the merged mapping: {stores[0].text}')
        n += 1
        if kinds_[-1] != 'command line':
            ctx.violation(cm, qn, stores[0].src, f'the merged mapping is built in the order {kinds_}: the recorded options come last and override the ones '
                          f'given on the current command line; reference: recorded first, current command line last', stores[0].src, path=repr(r))
            return
    if n:
        ctx.ok(f'{qn}: the current command line is merged over the recorded one ({n} paths)')
    else:
        raise Undecided(f'{qn}: no path stores the merged command line into options.cmd_line_options')


ARG_KIND = [('invoker_method_default_options', 'spcall'), ('project_default_options', 'project'), ('cmd_line_options', 'cmdline'),
            ('environment.options', 'machine'), ('subproject', 'subproject')]


def _classify_arg(e: ast.AST) -> str:
    if isinstance(e, ast.Dict) and not e.keys:
        return 'empty'
    ch = attr_chain(e)
    if ch is None:
        return '?' + short(e)
    for suffix, kind in ARG_KIND:
        if ch == suffix or ch.endswith('.' + suffix):
            return kind
    return '?' + ch


def _call_sites(ctx: RuleCtx, method: str, expect: T.List[str], floor: int) -> None:
    n = 0
    for rel in (INTERP, INTRO):
        m = ctx.repo.module(rel)
        for q, f in m.funcs().items():
            for c in walk_no_nested(f):
                if isinstance(c, ast.Call) and is_call(c, method):
                    if c.keywords or any(isinstance(a, ast.Starred) for a in c.args):
                        raise Undecided(f'{rel}: {q}: call of {method} with keyword/starred arguments')
                    kinds = [_classify_arg(a) for a in c.args]
                    if any(k.startswith('?') for k in kinds):
                        raise Undecided(f'{rel}: {q}: cannot classify the arguments of {method}: {kinds}')
                    ok = len(kinds) == len(expect) and all(k == e or k == 'empty' for k, e in zip(kinds, expect))
                    n += 1
                    ctx.require(ok, f'{rel}: {q}: {method} receives {kinds}', m, q, c,
                                f'{method} is called with ({", ".join(kinds)}); the callee expects ({", ".join(expect)}) by position', c)
    ctx.floor(f'call sites of {method}', n, floor)


# ---------------------------------------------------------------------------
# R2  subproject eight-step merge
SUB_SRC = {'ARG2': 'spcall', 'ARG3': 'project', 'ARG4': 'cmdline', 'ARG5': 'machine', 'self.pending_subproject_options': 'pending'}
# frozen copy of the bullet list of Builtin-options.md "Specifying options per subproject" (cross-checked with the parsed document)
DOC_STEPS = [('parent', 'opt'), ('project', 'opt'), ('machine', 'opt'), ('cmdline', 'opt'), ('parent', 'subp:opt'), ('spcall', 'opt'),
             ('machine', 'subp:opt'), ('cmdline', 'subp:opt')]


def _doc_steps(ctx: RuleCtx) -> T.List[T.Tuple[str, str]]:
    text = ctx.repo.read(DOC)
    lines = text.splitlines()
    try:
        i = next(k for k, l in enumerate(lines) if l.strip() == 'The value is overridden in this order:')
    except StopIteration:
        raise Undecided(f'{DOC}: the sentence "The value is overridden in this order:" was not found')
    out: T.List[T.Tuple[str, str]] = []
    for l in lines[i + 1:]:
        s = l.strip()
        if not s:
            if out:
                break
            continue
        if not s.startswith('- '):
            break
        qual = 'subp:opt' if '`subp:opt=value`' in s else ('opt' if '`opt=value`' in s else '?')
        low = s.lower()
        if '`subproject()`' in s:
            src = 'spcall'
        elif "subproject's" in low:
            src = 'project'
        elif 'parent project' in low:
            src = 'parent'
        elif 'machine file' in low:
            src = 'machine'
        elif 'command line' in low:
            src = 'cmdline'
        else:
            src = '?'
        if '?' in (qual, src):
            raise Undecided(f'{DOC}: cannot interpret the bullet {s!r}')
        out.append((src, qual))
    return out


def _events_from_steps(steps: T.List[T.Tuple[str, str]]) -> T.List[T.Tuple[str, str]]:
    """Reference event sequence on the merged mapping derived from the documented order.

    The first step (parent default_options `opt`) is the global value set by the top-level initialiser; a global
    `opt` from machine file / command line *removes* the subproject's own default (so that the global value shows
    through); everything else is a write, unqualified keys being re-keyed to the subproject."""
    if not steps or steps[0] != ('parent', 'opt'):
        raise Undecided(f'documented order does not start with the parent default_options: {steps[:1]}')
    out: T.List[T.Tuple[str, str]] = []
    for src, qual in steps[1:]:
        if qual == 'opt' and src in ('machine', 'cmdline'):
            out.append((src, 'pop'))
        elif qual == 'opt' and src in ('project', 'spcall'):
            out.append((src, 'rekey-write'))
        elif qual == 'subp:opt' and src == 'parent':
            out.append(('pending', 'write-qualified'))
        elif qual == 'subp:opt' and src in ('machine', 'cmdline'):
            out.append((src, 'write-qualified'))
        else:
            raise Undecided(f'documented step {(src, qual)} has no counterpart in the merge')
    return out


def _norm_events(ev: T.List[T.Tuple[str, str]]) -> T.List[T.Any]:
    """adjacent removals commute: group them"""
    out: T.List[T.Any] = []
    for e in ev:
        if e[1] == 'pop':
            if out and isinstance(out[-1], frozenset):
                out[-1] = out[-1] | {e}
            else:
                out.append(frozenset({e}))
        else:
            out.append(e)
    return out


def r2(ctx: RuleCtx) -> None:
    _signatures(ctx)
    mod = ctx.repo.module(OPT)
    steps = _doc_steps(ctx)
    ctx.require(steps == DOC_STEPS, f'{DOC}: the documented override order has the 8 known steps', DOC, '<document>', 'The value is overridden in this order',
                f'the documented order is now {steps}; the checker was written against {DOC_STEPS}')
    want = _events_from_steps(steps)
    qn = 'OptionStore.initialize_from_subproject_call'
    fn = mod.func(qn)
    sym = S.Sym(fn, pure={'evolve', 'as_root', 'is_project_option', 'option_has_value'})
    items, _ = S.straight_line(sym, fn, qn, mod, 'OptionStore')
    news = [x.node[0] for k, x in items if k == 'fx' and x.kind == 'new']
    if len(news) != 1:
        raise Undecided(f'{qn}: expected exactly one local accumulator mapping, found {news}')
    opts = news[0]
    for kind, x in items:
        if kind == 'block':
            raise Undecided(f'{qn}: compound statement at top level: {short(x[0])}')
    for kind, x in items:
        if kind == 'fx' and x.kind in ('call', 'store', 'augstore', 'del') and not is_logging(x) and opts in names_of(x.node if isinstance(x.node, ast.AST) else ast.Tuple(elts=[n for n in x.node if isinstance(n, ast.AST)], ctx=ast.Load())):
            raise Undecided(f'{qn}: the merged mapping is handed to / changed by {x.text} outside the loops this rule can see into')
    loops = [x for k, x in items if k == 'loop']
    is_sub, is_none = A('KEY.subproject == ARG1'), A('KEY.subproject is None')
    projopt = A('self.is_project_option(KEY.as_root())')
    rekey = P('KEY.evolve(subproject=ARG1)')
    events: T.List[T.Tuple[str, str]] = []
    merged = False
    for loop in loops:
        srcs = [norm(s) for s in S.chain_sources(loop.iter)]
        rows = loop_rows(sym, loop)
        tab = S.to_table(rows, f'{qn}:loop{loop.index}')
        lq = f'{qn} loop over {" + ".join(SUB_SRC.get(s, s) for s in srcs)}'
        if srcs == [opts]:
            _merge_loop(ctx, mod, lq, fn, tab, opts)
            merged = True
            continue
        if merged:
            ctx.violation(mod, qn, loop.node.iter, f'a loop over {srcs} runs after the final merge loop; its entries are never applied', loop.node)
            continue
        if any(s not in SUB_SRC for s in srcs):
            raise Undecided(f'{lq}: unknown source')
        pops = any((f.kind == 'call' and is_call(f.node, 'pop')) or f.kind == 'del' for r in rows for f in visible(r))
        raises = any(r.outcome[0] == 'raise' for r in rows)

        def classify(f: S.Fx) -> T.Optional[str]:
            if f.kind == 'store' and isinstance(f.node[0], ast.Subscript) and norm(f.node[0].value) == opts:
                if f.text == f'{opts}[{rekey}] := VAL':
                    return 'write-rekeyed'
                if f.text == f'{opts}[KEY] := VAL':
                    return 'write'
                return 'write?' + f.text
            if f.kind == 'call' and is_call(f.node, 'pop') and norm(f.node.func.value) == opts:
                return 'pop-rekeyed' if f.text == f'{opts}.pop({rekey}, None)' else 'pop?' + f.text
            if f.kind == 'del' and isinstance(f.node, ast.Subscript) and norm(f.node.value) == opts:
                return 'pop-rekeyed' if norm(f.node.slice) == rekey else 'pop?' + f.text
            return None

        def got(r: tables.Row, lq: str = lq) -> T.Any:
            return tokens(lq, r, classify)
        if pops:
            mode = 'pop'
            present = A(f'{rekey} in {opts}')
            sem = {is_none: 'none', projopt: 'top_project_option', present: 'present',
                   A('self.is_project_option(KEY)'): 'project-option test on the key without as_root() (never true for a global key)'}

            def ref(v: T.Dict[str, bool]) -> T.Any:
                if 'present' in v and not v['present']:
                    return None      # nothing to remove: pop(k, None) and a guarded del agree
                return ('pop-rekeyed',) if v['none'] and not v['top_project_option'] else ()
            desc = 'reference (a global key that is not a top-level project option removes the re-keyed own default; nothing else)'
        elif raises:
            mode = 'rekey-write'
            sem = {is_sub: 'own', is_none: 'none'}

            def ref(v: T.Dict[str, bool]) -> T.Any:
                if v['own'] and v['none']:
                    return None   # infeasible: the subproject name is not None
                if v['own']:
                    return ('raise', 'MesonException')
                return ('write-rekeyed',) if v['none'] else ('write',)
            desc = 'reference (own-qualified key rejected, unqualified key re-keyed to the subproject, foreign key kept)'
        else:
            mode = 'write-qualified'
            sem = {is_sub: 'own', is_none: 'none'}

            def ref(v: T.Dict[str, bool]) -> T.Any:
                if v['own'] and v.get('none'):
                    return None   # infeasible: the subproject name is not None
                return ('write',) if v['own'] else ()
            desc = 'reference (only keys qualified with this subproject are written)'
        S.compare(ctx, mod, lq, fn, tab, sem, lambda w, sem=sem: {k: w[a] for a, k in sem.items() if a in w}, ref, got, [a for a in sem if sem[a] != 'present'], what=desc)
        events.extend((SUB_SRC[s], mode) for s in srcs)
    ctx.floor('merge loops of the subproject initialiser', len(loops), 3)
    if not merged:
        raise Undecided(f'{qn}: no loop over the merged mapping {opts} was found at the top level (moved into a helper or comprehension?)')
    ctx.ok(f'{qn}: the merged mapping is applied by a final loop')
    g, w = _norm_events(events), _norm_events(want)
    ctx.require(g == w, f'{qn}: {len(events)} write/remove events in the documented order', mod, qn, 'order of the write events into the merged mapping',
                f'events on the merged mapping are {events}; the order documented in Builtin-options.md (later overrides earlier) gives {want}', fn)
    tail = [x for k, x in items if k == 'fx' and x.kind == 'call']
    if any(f.text == 'self.subprojects.add(ARG1)' for f in tail):
        ctx.ok(f'{qn}: the subproject is recorded as processed')
    else:
        other = [x for k, x in items if k == 'fx' and x.kind != 'let' and 'subprojects' in x.text] + foreign_calls([x for k, x in items if k == 'fx'], ())
        if other:
            raise Undecided(f'{qn}: cannot tell whether the subproject is recorded as processed ({other[0].text})')
        ctx.violation(mod, qn, 'self.subprojects.add(subproject)', 'the function has no effect besides its loops: the subproject is never added to self.subprojects', fn)
    _call_sites(ctx, 'initialize_from_subproject_call', ['subproject', 'spcall', 'project', 'cmdline', 'machine'], 1)


def _merge_loop(ctx: RuleCtx, mod: T.Any, lq: str, fn: ast.AST, tab: tables.Table, opts: str) -> None:
    is_sub = A('KEY.subproject == ARG1')
    seen = A('KEY.subproject in self.subprojects')
    same = A('self.option_has_value(KEY, VAL)')
    aug = A('KEY in self.augments')
    sem = {is_sub: 'own', seen: 'processed', same: 'same_value', aug: 'augmented'}

    def ref(v: T.Dict[str, bool]) -> T.Any:
        if not v['own']:
            if v['processed'] and not v['same_value']:
                return ()          # only a warning: neither parked nor applied
            return ('park',)
        return ('forget-pending',) + (() if v['augmented'] else ('apply',))

    FORGET = ('self.pending_subproject_options.pop(KEY, None)', 'self.pending_options.pop(KEY, None)')

    def classify(f: S.Fx) -> T.Optional[str]:
        k = _apply_kind(f)
        if k is not None:
            return k
        if f.kind == 'call' and f.text in FORGET:
            return 'forget:' + f.text
        return None

    def got(r: tables.Row) -> T.Any:
        t = tokens(lq, r, classify)
        if t and t[0] in ('raise', 'leaves'):
            return t
        forget = {x for x in t if x.startswith('forget:')}
        rest = [x for x in t if not x.startswith('forget:')]
        # the two removals are independent of each other but must precede the application
        if forget and any(not x.startswith('forget:') for x in t[:len(forget)]):
            rest.insert(0, 'forget-late')
        if forget:
            rest.insert(0, 'forget-pending' if len(forget) == 2 else 'forget-partly')
        return tuple(rest)
    S.compare(ctx, mod, lq, fn, tab, sem, lambda w: {k: w[a] for a, k in sem.items()}, ref, got, list(sem),
              what='reference (foreign keys are parked or warned about; own keys leave the pending maps and are applied through '
                   'set_user_option(key, value, True) unless an augment already exists)')


# ---------------------------------------------------------------------------
# R3  lookup order
def r3(ctx: RuleCtx) -> None:
    _signatures(ctx)
    mod = ctx.repo.module(OPT)
    qn = 'OptionStore.get_option_and_value_for'
    fn = mod.func(qn)
    # the option object's pure accessors (closed-world unique, call-free bodies) read as their bodies: `o.effective()` whose
    # body is `if self.yielding: return self.parent.value; return self.value` is the same lookup as the inline spelling
    with S.accessors():
        rows = S.Sym(fn).rows()
    tab = S.to_table(rows, qn)
    for r_ in rows:
        if r_.outcome[0] == 'return' and r_.value is not None:
            for c_ in ast.walk(r_.value):
                if isinstance(c_, ast.Call) and not (is_call(c_, 'ensure_and_validate_key') or is_call(c_, 'resolve_option')):
                    raise Undecided(f'{qn}: the result is computed by a call whose body was not read: {short(c_)}')
    K = P('self.ensure_and_validate_key(ARG1)')
    O = P(f'self.resolve_option({K})')
    aug, yld = A(f'{K} in self.augments'), A(f'{O}.yielding')
    sem = {aug: 'augment', yld: 'yielding'}

    def ref(v: T.Dict[str, bool]) -> T.Any:
        if v['augment']:
            return ('return', P(f'({O}, self.augments[{K}])'))
        if v['yielding']:
            return ('return', P(f'({O}, {O}.parent.value)'))
        return ('return', P(f'({O}, {O}.value)'))
    S.compare(ctx, mod, qn, fn, tab, sem, lambda w: {k: w[a] for a, k in sem.items()}, ref, lambda r: r.outcome, list(sem),
              what='reference lookup (augment of the canonical key, else the value of the yielding parent, else the own value)')
    ctx.floor('lookup rows', len(rows), 2)
    # the value getter is this function's second result
    qn2 = 'OptionStore.get_value_for'
    fn2 = mod.func(qn2)
    rows2 = S.Sym(fn2).rows()
    for r in rows2:
        if r.outcome[0] == 'raise':
            continue
        v = r.value
        if not (r.outcome[0] == 'return' and isinstance(v, ast.Subscript) and is_call(v.value, 'get_option_and_value_for') and isinstance(v.slice, ast.Constant)):
            raise Undecided(f'{qn2}: result of unknown form: {r.outcome}')
        if v.slice.value not in (1, -1):
            ctx.violation(mod, qn2, v, f'get_value_for returns element {v.slice.value} of get_option_and_value_for(...): the option object, not the computed value', fn2)
            break
    else:
        ctx.ok(f'{qn2}: returns the value computed by get_option_and_value_for on {len(rows2)} paths')


# ---------------------------------------------------------------------------
# set_option, analysed in two parts: the head up to the validation statement, and the tail from it
class NoValidation(Undecided):
    pass


class SetOption:
    def __init__(self, ctx: RuleCtx):
        self.mod = ctx.repo.module(OPT)
        self.qn = 'OptionStore.set_option'
        self.fn = self.mod.func(self.qn)
        stmts = S.prepare(self.fn.body, self.fn)
        idx = [i for i, st in enumerate(stmts) if any(is_call(c, 'validate_value') for c in walk_no_nested(st))]
        if not idx:
            raise NoValidation(f'{self.qn}: no call of validate_value at the top level of the function')
        self.split = idx[0]
        vst = stmts[self.split]
        if isinstance(vst, (ast.If, ast.For, ast.While, ast.Try, ast.With)):
            raise Undecided(f'{self.qn}: the validation is inside a compound statement: {short(vst)}')
        rets = [st for st in stmts if isinstance(st, ast.Return)]
        if len(rets) != 1 or not isinstance(rets[0].value, ast.Name):
            raise Undecided(f'{self.qn}: expected a single top-level `return <name>`')
        self.changed = rets[0].value.id
        self.head = S.Sym(self.fn, opaque={self.changed}).rows(body=stmts[:self.split], prepared=True)
        # the option object the value is validated for: the same expression on every head path
        call = next(c for c in walk_no_nested(vst) if is_call(c, 'validate_value'))
        if not (isinstance(call, ast.Call) and isinstance(call.func, ast.Attribute) and len(call.args) == 1 and isinstance(call.args[0], ast.Name) and not call.keywords):
            raise Undecided(f'{self.qn}: validation statement is {short(vst)}')
        self.inname = call.args[0].id
        falling = [r for r in self.head if r.outcome[0] == 'fall']
        if not falling:
            raise Undecided(f'{self.qn}: no path reaches the validation')
        # locals whose value at the validation does not depend on the path taken through the head keep that value
        # in the tail; the value being validated is the symbol RAW
        env0: T.Dict[str, ast.AST] = {}
        for name in set().union(*[set(r.env) for r in falling]):
            vals = {norm(r.env[name]) if name in r.env else None for r in falling}
            if len(vals) == 1 and None not in vals and name != self.changed:
                env0[name] = falling[0].env[name]
        env0[self.inname] = ast.Name(id='RAW', ctx=ast.Load())
        self.obj = norm(S.sub(env0, call.func.value))
        self.tail = S.Sym(self.fn, opaque={self.changed}).rows(body=stmts[self.split:], env0=env0, prepared=True)
        self.NV = norm(S.sub(env0, call))


_SO_CACHE: T.Dict[int, T.Tuple[T.Any, SetOption]] = {}


def _set_option(ctx: RuleCtx) -> SetOption:
    hit = _SO_CACHE.get(id(ctx.check))
    if hit is None or hit[0] is not ctx.check:
        _SO_CACHE.clear()
        hit = (ctx.check, SetOption(ctx))
        _SO_CACHE[id(ctx.check)] = hit
    return hit[1]


# ---------------------------------------------------------------------------
# R4  validate before store
def _is_validated(value: ast.AST, recv_text: str) -> bool:
    return isinstance(value, ast.Call) and isinstance(value.func, ast.Attribute) and value.func.attr == 'validate_value' \
        and norm(value.func.value) == recv_text and len(value.args) == 1 and not value.keywords


def r4(ctx: RuleCtx) -> None:
    _signatures(ctx)
    mod = ctx.repo.module(OPT)
    sites = c07_scan._sites(mod.tree)
    # (a) .value of an option is only ever assigned the result of its own validate_value
    funcs: T.Dict[str, T.Any] = {}
    for s in sites:
        if s.kind == 'value':
            if s.note != 'assignment' or s.func is None:
                raise Undecided(f'{OPT}: {s.qual}: {s.note} to .value')
            funcs[s.qual] = s.func
    nstores = 0
    for q, f in funcs.items():
        rows = S.Sym(f).rows()
        for r in rows:
            for fx in r.fx:
                if fx.kind in ('store', 'augstore') and isinstance(fx.node[0], ast.Attribute) and fx.node[0].attr == 'value':
                    nstores += 1
                    recv = norm(fx.node[0].value)
                    ok = fx.kind == 'store' and _is_validated(fx.node[1], recv)
                    ctx.require(ok, f'{q}: {recv}.value := {recv}.validate_value(...)', mod, q, fx.src,
                                f'{fx.text}: the stored value is not the result of {recv}.validate_value(...)', fx.src)
    ctx.floor('assignments to .value in options.py', len(funcs), 2)
    ctx.floor('.value stores on paths', nstores, 2)
    # (b) augments / set_value in set_option store the validated value of the option resolved for the same key
    try:
        so = _set_option(ctx)
    except NoValidation as e:
        ctx.violation(mod, 'OptionStore.set_option', 'validate_value', f'{e}: values are stored unvalidated', mod.func('OptionStore.set_option'))
        c07_scan.scan(ctx)
        return
    for r in so.head:
        for fx in r.fx:
            if fx.kind in ('store', 'augstore') or (fx.kind == 'call' and is_call(fx.node, 'set_value')):
                ctx.violation(mod, so.qn, fx.src, f'{fx.text}: option state is written before the value has been validated', fx.src)
    m = re.fullmatch(r'self\.resolve_option\((.*)\)', so.obj)
    if not (m and m.group(1) == 'ARG1'):
        if not (m or re.fullmatch(r'self\.options\[.*\]', so.obj)):
            raise Undecided(f'{so.qn}: the value is validated by {so.obj}: cannot tell which option that is')
        ctx.violation(mod, so.qn, 'receiver of validate_value', f'the value is validated by {so.obj}; reference: self.resolve_option(key), the option the value is then stored for', so.fn)
        return
    ctx.ok(f'{so.qn}: the value is validated by the option resolved for the key being set')
    assert m is not None
    keytxt = m.group(1)
    naug = nset = 0
    for r in so.tail:
        for fx in r.fx:
            if fx.kind in ('store', 'augstore') and isinstance(fx.node[0], ast.Subscript) and norm(fx.node[0].value) == 'self.augments':
                naug += 1
                ok = fx.kind == 'store' and norm(fx.node[0].slice) == keytxt and norm(fx.node[1]) == so.NV
                if not ok:
                    ctx.violation(mod, so.qn, fx.src, f'{fx.text}: the augment must be stored under the key ({keytxt}) whose option validated the value, '
                                  f'and the stored value must be {so.NV}', fx.src)
            elif fx.kind == 'call' and is_call(fx.node, 'set_value'):
                nset += 1
                ok = norm(fx.node.func.value) == so.obj and len(fx.node.args) == 1 and norm(fx.node.args[0]) == so.NV
                if not ok:
                    ctx.violation(mod, so.qn, fx.src, f'{fx.text}: set_value must be applied to {so.obj} with the validated value {so.NV}', fx.src)
        for c in _calls_in_conditions(r, 'set_value'):
            nset += 1
            if not (norm(c.func.value) == so.obj and len(c.args) == 1 and norm(c.args[0]) == so.NV):  # type: ignore[attr-defined]
                ctx.violation(mod, so.qn, norm(c), f'{norm(c)} (in a condition): set_value must be applied to {so.obj} with the validated value {so.NV}', so.fn)
    if naug:
        ctx.ok(f'{so.qn}: augments[{keytxt}] receives {so.NV} on {naug} paths')
    if nset:
        ctx.ok(f'{so.qn}: {so.obj}.set_value receives the validated value on {nset} paths')
    ctx.floor('paths of set_option storing an augment', naug, 1)
    ctx.floor('paths of set_option storing into the option object', nset, 1)
    # any other writer of augments inside options.py
    for s in sites:
        if s.kind == 'augments' and s.qual != so.qn:
            if s.func is None:
                raise Undecided(f'{OPT}: augments written at module level')
            if s.func.name.startswith('_') and not s.func.name.startswith('__'):
                callers = {q for q, f in mod.funcs().items() if any(is_call(c, s.func.name) for c in walk_no_nested(f))}
                if callers and callers <= {so.qn}:
                    ctx.note(f'{s.qual}: private helper called only from {so.qn}; its stores are judged there after inlining')
                    continue
                raise Undecided(f'{OPT}: {s.qual} writes augments and is called from {sorted(callers)}; only call sites inside set_option are followed')
            for r in S.Sym(s.func).rows():
                for fx in r.fx:
                    if fx.kind in ('store', 'augstore') and isinstance(fx.node[0], ast.Subscript) and norm(fx.node[0].value) == 'self.augments':
                        k = norm(fx.node[0].slice)
                        ctx.require(fx.kind == 'store' and _is_validated(fx.node[1], f'self.resolve_option({k})'), f'{s.qual}: augments[{k}] validated', mod, s.qual, fx.src,
                                    f'{fx.text}: the stored augment is not self.resolve_option({k}).validate_value(...)', fx.src)
                    elif fx.kind == 'call' and norm(fx.node.func).startswith('self.augments.') and fx.node.func.attr in ('update', 'setdefault', '__setitem__'):
                        ctx.violation(mod, s.qual, fx.src, f'{fx.text}: bulk write into augments bypasses validate_value', fx.src)
    # (c) nobody outside options.py stores into an option's .value or into augments (one justified, re-verified exception)
    c07_scan.scan(ctx)


# ---------------------------------------------------------------------------
def _calls_in_conditions(r: S.SRow, name: str) -> T.List[ast.Call]:
    """calls of `name` that are evaluated as (part of) a branch condition on this path"""
    out: T.List[ast.Call] = []
    for a in r.conds:
        for x in a.args:
            for t in (x if isinstance(x, tuple) else (x,)):
                try:
                    e = ast.parse(str(t), mode='eval').body
                except SyntaxError:
                    continue
                out.extend(c for c in ast.walk(e) if is_call(c, name))
    return out


def r5(ctx: RuleCtx) -> None:
    _signatures(ctx)
    c07_val.run(ctx)


# ---------------------------------------------------------------------------
# R6  buildtype expansion
def _doc_buildtype_table(ctx: RuleCtx) -> T.Dict[str, T.Tuple[str, bool]]:
    lines = ctx.repo.read(DOC).splitlines()

    def cells(l: str) -> T.List[str]:
        return [c.strip() for c in l.strip().strip('|').split('|')]
    for i, l in enumerate(lines):
        if l.lstrip().startswith('|') and cells(l) == ['buildtype', 'debug', 'optimization']:
            out: T.Dict[str, T.Tuple[str, bool]] = {}
            for r in lines[i + 2:]:
                if not r.lstrip().startswith('|'):
                    break
                c = cells(r)
                if len(c) != 3 or c[1] not in ('true', 'false'):
                    raise Undecided(f'{DOC}: cannot interpret the buildtype row {r!r}')
                out[c[0]] = (c[2], c[1] == 'true')
            return out
    raise Undecided(f'{DOC}: the table "buildtype | debug | optimization" was not found')


REF_BUILDTYPES = {'plain': ('plain', False), 'debug': ('0', True), 'debugoptimized': ('2', True), 'release': ('3', False), 'minsize': ('s', True)}


def _guard_rows(ctx: RuleCtx, mod: T.Any, qn: str, rows: T.List[S.SRow], fired: T.Callable[[S.SRow], T.List[S.Fx]],
                guard: T.Dict[Atom, bool], what: str, names: T.Dict[Atom, str]) -> T.Tuple[int, int]:
    """`what` happens on a path exactly when every guard atom was observed with the given polarity."""
    on = off = 0
    for r in rows:
        fx = fired(r)
        wrong = [a for a, v in guard.items() if a in r.conds and r.conds[a] != v]
        missing = [a for a in guard if a not in r.conds]
        if fx:
            on += 1
            if wrong or missing:
                lacking = [names[a] for a in wrong + missing]
                ctx.violation(mod, qn, fx[0].src, f'{what} ({fx[0].text}) happens on a path that does not require: {", ".join(lacking)}', fx[0].src,
                              path=repr(r))
        elif r.outcome[0] != 'raise':
            off += 1
            if not wrong and not r.unentered:
                hidden = foreign_calls(r.fx, ('set_value', 'set_option', 'reset_prefixed_options', 'validate_value'))
                if hidden:
                    raise Undecided(f'{qn}: {what} not found on a path that calls {hidden[0].text}, which this rule cannot see into')
                have = [names[a] for a in guard if a in r.conds]
                ctx.violation(mod, qn, f'{what}: missing', f'{what} does not happen on a path where {", ".join(have) or "no guard was tested"} held and no guard failed: '
                              f'an additional condition suppresses it, or it was removed', mod.func(qn), path=repr(r))
    return on, off


def r6(ctx: RuleCtx) -> None:
    _signatures(ctx)
    mod = ctx.repo.module(OPT)
    doc = _doc_buildtype_table(ctx)
    ctx.require(doc == REF_BUILDTYPES, f'{DOC}: buildtype table has the 5 known rows', DOC, '<document>', 'buildtype | debug | optimization',
                f'the documented table is now {doc}; the checker was written against {REF_BUILDTYPES}')
    so = _set_option(ctx)
    NV = so.NV
    changed = A(so.changed)
    isbt = A("ARG1.name == 'buildtype'")
    custom = A(f"{NV} == 'custom'")
    names = {changed: 'the value changed', isbt: "key.name == 'buildtype'", custom: "new value != 'custom'"}

    def expansions(r: S.SRow) -> T.List[S.Fx]:
        return [f for f in r.fx if f.kind == 'call' and is_call(f.node, 'set_option')]
    on, off = _guard_rows(ctx, mod, so.qn, so.tail, expansions, {changed: True, isbt: True, custom: False}, 'the buildtype expansion', names)
    ctx.floor('paths with the buildtype expansion', on, 1)
    ctx.floor('paths without it', off, 2)
    ctx.ok(f'{so.qn}: debug/optimization are derived exactly when the value changed to a non-custom buildtype ({on} paths with, {off} without)')
    # the table(s) are found by role: whatever the expansion reads, indexed by the validated buildtype
    keyform = {P(f"ARG1.evolve(name='{k}')"): k for k in ('debug', 'optimization')}
    problem = None
    npaths = 0
    shapes: T.Dict[str, T.Set[T.Tuple[str, T.Any]]] = {'debug': set(), 'optimization': set()}
    site: T.Dict[str, S.Fx] = {}
    for r in so.tail:
        ex = expansions(r)
        if not ex:
            continue
        npaths += 1
        seen: T.Set[str] = set()
        for f in ex:
            a = call_args(f.node, ['key', 'new_value', 'first_invocation'])
            if set(a) == {'key', 'new_value'}:
                problem = (f, f'{f.text}: first_invocation is not passed on (the parameter default False applies to the dependants)')
                break
            if set(a) != {'key', 'new_value', 'first_invocation'}:
                raise Undecided(f'{so.qn}: recursive call {f.text}')
            k, v = a['key'], a['new_value']
            if norm(k) not in keyform:
                if is_call(k, 'OptionKey') and len(k.args) == 1 and not k.keywords:  # type: ignore[attr-defined]
                    problem = (f, f'{f.text}: the dependant is set under the global key {norm(k)}; reference: key.evolve(name=...), the same subproject and machine as the buildtype being set')
                    break
                raise Undecided(f'{so.qn}: dependant key of unknown form: {norm(k)}')
            which = keyform[norm(k)]
            seen.add(which)
            col = None
            t = v
            if isinstance(t, ast.Subscript) and isinstance(t.slice, ast.Constant) and isinstance(t.slice.value, int) and isinstance(t.value, ast.Subscript):
                col, t = t.slice.value, t.value
            elif isinstance(t, ast.Attribute) and isinstance(t.value, ast.Subscript):
                col, t = t.attr, t.value          # a record (NamedTuple / dataclass) instead of a tuple
            if not (isinstance(t, ast.Subscript) and norm(t.slice) == NV and attr_chain(t.value)):
                raise Undecided(f'{so.qn}: dependant value of unknown form: {norm(v)}')
            shapes[which].add((attr_chain(t.value) or '', col))
            site[which] = f
            if norm(a['first_invocation']) != 'ARG3':
                problem = (f, f'{f.text}: first_invocation is not passed on')
                break
        if problem is None and seen != set(shapes):
            problem = (ex[0], f'the expansion sets only {sorted(seen)} ({"; ".join(x.text for x in ex)}); reference: debug and optimization')
        if problem is not None:
            break
    if problem is not None:
        ctx.violation(mod, so.qn, problem[0].src, problem[1], problem[0].src)
    else:
        ctx.ok(f'{so.qn}: the expansion sets debug and optimization under key.evolve(name=...) from a table indexed by the validated buildtype, first_invocation passed on ({npaths} paths)')
        if any(len(x) != 1 for x in shapes.values()):
            raise Undecided(f'{so.qn}: the expansion reads different tables on different paths: {shapes}')
        composed: T.Dict[str, T.Dict[str, T.Any]] = {}
        names = {}
        for which, sh in shapes.items():
            chain, col = next(iter(sh))
            tname = chain.split('.')[-1]
            head = chain.split('.')[:-1]
            if head not in ([], ['self'], ['cls'], ['OptionStore']):
                raise Undecided(f'{so.qn}: table {chain} is not a constant of OptionStore or of the module')
            cls = 'OptionStore' if head and mod.has_assign(tname, mod.cls('OptionStore')) else None
            if head and cls is None:
                raise Undecided(f'{so.qn}: {chain} is not a class-level constant')
            tab = _fold_table(ctx, mod, tname, cls)
            try:
                composed[which] = {k: (v[col] if col is not None else v) for k, v in tab.items()}
            except (TypeError, IndexError, KeyError):
                raise Undecided(f'{tname}: rows are not indexable by {col}')
            names[which] = f'{tname}' + (f'[..][{col}]' if col is not None else '[..]')
        keys = set(composed['debug']) | set(composed['optimization'])
        got_tab = {k: (composed['optimization'].get(k), composed['debug'].get(k)) for k in keys}
        anchor = site['debug'].src
        ctx.require(got_tab == doc, f'buildtype -> (optimization, debug) read by the expansion ({names["optimization"]}, {names["debug"]}) equals the documented table ({len(doc)} build types)',
                    mod, 'OptionStore', f'{names["optimization"]} / {names["debug"]}',
                    f'the expansion derives buildtype -> (optimization, debug) = {got_tab} from {names["optimization"]} and {names["debug"]}; Builtin-options.md documents {doc}', anchor)
        types = fold_const(ctx.repo, mod, 'buildtypelist')
        ctx.require(set(composed['debug']) == set(composed['optimization']) == set(types) - {'custom'}, 'every build type except custom has an expansion', mod, 'OptionStore',
                    'keys of the buildtype tables', f'expansions exist for {sorted(keys)}; build types are {types}', anchor)
    _changed_semantics(ctx, so)
    # command line: buildtype first, so that explicit debug/optimization are applied after its expansion
    cm = ctx.repo.module(CMDLINE)
    qn = 'parse_cmd_line_options'
    fn = cm.func(qn)
    rows = S.Sym(fn).rows()
    BT = "OptionKey('buildtype')"
    D = 'ARG1.cmd_line_options'
    has = A(f'{BT} in {D}')
    n = 0
    for r in rows:
        if r.outcome[0] == 'raise':
            continue
        stores = [f for f in r.fx if f.kind in ('store', 'augstore') and norm(f.node[0]) == D and not (f.kind == 'store' and norm(f.node[1]) == D)]   # x.a = x.a changes nothing
        if has not in r.conds:
            raise Undecided(f'{qn}: a path does not test whether buildtype is on the command line: {r!r}')
        n += 1
        if r.conds[has]:
            if not stores:
                hidden = foreign_calls(r.fx, ('pop',))
                if hidden:
                    raise Undecided(f'{qn}: cmd_line_options is not rebuilt here, but {hidden[0].text} may do it')
            if len(stores) != 1 or stores[0].kind != 'store':
                ctx.violation(cm, qn, stores[0].src if stores else 'cmd_line_options not rebuilt', f'with buildtype on the command line the mapping is rewritten {len(stores)} times '
                              f'({[f.text for f in stores]}); reference: once, as {{buildtype: popped value, **rest}} so that explicit debug/optimization are applied after the expansion', fn)
                continue
            parts = _dict_build(r, stores[0])
            if parts is None or not parts:
                raise Undecided(f'{qn}: cannot read how the new mapping is built: {stores[0].text}')
            keys = [norm(p[1]) if p[0] == 'item' else None for p in parts]
            if keys[0] == BT:
                rest_ok = [p for p in parts[1:]] == [p for p in parts[1:] if p[0] == 'spread' and norm(p[1]) == D] and len(parts) == 2
                if not rest_ok or norm(S.strip_sentinel(parts[0][2])) not in (f'{D}.pop({BT})', f'{D}[{BT}]', f'{D}.get({BT})'):
                    raise Undecided(f'{qn}: mapping built in an unknown way: {stores[0].text}')
                ctx.ok(f'{qn}: buildtype is moved to the front of cmd_line_options')
            else:
                ctx.violation(cm, qn, stores[0].src, f'with buildtype on the command line the new mapping starts with {keys[0] or "the other options"}, not with buildtype '
                              f'({stores[0].text}); reference: {{buildtype: popped value, **rest}} so that explicit debug/optimization are applied after the expansion', stores[0].src)
        else:
            ctx.require(not stores, f'{qn}: without buildtype the command line keeps its order', cm, qn, stores[0].src if stores else fn,
                        f'cmd_line_options is rewritten although buildtype is absent: {[f.text for f in stores]}', fn)
    ctx.floor('paths of parse_cmd_line_options', n, 2)


def _dict_build(r: S.SRow, store: S.Fx) -> T.Optional[T.List[T.Tuple[T.Any, ...]]]:
    """Insertion order of the mapping stored by `store`: [('item', key, value) | ('spread', mapping)].

    Understands a dict display (with `**`) and a local dict display followed by `.update(mapping)` calls."""
    def display(d: ast.Dict) -> T.List[T.Tuple[T.Any, ...]]:
        return [('spread', v) if k is None else ('item', k, v) for k, v in zip(d.keys, d.values)]
    v = store.node[1]
    if isinstance(v, ast.Dict):
        return display(v)
    if isinstance(v, (ast.DictComp, ast.Call)):
        out0: T.List[T.Tuple[T.Any, ...]] = [('spread', v)]
        vt = norm(v)
        for f in r.fx:
            if f is store:
                break
            if f.kind == 'call' and is_call(f.node, 'update') and norm(f.node.func.value) == vt and len(f.node.args) == 1 and not f.node.keywords:
                out0.append(('spread', f.node.args[0]))
        return out0
    if isinstance(v, ast.Name):
        out: T.Optional[T.List[T.Tuple[T.Any, ...]]] = None
        for f in r.fx:
            if f is store:
                break
            if f.kind == 'new' and f.node[0] == v.id:
                out = display(f.node[1]) if isinstance(f.node[1], ast.Dict) else None
            elif out is not None and v.id in names_of(f.node if isinstance(f.node, ast.AST) else ast.Tuple(elts=[n for n in f.node if isinstance(n, ast.AST)], ctx=ast.Load())):
                if f.kind == 'call' and is_call(f.node, 'update') and norm(f.node.func.value) == v.id and len(f.node.args) == 1 and not f.node.keywords:
                    out.append(('spread', f.node.args[0]))
                elif f.kind == 'store' and isinstance(f.node[0], ast.Subscript) and norm(f.node[0].value) == v.id:
                    out.append(('item', f.node[0].slice, f.node[1]))
                elif f.kind != 'let':
                    return None
        return out
    return None


def _fold_table(ctx: RuleCtx, mod: T.Any, tname: str, cls: T.Optional[str]) -> T.Dict[T.Any, T.Any]:
    """a constant table; rows may be tuples or records `Rec(a, b)` / `Rec(x=a, y=b)` of a NamedTuple / dataclass of the module
    (a record folds to a mapping field name -> value that also answers positional indices)"""
    from ..core import AnchorMissing
    try:
        e = mod.assign_value(tname, mod.cls(cls) if cls else None)
    except AnchorMissing as ex:
        raise Undecided(str(ex))
    if not isinstance(e, ast.Dict):
        v = fold_expr(ctx.repo, mod, e, cls=cls)
        if not isinstance(v, dict):
            raise Undecided(f'{tname} does not fold to a mapping')
        return v
    out: T.Dict[T.Any, T.Any] = {}
    for k, v in zip(e.keys, e.values):
        if k is None:
            raise Undecided(f'{tname}: ** in the table')
        key = fold_expr(ctx.repo, mod, k, cls=cls)
        if isinstance(v, ast.Call) and isinstance(v.func, ast.Name) and mod.has_cls(v.func.id):
            rc = mod.cls(v.func.id)
            fields = [st.target.id for st in rc.body if isinstance(st, ast.AnnAssign) and isinstance(st.target, ast.Name)]
            if len(v.args) > len(fields) or any(kw.arg not in fields for kw in v.keywords):
                raise Undecided(f'{tname}: record {norm(v)} does not match the fields {fields} of {rc.name}')
            rec: T.Dict[T.Any, T.Any] = {}
            for f_, a in list(zip(fields, v.args)) + [(kw.arg, kw.value) for kw in v.keywords]:
                rec[f_] = fold_expr(ctx.repo, mod, a, cls=cls)
            for i, f_ in enumerate(fields):
                if f_ in rec:
                    rec[i] = rec[f_]
            out[key] = rec
        else:
            out[key] = fold_expr(ctx.repo, mod, v, cls=cls)
    return out


def _changed_semantics(ctx: RuleCtx, so: SetOption) -> None:
    """the accumulator returned by set_option is updated once with `old != validated new`, old being read before the write"""
    mod = so.mod
    inopt = A('ARG1 in self.options')
    inaug = A('ARG1 in self.augments')
    n = 0

    def old_ok(r: S.SRow, o: str) -> T.Optional[bool]:
        """is `o` the place the value lived in before the write on this path?  None = unknown form"""
        own, aug_get, aug_item = f'{so.obj}.value', f'self.augments.get(ARG1, {so.obj}.value)', 'self.augments[ARG1]'
        if o not in (own, aug_get, aug_item):
            return None
        if r.conds[inopt]:
            return o == own
        if o == aug_get:
            return True
        if inaug not in r.conds:
            return False if o == own else None
        return (o == aug_item) if r.conds[inaug] else (o == own)

    for r in so.tail:
        ups = [f for f in r.fx if f.kind == 'opaque']
        if r.outcome[0] == 'raise' and not ups:
            continue
        first_test = next((i for i, t in enumerate(r.trace) if t[0] == 'cond' and t[1] == A(so.changed)), None)
        if first_test is not None and any(t[0] == 'fx' and t[1].kind == 'opaque' for t in r.trace[first_test:]):
            raise Undecided(f'{so.qn}: {so.changed} is updated after it has been tested')
        if inopt not in r.conds:
            raise Undecided(f'{so.qn}: a path does not test whether the key has its own option object: {r!r}')
        # the comparison that feeds the flag: `changed |= a != b` / `changed = changed or a != b` / `if a != b: changed = True`
        sides: T.Optional[T.List[ast.AST]] = None
        src: T.Any = so.fn
        guards = [(a, v) for a, v in r.conds.items() if a.kind == 'cmp' and a.args[0] == 'eq' and so.NV in a.args[1:] and not any(tables._is_const_text(x) for x in a.args[1:])]
        if len(ups) == 1 and not (isinstance(ups[0].node[1], ast.Constant)):
            u = ups[0].node[1]
            src = ups[0].src
            if isinstance(u, ast.BinOp) and isinstance(u.op, ast.BitOr):
                parts = [u.left, u.right]
            elif isinstance(u, ast.BoolOp) and isinstance(u.op, ast.Or) and len(u.values) == 2:
                parts = list(u.values)
            else:
                raise Undecided(f'{so.qn}: unknown form of the change-flag update: {ups[0].text}')
            # one comparison `a != b`; the other operands carry earlier contributions to the flag (the flag itself, another flag local,
            # the result of the recursive call for a replaced option)
            cmps = [x for x in parts if isinstance(x, ast.Compare)]
            others = [x for x in parts if not isinstance(x, ast.Compare)]
            c = cmps[0] if len(cmps) == 1 else None
            if not (isinstance(c, ast.Compare) and len(c.ops) == 1 and isinstance(c.ops[0], ast.NotEq)) \
                    or not all(isinstance(x, ast.Name) or isinstance(x, ast.Constant) or is_call(x, 'set_option') for x in others):
                raise Undecided(f'{so.qn}: unknown form of the change-flag update: {ups[0].text}')
            sides = [c.left, c.comparators[0]]
        elif len(guards) == 1 and ((len(ups) == 1 and isinstance(ups[0].node[1], ast.Constant) and ups[0].node[1].value is True and guards[0][1] is False)
                                   or (not ups and guards[0][1] is True)):
            a = guards[0][0]
            sides = [ast.parse(a.args[1], mode='eval').body, ast.parse(a.args[2], mode='eval').body]
            src = ups[0].src if ups else so.fn
        elif len(guards) == 1 and ((len(ups) == 1 and isinstance(ups[0].node[1], ast.Constant) and ups[0].node[1].value is True and guards[0][1] is True)
                                   or (not ups and guards[0][1] is False)):
            ctx.violation(mod, so.qn, ups[0].src if ups else f'{so.changed} not updated', f'the change flag is set exactly when {guards[0][0]!r} holds, i.e. when the value did NOT change '
                          f'(and left alone when it differs)', ups[0].src if ups else so.fn, path=repr(r))
            return
        else:
            raise Undecided(f'{so.qn}: updates of {so.changed} after the validation of unknown form: {[f.text for f in ups]}')
        new = [x for x in sides if norm(x) == so.NV]
        old = [x for x in sides if norm(x) != so.NV]
        n += 1
        why = None
        if len(new) != 1:
            if any('RAW' in names_of(x) and not _contains_call(x, 'validate_value') for x in sides):
                why = f'it compares {" != ".join(norm(x) for x in sides)}: the unvalidated input instead of the validated value {so.NV}'
            else:
                raise Undecided(f'{so.qn}: the change-flag update does not mention the validated value')
        else:
            o = norm(old[0])
            ok = old_ok(r, o)
            if ok is None:
                raise Undecided(f'{so.qn}: previous value of unknown form: {o}')

            def reads(t: T.Tuple[str, T.Any, T.Any]) -> bool:
                return t[0] == 'fx' and t[1].kind == 'let' and norm(t[1].node[1]) == o

            def writes(t: T.Tuple[str, T.Any, T.Any]) -> bool:
                if t[0] == 'cond':
                    return 'set_value(' in repr(t[1])
                return (t[1].kind == 'call' and is_call(t[1].node, 'set_value')) or (t[1].kind == 'store' and norm(t[1].node[0]).startswith('self.augments['))
            let_i = next((i for i, t in enumerate(r.trace) if reads(t)), None)
            wr_i = next((i for i, t in enumerate(r.trace) if writes(t)), None)
            if not ok:
                why = f'the previous value is read from {o}, which is not where the value lives on this path'
            elif let_i is None or wr_i is None:
                raise Undecided(f'{so.qn}: cannot order the read of the previous value and the write')
            elif let_i > wr_i:
                why = f'the previous value {o} is read after the new value has been written: the flag is always False'
        if why:
            ctx.violation(mod, so.qn, src, f'the change flag is not `previous value != validated new value`: {why}', src if isinstance(src, ast.AST) else so.fn, path=repr(r))
            return
    ctx.floor('paths updating the change flag', n, 2)
    ctx.ok(f'{so.qn}: the change flag is `previous value != validated value`, the previous value being read before the write ({n} paths)')


def names_of(e: ast.AST) -> T.Set[str]:
    return {n.id for n in ast.walk(e) if isinstance(n, ast.Name)}


def _contains_call(e: ast.AST, name: str) -> bool:
    return any(is_call(c, name) for c in ast.walk(e))


# ---------------------------------------------------------------------------
# R7  prefix-dependent defaults


SET_ARGS = ('self.options[KEY].default', 'self.options[KEY].value', 'VAL[ARG1]', 'VAL[ARG2]', 'VAL[self.sanitize_prefix(ARG1)]')


def _set_value_calls(r: tables.Row) -> T.Any:
    def classify(f: S.Fx) -> T.Optional[str]:
        if f.kind == 'call' and is_call(f.node, 'set_value') and norm(f.node.func.value) == 'self.options[KEY]' and len(f.node.args) == 1 and norm(f.node.args[0]) in SET_ARGS:
            return f.text
        return None
    return tokens('prefix-dependent defaults', r, classify)


def r7(ctx: RuleCtx) -> None:
    _signatures(ctx)
    mod = ctx.repo.module(OPT)
    TABLE = _dir_table_name(ctx, mod)
    nop = fold_dir_table(ctx, mod, TABLE)
    # hard_reset_from_prefix
    qn = 'OptionStore.hard_reset_from_prefix'
    fn = mod.func(qn)
    sym = S.Sym(fn)
    items, _ = S.straight_line(sym, fn, qn, mod, 'OptionStore')
    kinds = [(k, x) for k, x in items if not (k == 'fx' and (x.kind == 'let' or is_logging(x)))]
    PFX = P('self.sanitize_prefix(ARG1)')
    O = 'self.options[KEY]'
    shape = [k for k, _ in kinds]
    set_prefix = P(f"self.options[OptionKey('prefix')].set_value({PFX})")
    if shape == ['loop']:
        # closed world: the function is one loop and nothing else, so nothing stores the prefix itself
        ctx.violation(mod, qn, 'self.options[OptionKey(\'prefix\')].set_value(prefix)', 'the function consists of the loop over the dependants only: the prefix option itself never receives the new prefix', fn)
    elif shape != ['loop', 'fx']:
        raise Undecided(f'{qn}: effects {[x.text if k == "fx" else k for k, x in kinds]} are not "one loop over the table, then the prefix itself"')
    else:
        loop, last = kinds[0][1], kinds[1][1]
        if norm(loop.iter) not in (f'{TABLE}.items()', TABLE, f'{TABLE}.keys()'):
            raise Undecided(f'{qn}: the loop iterates {short(loop.iter)}, not the table {TABLE} that prefixed_default reads')
        ctx.ok(f'{qn}: iterates {short(loop.iter)}')
        lrows = loop_rows(sym, loop)
        tab = S.to_table(lrows, qn + ':loop')
        mapped, rawmapped = A(f'{PFX} in VAL'), A('ARG1 in VAL')
        delegated = P(f'{O}.set_value(prefixed_default({O}, KEY, {PFX}))')
        texts = {tuple(f.text for f in visible(r)) for r in lrows if r.outcome[0] not in ('raise',)}
        if texts == {(delegated,)} and not tab.atoms():
            ctx.ok(f'{qn} loop: each dependant receives prefixed_default(option, key, sanitised prefix), the lookup checked below')
        elif texts == {(P(f'{O}.set_value(prefixed_default({O}, KEY, ARG1))'),)} and not tab.atoms():
            ctx.violation(mod, qn, lrows[0].fx[-1].src, 'the dependants are looked up with the unsanitised prefix: prefixed_default(option, key, prefix) before sanitize_prefix', lrows[0].fx[-1].src)
        else:
            S.compare(ctx, mod, qn + ' loop', fn, tab, {mapped: 'sanitised prefix has a mapped value', rawmapped: 'unsanitised prefix has a mapped value'}, lambda w: w[mapped],
                    lambda hit: (P(f'{O}.set_value(VAL[{PFX}])'),) if hit else (P(f'{O}.set_value({O}.default)'),), _set_value_calls, [mapped],
                    what='reference (mapping hit for the sanitised prefix -> mapped value, else the declared default)')
        if last.kind == 'call' and last.text == set_prefix:
            ctx.ok(f'{qn}: the sanitised prefix itself is set last')
        elif last.kind == 'call' and last.text == P("self.options[OptionKey('prefix')].set_value(ARG1)"):
            ctx.violation(mod, qn, last.src, f'after the loop: {last.text}: the prefix option receives the unsanitised prefix', last.src)
        else:
            raise Undecided(f'{qn}: effect after the loop of unknown form: {last.text}')
    # reset_prefixed_options(old, new)
    qn = 'OptionStore.reset_prefixed_options'
    fn = mod.func(qn)
    sym = S.Sym(fn)
    items, _ = S.straight_line(sym, fn, qn, mod, 'OptionStore')
    kinds = [(k, x) for k, x in items if not (k == 'fx' and (x.kind == 'let' or is_logging(x)))]
    if [k for k, _ in kinds] != ['loop']:
        raise Undecided(f'{qn}: expected a single loop')
    loop = kinds[0][1]
    if norm(loop.iter) != f'{TABLE}.items()':
        raise Undecided(f'{qn}: the loop iterates {short(loop.iter)}, not the table {TABLE} that prefixed_default reads')
    ctx.ok(f'{qn}: iterates {TABLE}.items()')
    tab = S.to_table(loop_rows(sym, loop), qn + ':loop')
    newm, oldm, same = A('ARG2 in VAL'), A('ARG1 in VAL'), A(f'VAL[ARG1] == {O}.value')
    sem = {newm: 'new prefix mapped', oldm: 'old prefix mapped', same: 'value still the old mapped default',
           A(f'VAL[ARG2] == {O}.value'): 'value equals the NEW mapped default (old and new prefix exchanged?)'}

    def ref(v: T.Dict[str, bool]) -> T.Any:
        if not v['new']:
            x = f'{O}.default'
        elif v['old']:
            x = 'VAL[ARG2]' if v['same'] else f'{O}.value'
        else:
            x = 'VAL[ARG2]'
        return (P(f'{O}.set_value({x})'),)
    S.compare(ctx, mod, qn + ' loop', fn, tab, sem, lambda w: {'new': w[newm], 'old': w[oldm], 'same': w[same]}, ref, _set_value_calls, list(sem),
              what='reference (new prefix unmapped -> default; old mapped and value untouched -> new mapped value; old mapped and value changed -> kept; old unmapped -> new mapped value)')
    # prefixed_default / add_builtin_option
    qn = 'prefixed_default'
    fn = mod.func(qn)
    rows = S.Sym(fn, handlers=True).rows()
    normal = [r for r in rows if not any(f.kind == 'except' for f in r.fx)]
    handled = [r for r in rows if any(f.kind == 'except' for f in r.fx)]
    lookup, dflt = f'{TABLE}[ARG2][ARG3]', 'ARG1.default'

    def value_kind(r: S.SRow) -> str:
        if r.outcome[0] != 'return':
            raise Undecided(f'{qn}: path that does not return: {r!r}')
        v = r.value
        t = norm(v)
        if t == lookup:
            return 'mapped'
        if t == dflt:
            return 'default'
        if t in (P(f'{TABLE}.get(ARG2, {{}}).get(ARG3, ARG1.default)'), P(f'{TABLE}[ARG2].get(ARG3, ARG1.default)')):
            return 'mapped-or-default'
        if isinstance(v, ast.Subscript) and isinstance(v.value, ast.Subscript) and norm(v.value.value) == TABLE:
            return 'wrong lookup ' + t
        if isinstance(v, ast.Attribute) and norm(v.value) == 'ARG1':
            return 'wrong fallback ' + t
        raise Undecided(f'{qn}: result of unknown form: {t}')
    if handled:
        if len(normal) != 1:
            raise Undecided(f'{qn}: not of the form try: return <table lookup> except KeyError: return <default>: {[repr(r) for r in rows]}')
        for r in handled:
            if 'KeyError' not in [x for f in r.fx if f.kind == 'except' for x in re.findall(r'\w+', f.text)]:
                raise Undecided(f'{qn}: handler of unknown form: {r!r}')
        kinds_ = [value_kind(normal[0])] + [value_kind(r) for r in handled]
        okk = kinds_[0] == 'mapped' and all(k == 'default' for k in kinds_[1:])
        ctx.require(okk, f'{qn}: mapped value for (option, prefix), else the declared default', mod, qn, normal[0].value if kinds_[0] != 'mapped' else fn,
                    f'prefixed_default returns {kinds_[0]} and on KeyError {kinds_[1:]}; reference: {lookup}, else the declared default', fn)
    else:
        tabp = S.to_table(rows, qn)
        has_opt, has_pfx = A(f'ARG2 in {TABLE}'), A(f'ARG3 in {TABLE}[ARG2]')

        def refp(v: T.Any) -> T.Any:
            return 'mapped' if v else 'default'

        def gotp(r: tables.Row) -> T.Any:
            k = value_kind(r.srow)  # type: ignore[attr-defined]
            if k == 'mapped-or-default':
                if r.conds:
                    raise Undecided(f'{qn}: mixed lookup forms')
                return None
            return k
        if len(rows) == 1 and not rows[0].conds and value_kind(rows[0]) == 'mapped-or-default':
            ctx.ok(f'{qn}: mapped value for (option, prefix), else the declared default (dict.get chain)')
        else:
            S.compare(ctx, mod, qn, fn, tabp, {has_opt: 'option has prefix-dependent defaults', has_pfx: 'prefix has a mapped value'},
                      lambda w: None if (w.get(has_pfx) and not w.get(has_opt, True)) else bool(w.get(has_opt, True) and w.get(has_pfx)), refp, gotp, [has_opt, has_pfx],
                      what='reference (mapped value when both the option and the prefix are in the table, else the declared default)')
    qn = 'OptionStore.add_builtin_option'
    fn = mod.func(qn)
    rows = S.Sym(fn).rows()
    C = 'copy.copy(ARG2)'
    init = P(f'{C}.set_value(prefixed_default({C}, ARG1, default_prefix()))')
    bad = []
    for r in rows:
        calls = [f.text for f in r.fx if f.kind == 'call']
        adds = [i for i, t in enumerate(calls) if t.startswith('self.add_')]
        if r.outcome[0] == 'raise':
            continue
        if init not in calls or not adds or calls.index(init) > adds[0] or not all(calls[i].endswith(f'ARG1, {C})') for i in adds):
            hidden = foreign_calls(r.fx, ('set_value', 'add_module_option', 'add_system_option', 'add_system_option_internal'))
            if hidden or not adds:
                raise Undecided(f'{qn}: cannot follow how the builtin is initialised and registered on the path {r!r}')
            bad.append(r)
    ctx.require(not bad, f'{qn}: a private copy receives the default for the default prefix before it is registered ({len(rows)} paths)', mod, qn, fn,
                f'on a path the registered option is not a copy initialised with prefixed_default(opt, key, default_prefix()): {bad[0]!r}' if bad else '', fn)
    ctx.note(f'{TABLE}: {nop}')
    # set_option: the prefix is sanitised before validation, and a changed prefix on the first invocation resets the dependants
    so = _set_option(ctx)
    isp = A("ARG1.name == 'prefix'")
    n = 0
    for r in so.head:
        if r.outcome[0] != 'fall' or not r.conds.get(isp):
            continue
        n += 1
        v = r.env.get(so.inname)
        ok = v is not None and _only_sanitised(v)
        if not ok:
            ctx.violation(mod, so.qn, 'value passed to validate_value for the prefix', f'for key.name == "prefix" the value validated is {short(v)}: not sanitize_prefix(new_value)', so.fn, path=repr(r))
            break
    else:
        ctx.ok(f'{so.qn}: a prefix is passed through sanitize_prefix before validation ({n} paths)')
    ctx.floor('head paths for the prefix key', n, 1)
    changed, first = A(so.changed), A('ARG3')
    names = {isp: "key.name == 'prefix'", first: 'first_invocation', changed: 'the value changed'}

    def resets(r: S.SRow) -> T.List[S.Fx]:
        return [f for f in r.fx if f.kind == 'call' and is_call(f.node, 'reset_prefixed_options')]
    on, off = _guard_rows(ctx, mod, so.qn, so.tail, resets, {isp: True, first: True, changed: True}, 'the reset of prefix-dependent options', names)
    ctx.floor('paths resetting prefix-dependent options', on, 1)
    ctx.ok(f'{so.qn}: reset_prefixed_options runs exactly for a changed prefix on the first invocation ({on} paths with, {off} without)')
    olds = (f'{so.obj}.value', f'self.augments.get(ARG1, {so.obj}.value)', 'self.augments[ARG1]')
    for r in so.tail:
        for f in resets(r):
            a = call_args(f.node, ['old_prefix', 'new_prefix'])
            if set(a) != {'old_prefix', 'new_prefix'}:
                raise Undecided(f'{so.qn}: {f.text}')
            o, nw = norm(a['old_prefix']), norm(a['new_prefix'])
            if (o, nw) == (so.NV, nw) and nw in olds:
                ctx.violation(mod, so.qn, f.src, f'{f.text}: old and new prefix are swapped; reference is reset_prefixed_options(previous prefix, validated new prefix)', f.src)
                return
            if nw != so.NV or o not in olds:
                if 'RAW' in names_of(a['new_prefix']) and not _contains_call(a['new_prefix'], 'validate_value'):
                    ctx.violation(mod, so.qn, f.src, f'{f.text}: the new prefix passed on is the unvalidated input', f.src)
                    return
                raise Undecided(f'{so.qn}: arguments of unknown form in {f.text}')
    ctx.ok(f'{so.qn}: reset_prefixed_options(previous value, validated new value)')


def _only_sanitised(e: ast.AST) -> bool:
    """every occurrence of the raw value ARG2 is the argument of sanitize_prefix"""
    if isinstance(e, ast.Name):
        return e.id != 'ARG2'
    if is_call(e, 'sanitize_prefix') and len(e.args) == 1 and norm(e.args[0]) == 'ARG2':  # type: ignore[attr-defined]
        return True
    return all(_only_sanitised(c) for c in ast.iter_child_nodes(e))


def _dir_table_name(ctx: RuleCtx, mod: T.Any) -> str:
    """the table of prefix-dependent defaults, found by role: what prefixed_default subscripts with (option, prefix)"""
    fn = mod.func('prefixed_default')
    names = set()
    for r in S.Sym(fn, handlers=True).rows():
        if r.outcome[0] == 'return' and r.value is not None:
            names |= {n.id for n in ast.walk(r.value) if isinstance(n, ast.Name) and mod.has_assign(n.id)}
        for a in r.conds:
            for x in a.args:
                if isinstance(x, str):
                    try:
                        names |= {n.id for n in ast.walk(ast.parse(x, mode='eval')) if isinstance(n, ast.Name) and mod.has_assign(n.id)}
                    except SyntaxError:
                        pass
    if len(names) == 1:
        return next(iter(names))
    raise Undecided('prefixed_default: the table of prefix-dependent defaults was not recognised')


def fold_dir_table(ctx: RuleCtx, mod: T.Any, TABLE: str) -> T.Dict[str, T.Dict[str, str]]:
    e = mod.assign_value(TABLE)
    if not isinstance(e, ast.Dict):
        raise Undecided(f'{TABLE} is not a dict display')
    out: T.Dict[str, T.Dict[str, str]] = {}
    for k, v in zip(e.keys, e.values):
        if not (k is not None and is_call(k, 'OptionKey') and len(k.args) == 1 and isinstance(k.args[0], ast.Constant)):  # type: ignore[attr-defined]
            raise Undecided(f'{TABLE}: key {short(k)}')
        out[k.args[0].value] = fold_expr(ctx.repo, mod, v)  # type: ignore[attr-defined]
    return out


# ---------------------------------------------------------------------------
# R8  a yielding option is linked only to a parent of exactly its own class (K7 + K1 + K2)
def _option_lattice(ctx: RuleCtx, mod: T.Any) -> T.List[T.Tuple[str, str]]:
    """(subclass, superclass) pairs among the option classes that can be instantiated"""
    fam = c07_scan.local_subclasses(mod, 'UserOption')
    concrete = set()
    alias: T.Set[str] = set()
    for n in ast.walk(mod.tree):
        if isinstance(n, ast.AnnAssign) and isinstance(n.target, ast.Name) and n.target.id == 'AnyOptionType' and n.value is not None:
            alias = c07_scan.idents(n.value) & fam
    for name in fam:
        r = ctx.repo.find_method(mod, mod.cls(name), 'validate_value')
        if r is not None and r[1].name != 'UserOption' and (not alias or name in alias):
            concrete.add(name)
    pairs = []
    for a in sorted(concrete):
        for _, c in ctx.repo.mro(mod, mod.cls(a))[1:]:
            if c.name in concrete:
                pairs.append((a, c.name))
    return pairs


def _type_of_text(e: str) -> T.Optional[str]:
    """`type(X)` / `X.__class__` -> X"""
    try:
        n = ast.parse(e, mode='eval').body
    except SyntaxError:
        return None
    if isinstance(n, ast.Call) and isinstance(n.func, ast.Name) and n.func.id == 'type' and len(n.args) == 1 and not n.keywords:
        return norm(n.args[0])
    if isinstance(n, ast.Attribute) and n.attr == '__class__':
        return norm(n.value)
    return None


def _type_guard(a: Atom, v: bool, o: str, p: str) -> T.Optional[str]:
    """'exact' / 'inexact' when (atom, polarity) tests the class of o against the class of p, else None"""
    if (a.kind == 'is' or (a.kind == 'cmp' and a.args[0] == 'eq')) and v:
        xs = a.args[-2:] if a.kind == 'cmp' else a.args
        if {_type_of_text(xs[0]), _type_of_text(xs[1])} == {o, p}:
            return 'exact'
    if a.kind == 'isinstance' and v and len(a.args[1]) == 1:
        subj, cls = a.args[0], _type_of_text(a.args[1][0])
        if {subj, cls} == {o, p}:
            return 'inexact'
    if a.kind == 'truth' and v:
        try:
            n = ast.parse(a.args[0], mode='eval').body
        except SyntaxError:
            return None
        if isinstance(n, ast.Call) and isinstance(n.func, ast.Name) and n.func.id == 'issubclass' and len(n.args) == 2:
            if {_type_of_text(norm(n.args[0])), _type_of_text(norm(n.args[1]))} == {o, p}:
                return 'inexact'
    return None


R8_EXAMPLE = '''
class OptionStore:
    def link(self, key, valobj):
        parent_option = self.options[key.as_root()]
        if isinstance(valobj, type(parent_option)):
            valobj.parent = parent_option
        valobj.yielding = valobj.parent is not None
'''


def _parent_links(ctx: RuleCtx, mod: T.Any, lattice: T.List[T.Tuple[str, str]], report: bool) -> T.Tuple[int, int]:
    """every store of a non-None value into `<option>.parent` is guarded by an exact class identity test"""
    n = bad = 0
    for q, f in mod.funcs().items():
        if not any(isinstance(x, ast.Attribute) and isinstance(x.ctx, ast.Store) and x.attr == 'parent' for x in walk_no_nested(f)):
            continue
        for r in S.Sym(f).rows():
            for fx in r.fx:
                if fx.kind not in ('store', 'augstore') or not (isinstance(fx.node[0], ast.Attribute) and fx.node[0].attr == 'parent'):
                    continue
                val = fx.node[-1]
                if fx.kind == 'store' and isinstance(val, ast.Constant) and val.value is None:
                    continue
                o, p = norm(fx.node[0].value), norm(val)
                n += 1
                guards = [g for g in (_type_guard(a, v, o, p) for a, v in r.conds.items()) if g]
                # re-pointing an existing link from a replaced parent object OLD to its replacement: `if o.parent is OLD: o.parent = p`
                # keeps the class invariant exactly when OLD and p have the same class on this path
                olds = [a.args[1] if a.args[0] == f'{o}.parent' else a.args[0] for a, v in r.conds.items()
                        if a.kind == 'is' and v and f'{o}.parent' in a.args and a.args[0] != a.args[1]]
                if 'exact' not in guards and len(olds) == 1:
                    same = [v for a, v in r.conds.items() if _type_guard(a, True, olds[0], p) == 'exact']
                    if same == [True]:
                        guards.append('exact')
                    elif same == [False]:
                        bad += 1
                        if report:
                            ctx.violation(mod, q, fx.src, f'{fx.text}: an option that yields to {short(olds[0], 50)} is re-pointed to the replacement {short(p, 40)} on the path where the replacement has a '
                                          f'different class (type({short(olds[0], 40)}) is not type({short(p, 30)})): the yielding option now follows a parent of another class and can report a value outside its own type/choices; '
                                          f'reference: re-link only when type(option) is type(new parent), otherwise stop yielding', fx.src, path=repr(r))
                        continue
                    else:
                        raise Undecided(f'{q}: {fx.text}: re-link of an existing parent without a recognisable class comparison on the path {r!r}')
                if 'exact' in guards:
                    if report:
                        ctx.ok(f'{q}: {o}.parent := {short(p, 50)} only when type({short(p, 30)}) is type({o})')
                    continue
                if 'inexact' in guards:
                    if not lattice:
                        if report:
                            ctx.ok(f'{q}: {o}.parent linked under an isinstance test; the option classes do not subclass one another')
                        continue
                    bad += 1
                    if report:
                        a, b = lattice[0]
                        ctx.violation(mod, q, fx.src, f'{fx.text} is guarded by an isinstance/issubclass test only; the option classes form a lattice ({"; ".join(f"{x} < {y}" for x, y in lattice)}), '
                                      f'so e.g. a {a} is linked to a {b} parent and reports the parent value, which need not satisfy its own choices; reference: type(parent) is type(option)', fx.src, path=repr(r))
                    continue
                if any('type(' in repr(a) or '__class__' in repr(a) or a.kind == 'isinstance' or (o in repr(a) and p in repr(a)) for a in r.conds):
                    raise Undecided(f'{q}: {fx.text}: class test of unknown form on the path {r!r}')
                bad += 1
                if report:
                    ctx.violation(mod, q, fx.src, f'{fx.text}: the parent is linked without testing that it has the class of the option; a yielding option would report a value its own validator never saw', fx.src, path=repr(r))
    return n, bad


def r8(ctx: RuleCtx) -> None:
    _signatures(ctx)
    mod = ctx.repo.module(OPT)
    lattice = _option_lattice(ctx, mod)
    ctx.note(f'subclass pairs among instantiable option classes: {lattice}')
    # built-in positive example: an isinstance guard must be recognised as inexact
    from ..core import Module
    ex = Module(ctx.repo, '<built-in example>', R8_EXAMPLE)
    n0, bad0 = _parent_links(ctx, ex, lattice or [('UserFeatureOption', 'UserComboOption')], report=False)
    if (n0, bad0) != (1, 1):
        raise Undecided(f'built-in example of an isinstance-guarded parent link was not recognised ({n0}, {bad0})')
    n, _ = _parent_links(ctx, mod, lattice, report=True)
    ctx.floor('stores linking an option to a parent', n, 1)
    # yielding is only ever False or "a parent is linked" (so that lookup never dereferences a foreign/None parent)
    ny = 0
    for q, f in mod.funcs().items():
        if not any(isinstance(x, ast.Attribute) and isinstance(x.ctx, ast.Store) and x.attr == 'yielding' for x in walk_no_nested(f)):
            continue
        rows = _set_option(ctx).head + _set_option(ctx).tail if q == 'OptionStore.set_option' else S.Sym(f).rows()
        seen: T.Set[str] = set()
        for r in rows:
            for fx in r.fx:
                if fx.kind not in ('store', 'augstore') or not (isinstance(fx.node[0], ast.Attribute) and fx.node[0].attr == 'yielding'):
                    continue
                if fx.text in seen:
                    continue
                seen.add(fx.text)
                ny += 1
                o = norm(fx.node[0].value)
                v = fx.node[-1]
                okv = fx.kind == 'store' and ((isinstance(v, ast.Constant) and v.value is False) or norm(v) in (f'{o}.parent is not None', f'bool({o}.parent)', f'None is not {o}.parent')
                                              # `x.yielding and c` can only switch yielding off
                                              or (isinstance(v, ast.BoolOp) and isinstance(v.op, ast.And) and any(norm(x) == f'{o}.yielding' for x in v.values)))
                if okv:
                    ctx.ok(f'{q}: {fx.text}')
                elif fx.kind == 'store' and isinstance(v, ast.Constant):
                    ctx.violation(mod, q, fx.src, f'{fx.text}: yielding is switched on without a linked parent of the same class', fx.src)
                else:
                    raise Undecided(f'{q}: {fx.text}: value of unknown form stored into .yielding')
    ctx.floor('stores into .yielding', ny, 2)
    # an explicitly set option stops yielding: every path of set_option that stores into the option object itself
    so = _set_option(ctx)
    inopt = A('ARG1 in self.options')
    off = f'{so.obj}.yielding := False'
    nset = 0
    for r in so.tail:
        if r.outcome[0] == 'raise' or not r.conds.get(inopt):
            continue
        stored = any(f.kind == 'call' and is_call(f.node, 'set_value') for f in r.fx) or _calls_in_conditions(r, 'set_value')
        if not stored:
            continue
        nset += 1
        if not any(f.kind == 'store' and f.text == off for f in r.fx):
            hidden = foreign_calls(r.fx, ('set_value', 'set_option', 'reset_prefixed_options', 'validate_value'))
            if hidden or any(f.kind in ('store', 'augstore') and '.yielding' in f.text for f in r.fx):
                raise Undecided(f'{so.qn}: cannot tell whether yielding is switched off on the path {r!r}')
            ctx.violation(mod, so.qn, f'{so.obj}.yielding = False', 'on a path that stores the new value into the option object, yielding stays on: the lookup keeps returning the parent\'s value '
                          'instead of the value just set (' + ' & '.join(('' if v else 'not ') + repr(a) for a, v in r.conds.items() if 'set_value' in repr(a) or a == inopt) + ')', so.fn, path=repr(r))
            break
    else:
        ctx.ok(f'{so.qn}: storing into the option object always switches its yielding off ({nset} paths)')
    ctx.floor('paths of set_option storing into the option object', nset, 1)
    # registration: the declared yield flag is normalised before the option becomes visible
    qn = 'OptionStore.add_project_option'
    fn = mod.func(qn)
    nreg = 0
    for r in S.Sym(fn).rows():
        texts = [f.text for f in r.fx if f.kind in ('store', 'call')]
        reg = [i for i, t in enumerate(texts) if t.startswith('self.options[') and t.endswith(':= ARG2')]
        if not reg:
            continue
        nreg += 1
        norm_i = [i for i, t in enumerate(texts) if t in ('ARG2.yielding := ARG2.parent is not None', 'ARG2.yielding := bool(ARG2.parent)')]
        if not norm_i or norm_i[0] > reg[0]:
            hidden = foreign_calls(r.fx, ('add', 'as_root', 'ensure_and_validate_key'))
            if hidden or any('.yielding :=' in t for t in texts):
                raise Undecided(f'{qn}: cannot follow how the yield flag is set before registration ({(hidden[0].text if hidden else "unknown form")})')
            ctx.violation(mod, qn, 'valobj.yielding = valobj.parent is not None', 'a project option is registered on a path that does not first reduce its declared yield flag to "a same-class parent is linked"', fn, path=repr(r))
            break
    else:
        ctx.ok(f'{qn}: the yield flag is reduced to "parent linked" before the option is registered ({nreg} paths)')
    ctx.floor('registration paths', nreg, 1)
    # nobody outside options.py switches yielding
    k = 0
    for rel in ctx.repo.py_files('mesonbuild'):
        if rel == OPT or 'yielding' not in ctx.repo.read(rel):
            continue
        m = ctx.repo.module(rel)
        k += 1
        for q, f in m.funcs().items():
            for x in walk_no_nested(f):
                if isinstance(x, ast.Attribute) and isinstance(x.ctx, ast.Store) and x.attr == 'yielding':
                    ctx.violation(m, q, f'{norm(x)} = ...', 'the yield flag of an option is written outside options.py, bypassing the same-class parent link', x)
    ctx.ok(f'no store into .yielding outside options.py ({k} files mention it)', nontrivial=False)
    _declared_yield_reaches_constructor(ctx, mod)


OPTINTERP = 'mesonbuild/optinterpreter.py'


def _declared_yield_reaches_constructor(ctx: RuleCtx, mod: T.Any) -> None:
    """every option constructed by the option-file interpreter receives a `yielding` argument that comes from the
    declaration (K3 must-flow + K8: the parsers of all option types agree)"""
    from ..flow import Flow
    fam = c07_scan.local_subclasses(mod, 'UserOption')
    base = mod.cls('UserOption')
    fields = [st.target.id for st in base.body if isinstance(st, ast.AnnAssign) and isinstance(st.target, ast.Name)]
    if 'yielding' not in fields:
        raise Undecided('UserOption has no dataclass field `yielding`')
    idx = fields.index('yielding')
    om = ctx.repo.module(OPTINTERP)
    n = 0
    for q, f in om.funcs().items():
        fl = None
        for st in walk_no_nested(f):
            if not (isinstance(st, ast.Return) and isinstance(st.value, ast.Call)):
                continue
            c = st.value
            name = (attr_chain(c.func) or '').split('.')[-1]
            if name not in fam:
                continue
            cls = mod.cls(name)
            if any(isinstance(x, ast.FunctionDef) and x.name == '__init__' for mm, cc in ctx.repo.mro(mod, cls) for x in cc.body if cc.name in fam):
                raise Undecided(f'{OPTINTERP}: {q}: {name} has its own __init__')
            if any(isinstance(a, ast.Starred) for a in c.args) or any(k.arg is None for k in c.keywords):
                raise Undecided(f'{OPTINTERP}: {q}: {name}(...) with */** arguments')
            arg = c.args[idx] if len(c.args) > idx else next((k.value for k in c.keywords if k.arg == 'yielding'), None)
            n += 1
            if arg is None:
                ctx.violation(om, q, c, f'{name}(...) is built without a `yielding` argument (field {idx} of UserOption): the `yield:` keyword of the option declaration is dropped '
                              f'and the option never takes the parent project\'s value', c)
                continue
            fl = fl or Flow(f)
            org = fl.origins(arg)
            if any(o.startswith('param:') for o in org):
                ctx.ok(f'{OPTINTERP}: {q}: {name}(yielding={short(arg, 30)}) comes from the declaration')
            elif org <= {'const'}:
                ctx.violation(om, q, c, f'{name}(...) receives the constant {norm(arg)} as `yielding`: the `yield:` keyword of the option declaration is ignored', c)
            else:
                raise Undecided(f'{OPTINTERP}: {q}: origin of the yielding argument {norm(arg)} unknown: {sorted(org)}')
    if n == 0:
        raise Undecided(f'{OPTINTERP}: no function returns a freshly constructed option')


# ---------------------------------------------------------------------------
# R9  a value parked in pending_options is applied when its option appears (tested against the pop sentinel, not for truth)
def r9(ctx: RuleCtx) -> None:
    _signatures(ctx)
    mod = ctx.repo.module(OPT)
    n = 0
    for qn, fn in mod.funcs().items():
        # only functions that keep the popped value (an assignment whose value is the pop); a bare `pop(k, None)` drops it on purpose
        if '#' in qn or not any(isinstance(st, (ast.Assign, ast.AnnAssign, ast.NamedExpr)) and st.value is not None and is_call(st.value, 'pop')
                                and isinstance(st.value.func, ast.Attribute) and norm(st.value.func.value) == 'self.pending_options' for st in walk_no_nested(fn)):
            continue
        rows = S.Sym(fn).rows()
        # the popped value (with its sentinel default) and what is done with it
        pops = {}
        for r in rows:
            for f in r.fx:
                if f.kind == 'let' and is_call(f.node[1], 'pop') and norm(f.node[1].func.value) == 'self.pending_options' and len(f.node[1].args) == 2 \
                        and isinstance(f.node[1].args[1], ast.Constant) and f.node[1].args[1].value is None:
                    pops[norm(f.node[1])] = f.node[1]
        if not pops:
            continue       # value dropped on purpose (Expr statement pop): nothing is promised
        n += 1
        # every value taken out of pending_options is judged on its own: the paths that pop it, what is done with it on them
        for PV in sorted(pops):
            K = norm(pops[PV].args[0])
            is_none, truthy = A(f'{PV} is None'), A(PV)
            apply = P(f'self.set_option({K}, {PV})')
            napplied = ndropped = 0
            bad = None
            for r in rows:
                if r.outcome[0] == 'raise' or not any(f.kind == 'let' and norm(f.node[1]) == PV for f in r.fx):
                    continue
                calls = [f for f in r.fx if f.kind == 'call' and (is_call(f.node, 'set_option') or is_call(f.node, 'set_user_option')) and PV in f.text]
                hidden = [f for f in foreign_calls(r.fx, ('set_option', 'set_user_option', 'pop', fn.name)) if PV in f.text]
                if hidden:
                    raise Undecided(f'{qn}: the pending value is handed to {hidden[0].text}')
                if calls and [f.text for f in calls] != [apply]:
                    raise Undecided(f'{qn}: pending value used in an unknown way: {[f.text for f in calls]}')
                others = [a for a in r.conds if PV in repr(a) and a not in (is_none, truthy)]
                if others:
                    raise Undecided(f'{qn}: the pending value is tested in an unknown way: {others}')
                if calls:
                    napplied += 1
                    if r.conds.get(is_none) is True:
                        bad = (r, f'{apply} runs on the path where nothing was pending (the value is the None sentinel), so real pending values take the other branch and are dropped')
                        break
                    if r.conds.get(is_none) is not False and r.conds.get(truthy) is not True:
                        raise Undecided(f'{qn}: the pending value is applied without a test on the path {r!r}')
                else:
                    ndropped += 1
                    if r.conds.get(is_none) is True:
                        continue
                    if r.conds.get(is_none) is False:
                        bad = (r, f'a value that was pending (not None) is taken out of pending_options and not applied')
                        break
                    if r.conds.get(truthy) is False and is_none not in r.conds:
                        bad = (r, f'a pending value that is falsy (False, 0, "", []) is taken out of pending_options and dropped: the guard of {apply} tests its truth, '
                                  f'but None is the only "nothing pending" sentinel of the pop')
                        break
                    raise Undecided(f'{qn}: the pending value is dropped for an unknown reason on the path {r!r}')
            if bad is not None:
                ctx.violation(mod, qn, f'if {PV}', bad[1], fn, path=repr(bad[0]))
            else:
                ctx.ok(f'{qn}: the value popped from pending_options for {K} is applied through set_option(key, value) exactly when it is not the None sentinel ({napplied} paths apply, {ndropped} had nothing pending)')
            ctx.floor(f'{qn}: paths applying the pending value of {K}', napplied, 1)
    ctx.floor('functions that take a value out of pending_options', n, 1)


# ---------------------------------------------------------------------------
# R10  keys read from the machine file of the BUILD machine are build-machine keys
ENVF = 'mesonbuild/environment.py'


def _key_chain(e: ast.AST, M: str) -> T.Optional[T.List[str]]:
    """The machine-relevant links of a key expression `OptionKey.from_string(..)[.evolve(..)]*`, innermost first:
    'parsed' | 'keep' (an evolve that leaves the machine) | 'to-M' (machine := the machine parameter) | 'to-build' | 'to-host' |
    'to:<expr>'.  None: not a chain of the known key constructors."""
    out: T.List[str] = []
    while True:
        if not (isinstance(e, ast.Call) and isinstance(e.func, ast.Attribute)):
            return None
        name, recv = e.func.attr, e.func.value
        if name == 'from_string' and isinstance(recv, ast.Name) and recv.id == 'OptionKey':
            out.append('parsed')
            return out[::-1]
        if name in ('as_build', 'as_host') and not e.args and not e.keywords:
            out.append('to-build' if name == 'as_build' else 'to-host')
        elif name == 'evolve':
            if any(isinstance(a, ast.Starred) for a in e.args) or any(k.arg is None for k in e.keywords):
                return None
            m = kw_(e, 'machine') if len(e.args) < 3 else e.args[2]
            if m is None or (isinstance(m, ast.Constant) and m.value is None):
                out.append('keep')
            else:
                t = norm(m)
                out.append('to-M' if t == M else 'to-build' if t.endswith('MachineChoice.BUILD') else 'to-host' if t.endswith('MachineChoice.HOST') else f'to:{t}')
        else:
            return None
        e = recv


def kw_(c: ast.Call, name: str) -> T.Optional[ast.AST]:
    for k in c.keywords:
        if k.arg == name:
            return k.value
    return None


def r10(ctx: RuleCtx) -> None:
    _signatures(ctx)
    mod = ctx.repo.module(ENVF)
    qn = 'Environment.mfilestr2key'
    fn = mod.func(qn)
    plain = [a for a in fn.args.posonlyargs + fn.args.args if a.arg not in ('self', 'cls')]
    which = [i for i, a in enumerate(plain, 1) if a.annotation is not None and norm(a.annotation).strip('\'"').split('.')[-1] == 'MachineChoice']
    if len(which) != 1:
        raise Undecided(f'{qn}: expected exactly one parameter annotated MachineChoice (the machine the file is read for), found {len(which)}')
    M = f'ARG{which[0]}'
    rows = S.Sym(fn).rows()
    # who else re-keys what this function returns: a caller that evolves the machine itself makes this reading incomplete
    outside = []
    for q2, f2 in mod.funcs().items():
        if f2 is fn or '#' in q2 or not any(is_call(c, fn.name) for c in ast.walk(f2) if isinstance(c, ast.Call)):
            continue
        outside += [q2 for c in ast.walk(f2) if isinstance(c, ast.Call) and (is_call(c, 'as_build') or is_call(c, 'as_host') or (is_call(c, 'evolve') and (kw_(c, 'machine') is not None or len(c.args) >= 3)))]
    nbuild = nother = 0
    bad: T.List[T.Tuple[S.SRow, str]] = []

    def is_build_test(a: Atom) -> bool:
        """`machine == MachineChoice.BUILD` / `machine is MachineChoice.BUILD` (enum members are singletons: the same test)"""
        ops = a.args[1:] if a.kind == 'cmp' and a.args[0] == 'eq' else a.args if a.kind == 'is' else ()
        return len(ops) == 2 and set(ops) == {M, 'MachineChoice.BUILD'}
    for r in rows:
        if r.outcome[0] == 'raise':
            continue
        if r.outcome[0] != 'return' or r.value is None:
            raise Undecided(f'{qn}: a path ends without returning a key: {r!r}')
        isb = [v for a, v in r.conds.items() if is_build_test(a)]
        if len(isb) != 1:
            raise Undecided(f'{qn}: the path {r!r} does not test whether the file is read for the build machine ({M} == MachineChoice.BUILD)')
        foreign = [a for a in r.conds if M in repr(a) and not is_build_test(a)]
        if foreign:
            raise Undecided(f'{qn}: the machine is tested in an unknown way: {foreign}')
        chain = _key_chain(r.value, M)
        if chain is None:
            raise Undecided(f'{qn}: the returned key is not built from OptionKey.from_string / evolve / as_build only: {short(r.value)}')
        moves = [c for c in chain if c not in ('parsed', 'keep')]
        if any(c.startswith('to:') for c in moves):
            raise Undecided(f'{qn}: the key is moved to a machine this rule cannot name: {moves}')
        final = moves[-1] if moves else 'parsed'
        if isb[0]:
            nbuild += 1
            if final not in ('to-M', 'to-build'):
                bad.append((r, f'a key read from the file of the BUILD machine (the native file of a cross build) is returned with {"the machine it was parsed with" if final == "parsed" else final}: '
                               f'an un-prefixed entry stays a HOST key, so the native file overrides the cross file / default_options for the host machine; expected .evolve(machine={M})'))
        else:
            nother += 1
            if final != 'parsed':
                bad.append((r, f'a key read from a file that is NOT for the build machine is re-keyed ({final}): a `build.` prefixed entry of the cross file loses (or an entry gains) its machine; expected the parsed key'))
    if bad and outside:
        raise Undecided(f'{qn}: the returned key does not carry the machine of the file on {len(bad)} paths, but its callers {sorted(set(outside))} re-key keys themselves')
    for r, msg in bad[:1]:
        ctx.violation(mod, qn, f'return {norm(r.value)}', msg, fn, path=repr(r))
    if not bad:
        ctx.ok(f'{qn}: {nbuild} paths for the build machine return the key evolved to that machine, {nother} other paths return the key as parsed')
    ctx.floor(f'{qn}: returning paths for the build machine', nbuild, 1)
    ctx.floor(f'{qn}: returning paths for another machine', nother, 1)


RULES = [
    Rule('C07.R1', 'top-level precedence: defaults < machine file < command line (values and prefix)', r1),
    Rule('C07.R2', 'subproject merge: write events in the documented eight-step order, augments kept', r2),
    Rule('C07.R3', 'lookup order: augment, yielding parent, own value', r3),
    Rule('C07.R4', 'validate before store; who may write .value / augments', r4),
    Rule('C07.R5', 'validate_value decision tables', r5),
    Rule('C07.R6', 'buildtype expansion table, guard and command-line order', r6),
    Rule('C07.R7', 'prefix-dependent directory defaults', r7),
    Rule('C07.R8', 'a yielding option is linked only to a parent of exactly its own class', r8),
    Rule('C07.R9', 'pending values are applied when their option appears', r9),
    Rule('C07.R10', 'machine-file keys of the build machine are build-machine keys', r10),
]
