"""C17.R1 — the printer model: how AstPrinter emits each operand (bare / through a parenthesising helper
under which guard), whether ParenthesizedNode is printed, and the evaluation of every guard over all
(parent kind, child kind) pairs against the grouping the parser ladder requires."""
from __future__ import annotations

import ast
import copy
import typing as T

from ..core import Module, Undecided, attr_chain, norm, short, walk_no_nested
from ..paths import enumerate_paths
from ..report import RuleCtx
from . import c17_ladder as LD
from .c17_ladder import Kind, Ladder

PRINTER = 'mesonbuild/ast/printer.py'
REWRITER = 'mesonbuild/rewriter.py'

# reference: regroupings that keep the value (Syntax.md: `+` on int/str/list/dict and `*` on int are associative,
# a + (b - c) == (a + b) - c on integers; `and`/`or` are associative and keep their evaluation order).
# (parent kind, same-level child kind in the tighter operand) -> parentheses may be dropped
ASSOC_SAFE: T.Set[T.Tuple[Kind, Kind]] = {
    (('ArithmeticNode', '+'), ('ArithmeticNode', '+')), (('ArithmeticNode', '+'), ('ArithmeticNode', '-')),
    (('ArithmeticNode', '*'), ('ArithmeticNode', '*')),
    (('OrNode', None), ('OrNode', None)), (('AndNode', None), ('AndNode', None)),
}

SAMPLE = {'OrNode': 'a or b', 'AndNode': 'a and b', 'ComparisonNode': 'a == b', 'NotNode': 'not a', 'UMinusNode': '-a',
          'TernaryNode': 'a ? b : c', 'AssignmentNode': 'v = a', 'PlusAssignmentNode': 'v += a', 'FunctionNode': 'f()',
          'MethodNode': 'a.m()', 'IndexNode': 'a[0]', 'ArrayNode': '[a]', 'DictNode': '{}'}
HOLE = {('OrNode', 'left'): '{} or x', ('OrNode', 'right'): 'x or {}', ('AndNode', 'left'): '{} and x', ('AndNode', 'right'): 'x and {}',
        ('ComparisonNode', 'left'): '{} == x', ('ComparisonNode', 'right'): 'x == {}', ('NotNode', 'value'): 'not {}',
        ('UMinusNode', 'value'): '-{}', ('TernaryNode', 'condition'): '{} ? x : y', ('IndexNode', 'iobject'): '{}[0]',
        ('MethodNode', 'source_object'): '{}.m()'}


def sample(k: Kind) -> str:
    if k[0] == 'ArithmeticNode':
        return f'a {k[1]} b'
    return SAMPLE.get(k[0], 'a')


def hole(k: Kind, attr: str) -> str:
    if k[0] == 'ArithmeticNode':
        return '{} ' + str(k[1]) + ' x' if attr == 'left' else 'x ' + str(k[1]) + ' {}'
    return HOLE.get((k[0], attr), f'<{k[0]}.{attr}={{}}>')


NICE = ['AndNode', 'OrNode', 'ArithmeticNode', 'ComparisonNode', 'TernaryNode', 'NotNode', 'UMinusNode']


def witness_rank(k: Kind) -> T.Tuple[int, str]:
    """Readable witnesses first (binary operators), assignments inside parentheses last."""
    return (NICE.index(k[0]) if k[0] in NICE else len(NICE), str(k[1]))


def kname(k: Kind) -> str:
    return k[0] + (f'[{k[1]}]' if k[1] is not None else '')


# ---------------------------------------------------------------------------
def _self_call(e: ast.AST) -> T.Optional[str]:
    if isinstance(e, ast.Call) and isinstance(e.func, ast.Attribute) and isinstance(e.func.value, ast.Name) and e.func.value.id == 'self':
        return e.func.attr
    return None


def _single_defs(fn: ast.AST) -> T.Dict[str, ast.AST]:
    defs: T.Dict[str, T.List[T.Optional[ast.AST]]] = {}
    for n in walk_no_nested(fn):
        if isinstance(n, ast.Assign) and len(n.targets) == 1 and isinstance(n.targets[0], ast.Name):
            defs.setdefault(n.targets[0].id, []).append(n.value)
        elif isinstance(n, ast.AnnAssign) and isinstance(n.target, ast.Name) and n.value is not None:
            defs.setdefault(n.target.id, []).append(n.value)
        elif isinstance(n, ast.Name) and isinstance(n.ctx, (ast.Store, ast.Del)):
            defs.setdefault(n.id, []).append(None)
    out: T.Dict[str, ast.AST] = {}
    for k, v in defs.items():
        real = [x for x in v if x is not None]
        # the Store of `x = ...` is seen twice (Assign and Name); a single definition has one of each
        if len(real) == 1 and len(v) == 2:
            out[k] = real[0]
    return out


# ---------------------------------------------------------------------------
# normal form: `with self.<cm>(args): body` where <cm> is a @contextmanager generator of the same class with one
# yield (bare, or as the only statement of a try/finally) reads as  prologue; body; epilogue  with the parameters bound.
def _cm_shape(fn: ast.AST) -> T.Optional[T.Tuple[T.List[ast.stmt], T.Optional[ast.expr], T.List[ast.stmt]]]:
    if not isinstance(fn, ast.FunctionDef):
        return None
    if not any(norm(d).split('.')[-1] == 'contextmanager' for d in fn.decorator_list):
        return None
    ys = [n for n in walk_no_nested(fn) if isinstance(n, (ast.Yield, ast.YieldFrom))]
    if len(ys) != 1 or not isinstance(ys[0], ast.Yield):
        return None
    if any(isinstance(n, ast.Return) for n in walk_no_nested(fn)):
        return None
    for i, st in enumerate(fn.body):
        if isinstance(st, ast.Expr) and st.value is ys[0]:
            return list(fn.body[:i]), ys[0].value, list(fn.body[i + 1:])
        if isinstance(st, ast.Try) and not st.handlers and not st.orelse and len(st.body) == 1 and isinstance(st.body[0], ast.Expr) \
                and st.body[0].value is ys[0]:
            return list(fn.body[:i]), ys[0].value, list(st.finalbody) + list(fn.body[i + 1:])
    return None


class _Subst(ast.NodeTransformer):
    def __init__(self, mapping: T.Dict[str, ast.expr], rename: T.Dict[str, str]):
        self.mapping = mapping
        self.rename = rename

    def visit_Name(self, n: ast.Name) -> ast.AST:
        if n.id in self.rename:
            return ast.copy_location(ast.Name(id=self.rename[n.id], ctx=n.ctx), n)
        if n.id in self.mapping and isinstance(n.ctx, ast.Load):
            return ast.copy_location(copy.deepcopy(self.mapping[n.id]), n)
        return n


def _inline_with(st: ast.With, methods: T.Dict[str, T.Any], depth: int) -> T.Optional[T.List[ast.stmt]]:
    if len(st.items) != 1:
        return None
    item = st.items[0]
    call = item.context_expr
    h = _self_call(call)
    if h is None or h not in methods or not isinstance(call, ast.Call):
        return None
    shape = _cm_shape(methods[h])
    if shape is None:
        return None
    pro, yval, epi = shape
    cm = T.cast(ast.FunctionDef, methods[h])
    if cm.args.vararg or cm.args.kwarg or cm.args.kwonlyargs or cm.args.posonlyargs:
        return None
    params = [a.arg for a in cm.args.args][1:]
    defaults: T.Dict[str, ast.expr] = dict(zip(reversed(params), reversed(cm.args.defaults)))
    if len(call.args) > len(params) or any(isinstance(a, ast.Starred) for a in call.args) or any(k.arg is None or k.arg not in params for k in call.keywords):
        return None
    bound: T.Dict[str, ast.expr] = dict(zip(params, call.args))
    for k in call.keywords:
        bound[T.cast(str, k.arg)] = k.value
    for p in params:
        if p not in bound:
            if p not in defaults:
                return None
            bound[p] = defaults[p]
    stored = {n.id for s in pro + epi for n in ast.walk(s) if isinstance(n, ast.Name) and isinstance(n.ctx, (ast.Store, ast.Del))}
    rename = {n: f'_cm_{h}_{n}' for n in stored}
    mapping: T.Dict[str, ast.expr] = {}
    head: T.List[ast.stmt] = []
    for p, a in bound.items():
        if p in stored or any(isinstance(x, (ast.Call, ast.Await, ast.NamedExpr)) for x in ast.walk(a)):
            rename[p] = f'_cm_{h}_{p}'
            head.append(ast.copy_location(ast.Assign(targets=[ast.Name(id=rename[p], ctx=ast.Store())], value=copy.deepcopy(a), lineno=st.lineno), st))
        else:
            mapping[p] = a
    sub = _Subst(mapping, rename)
    out: T.List[ast.stmt] = head + [sub.visit(copy.deepcopy(s)) for s in pro]
    if item.optional_vars is not None:
        if yval is None:
            return None
        out.append(ast.copy_location(ast.Assign(targets=[item.optional_vars], value=sub.visit(copy.deepcopy(yval)), lineno=st.lineno), st))
    out += st.body
    out += [sub.visit(copy.deepcopy(s)) for s in epi]
    for s in out:
        ast.fix_missing_locations(s)
    return _inline_block(out, methods, depth + 1)


def _inline_block(body: T.List[ast.stmt], methods: T.Dict[str, T.Any], depth: int = 0) -> T.List[ast.stmt]:
    out: T.List[ast.stmt] = []
    for st in body:
        for f in ('body', 'orelse', 'finalbody'):
            sub = getattr(st, f, None)
            if isinstance(sub, list) and sub and isinstance(sub[0], ast.stmt) and not isinstance(st, (ast.FunctionDef, ast.AsyncFunctionDef, ast.ClassDef)):
                setattr(st, f, _inline_block(sub, methods, depth))
        for hd in getattr(st, 'handlers', []) or []:
            hd.body = _inline_block(hd.body, methods, depth)
        if isinstance(st, ast.With) and depth < 4:
            r = _inline_with(st, methods, depth)
            if r is not None:
                out += r
                continue
        out.append(st)
    return out


def inline_cms(methods: T.Dict[str, T.Any]) -> T.Dict[str, T.Any]:
    """The methods of a class with every `with self.<contextmanager generator>(...)` block read as prologue; body; epilogue
    (copies; methods without such a block are returned as they are)."""
    if not any(_cm_shape(f) is not None for f in methods.values()):
        return methods
    out: T.Dict[str, T.Any] = {}
    for name, fn in methods.items():
        if isinstance(fn, ast.FunctionDef) and any(isinstance(n, ast.With) and any(_self_call(i.context_expr) in methods for i in n.items) for n in walk_no_nested(fn)):
            f2 = copy.deepcopy(fn)
            f2.body = _inline_block(f2.body, methods)
            out[name] = f2
        else:
            out[name] = fn
    return out


def _opaque_with(fn: ast.AST, inside: T.Optional[ast.AST] = None) -> T.Optional[ast.With]:
    """A `with self.<something>(...)` block that was not read (it may write text around its body)."""
    for n in walk_no_nested(fn):
        if isinstance(n, ast.With) and any(_self_call(i.context_expr) is not None for i in n.items):
            if inside is None or any(x is inside for b in n.body for x in ast.walk(b)):
                return n
    return None


def _paren_text(call: ast.Call) -> T.Optional[str]:
    """'(' / ')' when the call appends exactly that text to the output."""
    if _self_call(call) in ('append', 'append_padded') and call.args and isinstance(call.args[0], ast.Constant) \
            and isinstance(call.args[0].value, str) and call.args[0].value.strip() in ('(', ')'):
        return T.cast(str, call.args[0].value.strip())
    return None


class Helper(T.NamedTuple):
    name: str
    inner: int                      # index (among the call arguments) of the node that is emitted
    flag: T.Optional[int]           # index of the boolean that switches the parentheses (None: unconditional)
    sem: T.Dict[bool, bool]         # flag value -> parentheses are written
    params: T.Tuple[str, ...] = ()  # parameter names (without self), for keyword calls


def paren_helpers(ctx: RuleCtx, mod: Module, cls: str) -> T.Dict[str, Helper]:
    """Methods of the printer (not visitors) that emit one of their parameters with `p.accept(self)`."""
    out: T.Dict[str, Helper] = {}
    for name, fn in inline_cms(mod.methods(cls)).items():
        if name.startswith('visit_'):
            continue
        params = [a.arg for a in fn.args.args][1:]
        acc = [c for c in walk_no_nested(fn) if isinstance(c, ast.Call) and isinstance(c.func, ast.Attribute) and c.func.attr == 'accept'
               and isinstance(c.func.value, ast.Name) and c.func.value.id in params]
        if not acc:
            continue
        if _opaque_with(fn) is not None:
            raise Undecided(f'{cls}.{name}: emits its operand next to a context manager that is not read: {short(_opaque_with(fn).items[0].context_expr)}')
        inner = params.index(acc[0].func.value.id)  # type: ignore[attr-defined]
        sem: T.Dict[bool, bool] = {}
        flag: T.Optional[str] = None
        paths = enumerate_paths(fn.body)
        for p in paths:
            calls = p.calls()
            idx = [i for i, c in enumerate(calls) if any(c is a for a in acc)]
            if len(idx) != 1:
                raise Undecided(f'{cls}.{name}: a path emits the operand {len(idx)} times: {p.describe()}')
            before = [_paren_text(c) for c in calls[:idx[0]]]
            after = [_paren_text(c) for c in calls[idx[0] + 1:]]
            op, cl = '(' in before, ')' in after
            if op != cl:
                ctx.violation(mod, f'{cls}.{name}', fn, f'on the path [{p.describe()}] the helper writes {"(" if op else ")"} without its counterpart', acc[0])
                raise Undecided(f'{cls}.{name}: unbalanced parenthesising helper')
            conds = p.cond_map()
            if not conds:
                sem[True] = sem[False] = op
                continue
            if len(conds) != 1 or next(iter(conds)) not in params:
                raise Undecided(f'{cls}.{name}: parentheses depend on {list(conds)}, not on one boolean parameter')
            f = next(iter(conds))
            if flag not in (None, f):
                raise Undecided(f'{cls}.{name}: two controlling parameters')
            flag = f
            sem[conds[f]] = op
        if set(sem) != {True, False}:
            raise Undecided(f'{cls}.{name}: could not determine when parentheses are written')
        out[name] = Helper(name, inner, params.index(flag) if flag else None, sem, tuple(params))
    return out


def _no_opaque(fn: ast.AST, call: ast.AST) -> None:
    w = _opaque_with(fn, call)
    if w is not None:
        raise Undecided(f'{getattr(fn, "name", "?")}: an operand is emitted inside a context manager that is not read: {short(w.items[0].context_expr)}')


class Emission(T.NamedTuple):
    attr: str
    guard: T.Optional[ast.AST]      # None: emitted bare
    helper: T.Optional[Helper]
    call: ast.Call
    fn: T.Optional[ast.FunctionDef] = None     # the function the emission stands in (a shared helper the visitor delegates to)


def emissions(fn: ast.FunctionDef, helpers: T.Dict[str, Helper], methods: T.Optional[T.Dict[str, T.Any]] = None, node_index: int = 1, depth: int = 0) -> T.List[Emission]:
    """How visitor `fn` emits the operands `node.<attr>` of its node (following `self.<shared helper>(node, ...)` one or two levels)."""
    params = [a.arg for a in fn.args.args]
    if len(params) <= node_index:
        raise Undecided(f'{fn.name}: no node parameter')
    node = params[node_index]
    sd = _single_defs(fn)

    def operand(e: ast.AST) -> T.Optional[str]:
        if isinstance(e, ast.Name) and e.id in sd:
            e = sd[e.id]
        if isinstance(e, ast.Attribute) and isinstance(e.value, ast.Name) and e.value.id == node:
            return e.attr
        return None
    out: T.List[Emission] = []
    for c in walk_no_nested(fn):
        if not isinstance(c, ast.Call):
            continue
        if isinstance(c.func, ast.Attribute) and c.func.attr == 'accept' and len(c.args) == 1 and norm(c.args[0]) == params[0]:
            a = operand(c.func.value)
            if a is not None:
                _no_opaque(fn, c)
                out.append(Emission(a, None, None, c, fn))
            continue
        c0 = c
        h = _self_call(c)
        if h is None and isinstance(c.func, ast.Attribute) and c.func.attr in helpers and c.args and norm(c.args[0]) == params[0]:
            h = c.func.attr                         # Class.helper(self, ...)
            c = ast.Call(func=c.func, args=c.args[1:], keywords=c.keywords)
            ast.copy_location(c, c.func)
        if h in helpers:
            hp = helpers[h]
            # bind by signature: positional index or keyword name
            bound: T.Dict[int, ast.AST] = {i: a_ for i, a_ in enumerate(c.args)}
            for k in c.keywords:
                if k.arg in hp.params:
                    bound[hp.params.index(k.arg)] = k.value
            if hp.inner in bound:
                a = operand(bound[hp.inner])
                if a is not None:
                    g = bound.get(hp.flag) if hp.flag is not None else None
                    if hp.flag is not None and g is None:
                        raise Undecided(f'{fn.name}: call of {h} without its flag argument')
                    _no_opaque(fn, c0)
                    out.append(Emission(a, g, hp, c, fn))
            continue
        if h is not None and methods and h in methods and h not in helpers and depth < 2 and not h.startswith('visit_'):
            # the visitor hands its node to a shared method: the emissions are there
            callee = methods[h]
            cparams = [a_.arg for a_ in callee.args.args][1:]
            idx = [i for i, a_ in enumerate(c.args) if isinstance(a_, ast.Name) and a_.id == node]
            idx += [cparams.index(k.arg) for k in c.keywords if k.arg in cparams and isinstance(k.value, ast.Name) and k.value.id == node]
            if len(idx) == 1:
                out += emissions(callee, helpers, methods, idx[0] + 1, depth + 1)
    return [e if e.fn is not None else e._replace(fn=fn) for e in out]


class GuardEval:
    """Evaluates a guard expression of a visitor for one (parent, child) situation."""

    def __init__(self, fn: ast.FunctionDef, prec_fname: str, parent_prec: T.Any, child_prec: T.Dict[str, T.Any],
                 discr_attr: T.Optional[str], discr_val: T.Optional[str]):
        self.fn = fn
        self.node = [a.arg for a in fn.args.args][1]
        self.sd = _single_defs(fn)
        self.prec_fname = prec_fname
        self.parent_prec = parent_prec
        self.child_prec = child_prec
        self.discr_attr = discr_attr
        self.discr_val = discr_val
        self.depth = 0

    def ev(self, e: ast.AST) -> T.Any:
        self.depth += 1
        if self.depth > 200:
            raise Undecided(f'{self.fn.name}: guard too deep')
        if isinstance(e, ast.Constant):
            return e.value
        if isinstance(e, ast.Name):
            if e.id in self.sd:
                return self.ev(self.sd[e.id])
            raise Undecided(f'{self.fn.name}: guard reads {e.id}, which has no single definition')
        if isinstance(e, (ast.Set, ast.Tuple, ast.List)):
            return frozenset(self.ev(x) for x in e.elts)
        if isinstance(e, ast.Call) and norm(e.func) == self.prec_fname and len(e.args) == 1:
            a = e.args[0]
            if isinstance(a, ast.Name) and a.id in self.sd:
                a = self.sd[a.id]
            if isinstance(a, ast.Name) and a.id == self.node:
                return self._num(self.parent_prec, 'the node')
            if isinstance(a, ast.Attribute) and isinstance(a.value, ast.Name) and a.value.id == self.node and a.attr in self.child_prec:
                return self._num(self.child_prec[a.attr], f'node.{a.attr}')
            raise Undecided(f'{self.fn.name}: guard takes the level of {short(a)}')
        if isinstance(e, ast.Attribute) and isinstance(e.value, ast.Name) and e.value.id == self.node and e.attr == self.discr_attr:
            return self.discr_val
        if isinstance(e, ast.IfExp):
            return self.ev(e.body) if self.ev(e.test) else self.ev(e.orelse)
        if isinstance(e, ast.UnaryOp) and isinstance(e.op, ast.Not):
            return not self.ev(e.operand)
        if isinstance(e, ast.BoolOp):
            vals = e.values
            if isinstance(e.op, ast.And):
                r: T.Any = True
                for v in vals:
                    r = self.ev(v)
                    if not r:
                        return r
                return r
            r = False
            for v in vals:
                r = self.ev(v)
                if r:
                    return r
            return r
        if isinstance(e, ast.Compare):
            left = self.ev(e.left)
            for op, c in zip(e.ops, e.comparators):
                right = self.ev(c)
                if not self._cmp(op, left, right):
                    return False
                left = right
            return True
        raise Undecided(f'{self.fn.name}: guard construct {short(e)}')

    def _num(self, v: T.Any, what: str) -> int:
        if not isinstance(v, int):
            raise Undecided(f'{self.fn.name}: level of {what} is {v!r}')
        return v

    @staticmethod
    def _cmp(op: ast.cmpop, a: T.Any, b: T.Any) -> bool:
        try:
            if isinstance(op, ast.Lt):
                return bool(a < b)
            if isinstance(op, ast.Gt):
                return bool(a > b)
            if isinstance(op, ast.LtE):
                return bool(a <= b)
            if isinstance(op, ast.GtE):
                return bool(a >= b)
            if isinstance(op, ast.Eq):
                return bool(a == b)
            if isinstance(op, ast.NotEq):
                return bool(a != b)
            if isinstance(op, ast.In):
                return a in b
            if isinstance(op, ast.NotIn):
                return a not in b
        except TypeError as ex:
            raise Undecided(f'guard comparison {a!r} vs {b!r}: {ex}')
        raise Undecided('guard comparison operator')


def paren_mode(ctx: RuleCtx, mod: Module, cls: str, paren_cls: str, inner_attr: str) -> T.Any:
    """True when the printer writes '(' inner ')' for a ParenthesizedNode on every path, False when it prints the
    inner expression bare on every path."""
    r = ctx.repo.find_method(mod, mod.cls(cls), f'visit_{paren_cls}')
    if r is None:
        return False
    m2, c2, fn = r
    fn = inline_cms(m2.methods(c2.name)).get(fn.name, fn)
    if _opaque_with(fn) is not None:
        raise Undecided(f'{c2.name}.visit_{paren_cls}: uses a context manager that is not read: {short(_opaque_with(fn).items[0].context_expr)}')
    params = [a.arg for a in fn.args.args]
    rows: T.List[T.Tuple[T.List[T.Tuple[ast.AST, bool]], bool]] = []
    for p in enumerate_paths(fn.body):
        calls = p.calls()
        idx = [i for i, c in enumerate(calls) if isinstance(c.func, ast.Attribute) and c.func.attr == 'accept'
               and norm(c.func.value) == f'{params[1]}.{inner_attr}']
        if len(idx) != 1:
            raise Undecided(f'{c2.name}.visit_{paren_cls}: the inner expression is emitted {len(idx)} times on [{p.describe()}]')
        op = '(' in [_paren_text(c) for c in calls[:idx[0]]]
        cl = ')' in [_paren_text(c) for c in calls[idx[0] + 1:]]
        if op != cl:
            ctx.violation(m2, f'{c2.name}.visit_{paren_cls}', fn, f'unbalanced parenthesis on the path [{p.describe()}]')
            raise Undecided('unbalanced ParenthesizedNode visitor')
        rows.append(([(ev.node, bool(ev.val)) for ev in p.events if ev.kind == 'cond' and ev.node is not None], op))
    modes = {op for _, op in rows}
    if len(modes) == 1:
        return modes.pop()
    return ParenRows(fn, rows, inner_attr)


class ParenRows:
    """visit_ParenthesizedNode as a decision table: per path the branch atoms (read with the guard evaluator over the level of the inner
    expression) and whether the parentheses are written."""

    def __init__(self, fn: ast.FunctionDef, rows: T.List[T.Tuple[T.List[T.Tuple[ast.AST, bool]], bool]], inner_attr: str):
        self.fn, self.rows, self.inner_attr = fn, rows, inner_attr

    def written(self, inner_prec: T.Any, prec_fname: str = 'precedence_level') -> bool:
        got: T.Set[bool] = set()
        for conds, op in self.rows:
            ge = GuardEval(self.fn, prec_fname, None, {self.inner_attr: inner_prec}, None, None)
            if all(bool(ge.ev(a)) == v for a, v in conds):
                got.add(op)
        if len(got) != 1:
            raise Undecided(f'{self.fn.name}: {len(got)} outcomes for an inner expression of level {inner_prec!r}')
        return got.pop()


def synthesized(ctx: RuleCtx, lad: Ladder, rel: str) -> T.Dict[T.Tuple[Kind, str], T.List[ast.Call]]:
    """Operator nodes built outside the parser in `rel` whose operand is not a freshly built atomic node:
    (kind, attribute) -> construction sites.  Any expression can stand in such an operand."""
    mod = ctx.repo.module(rel)
    pm = ctx.repo.module(LD.MPARSER)
    classes = LD.node_classes(pm)
    imps = mod.imports()
    out: T.Dict[T.Tuple[Kind, str], T.List[ast.Call]] = {}
    constrained = {k[0] for (k, a), r in lad.need.items() if r >= 2}
    for c in ast.walk(mod.tree):
        if not isinstance(c, ast.Call):
            continue
        cn = (attr_chain(c.func) or '').split('.')[-1]
        if cn not in constrained or cn not in classes:
            continue
        head = (attr_chain(c.func) or '').split('.')[0]
        if not imps.get(head, '').startswith('mesonbuild.mparser'):
            continue
        params, amap = LD.init_map(ctx.repo, pm, cn)
        bound: T.List[T.Tuple[str, ast.expr]] = [(params[i], a) for i, a in enumerate(c.args) if i < len(params)]
        bound += [(k.arg, k.value) for k in c.keywords if k.arg]
        vals = {amap.get(p): a for p, a in bound if amap.get(p)}
        if cn in lad.discr:
            d = vals.get(lad.discr[cn])
            if not (isinstance(d, ast.Constant) and (cn, str(d.value)) in lad.kinds):
                raise Undecided(f'{rel}: {short(c)} builds a {cn} whose {lad.discr[cn]} is not a known constant')
            kind: Kind = (cn, str(d.value))
        else:
            kind = (cn, None)
        for attr, a in vals.items():
            need = lad.need.get((kind, T.cast(str, attr)))
            if need is None or need < 2:
                continue
            acn = (attr_chain(a.func) or '').split('.')[-1] if isinstance(a, ast.Call) else ''
            if acn in classes and lad.kinds.get((acn, None), 0) >= need:
                continue     # operand is a node built on the spot on a level that needs no parentheses
            out.setdefault((kind, T.cast(str, attr)), []).append(c)
    return out
