"""Finite-domain abstract interpretation of small, pure state machines (helper of the C18 pack).

The engine's decision tables (sa.tables) identify atoms by their text; `TAPParser.parse_line` re-binds the
same local (`m`) to four different regex matches and mutates the fields its later tests read, so its rows
cannot be keyed by atom text.  This helper decides the same kind of question - "for every *world* of a finite
abstraction, which outcome does the code produce, and does it equal the reference?" - by folding the
function's own expressions over abstract values:

* a **world** is a partial assignment of representatives to the inputs of the function: the fields it reads
  (small integer grids, the three parser states, flags), abstract facts about the current line (`blank`,
  `comment`, which line form matches) and representatives of the capture groups (one per class of the group's
  language, `None` when the group is optional, `HUGE` when its digit run is unbounded);
* the world is built **lazily**: evaluating an input that has no value yet raises `NeedChoice(key, domain)`,
  the driver forks one world per member of the domain and re-runs - so only combinations the code (or the
  reference) really consults are enumerated, and every one of them is;
* statements are executed over abstract values (`Line`, `Match`, `Obj` for NamedTuple instances, `EnumVal`,
  `LazyInt` = "initial field value + k", `Unknown`); a partial operation that would raise in CPython
  (`None.attr`, `int()` of an over-long digit run, `group(n)` beyond the pattern, failing `assert`, wrong
  constructor arguments) raises `Raises` and leaves the function unless a `try` of the code catches it;
* a condition that folds to `Unknown` is never guessed: the rule may declare it *free* (both ways are
  explored) when it reads no tracked value, otherwise the analysis ends `Undecided`;
* every atom of every condition evaluated is recorded, so a rule can require that all branches the engine's
  path enumeration sees were exercised (no part of the function is outside the abstraction).

No repository code is imported or run: the only things evaluated are expressions of the analysed function
over these abstract values, constants folded by sa.consteval and regex facts from re._parser trees.
"""
from __future__ import annotations

import ast
import typing as T

from ..core import Module, Repo, Undecided, AnchorMissing, attr_chain, norm, short
from ..consteval import Folder, Regex, EnumMember
from . import c18_rx

INT_MAX_STR_DIGITS = 4300   # CPython >= 3.11 (and security releases of 3.7+): int(str) raises ValueError beyond this


class Unknown:
    def __init__(self, why: str = ''):
        self.why = why

    def __repr__(self) -> str:
        return f'?<{self.why}>'


class Raises(Exception):
    """The analysed code would raise `exc` at `node` in the current world."""

    def __init__(self, exc: str, node: T.Optional[ast.AST], msg: str = '', origin: str = ''):
        super().__init__(f'{exc}: {msg}')
        self.exc = exc
        self.node = node
        self.msg = msg
        self.origin = origin     # which input made it raise (e.g. "test line, digits group"), if known


class NeedChoice(Exception):
    def __init__(self, key: T.Any, domain: T.List[T.Any]):
        super().__init__(str(key))
        self.key = key
        self.domain = domain


class _Huge:
    """Representative of a digit run longer than int() accepts; `origin` says which input it stands for."""

    def __init__(self, origin: str = ''):
        self.origin = origin

    def __eq__(self, o: object) -> bool:
        return isinstance(o, _Huge)

    def __hash__(self) -> int:
        return 7

    def __repr__(self) -> str:
        return f'<digit run longer than {INT_MAX_STR_DIGITS}>'


HUGE = _Huge()


def is_huge(v: T.Any) -> bool:
    return isinstance(v, _Huge)


class _Rec:
    """Small immutable record that is *not* a tuple (abstract values must never be mistaken for Python tuples)."""
    _f: T.Tuple[str, ...] = ()

    def __init__(self, *a: T.Any):
        assert len(a) == len(self._f)
        for k, v in zip(self._f, a):
            object.__setattr__(self, k, v)

    def _t(self) -> T.Tuple[T.Any, ...]:
        return tuple(getattr(self, k) for k in self._f)

    def __eq__(self, o: object) -> bool:
        return type(o) is type(self) and o._t() == self._t()   # type: ignore[attr-defined]

    def __hash__(self) -> int:
        return hash((type(self).__name__,) + tuple(x if isinstance(x, (str, int, bool, type(None))) else id(x) for x in self._t()))

    def __repr__(self) -> str:
        return f'{type(self).__name__}({", ".join(repr(x) for x in self._t())})'


class Line(_Rec):
    _f = ('stripped',)
    stripped: bool


class RxVal:
    def __init__(self, name: str, pattern: str, flags: int, form: T.Optional[c18_rx.Form]):
        self.name = name
        self.pattern = pattern
        self.flags = flags
        self.form = form

    def __repr__(self) -> str:
        return f'<regex {self.name}:{self.form.kind if self.form else "?"}>'


class Match:
    def __init__(self, rx: RxVal):
        self.rx = rx

    def __repr__(self) -> str:
        return f'<match {self.rx.form.kind if self.rx.form else "?"}>'


class Obj:
    """Instance of a repository NamedTuple class."""

    def __init__(self, cls: str, fields: T.Dict[str, T.Any]):
        self.cls = cls
        self.fields = fields

    def __eq__(self, other: object) -> bool:
        return isinstance(other, Obj) and self.cls == other.cls and self.fields == other.fields

    def __hash__(self) -> int:
        return hash(self.cls)

    def __repr__(self) -> str:
        return f'{self.cls.split(".")[-1]}({", ".join(f"{k}={v!r}" for k, v in self.fields.items())})'


class LazyObj:
    """An initial field value that is an object whose attributes are chosen lazily."""

    def __init__(self, cls: str, getter: T.Callable[[str], T.Any], label: str):
        self.cls = cls
        self.getter = getter
        self.label = label

    def __repr__(self) -> str:
        return f'<{self.label}>'


class LazyInt:
    """initial value of an integer input + constant; concretised (world choice) only when compared/used."""

    def __init__(self, key: T.Any, domain: T.List[int], off: int = 0):
        self.key = key
        self.domain = domain
        self.off = off

    def __add__(self, k: int) -> 'LazyInt':
        return LazyInt(self.key, self.domain, self.off + k)

    __radd__ = __add__

    def __sub__(self, k: int) -> 'LazyInt':
        return LazyInt(self.key, self.domain, self.off - k)

    def same(self, other: object) -> bool:
        return isinstance(other, LazyInt) and other.key == self.key and other.off == self.off

    def __repr__(self) -> str:
        return f'<{self.key[-1] if isinstance(self.key, tuple) else self.key}{self.off:+d}>' if self.off else f'<{self.key[-1] if isinstance(self.key, tuple) else self.key}>'


class ClassRef:
    def __init__(self, qual: str, mod: Module, node: ast.ClassDef, kind: str, fields: T.Optional[T.List[T.Tuple[str, T.Any]]] = None):
        self.qual = qual
        self.mod = mod
        self.node = node
        self.kind = kind            # namedtuple | enum | class
        self.fields = fields or []  # namedtuple: [(name, default-or-NODEFAULT)]

    def __repr__(self) -> str:
        return f'<class {self.qual}>'


class EnumVal(_Rec):
    _f = ('cls', 'name')
    cls: str
    name: str

    def __repr__(self) -> str:
        return f'{self.cls}.{self.name}'


class Bound(_Rec):
    _f = ('recv', 'name')
    recv: T.Any
    name: str


class Method(_Rec):
    _f = ('cls', 'name', 'node')
    cls: str
    name: str
    node: T.Any


class Builtin(_Rec):
    _f = ('name',)
    name: str


class _Self:
    def __repr__(self) -> str:
        return 'self'


SELF = _Self()
NODEFAULT = object()


class CallEvent:
    """`yield from self.m(...)` / `self.m(...)` of a method kept opaque: name and bound arguments."""

    def __init__(self, name: str, args: T.Dict[str, T.Any]):
        self.name = name
        self.args = args

    def __repr__(self) -> str:
        return f'{self.name}({", ".join(f"{k}={v!r}" for k, v in self.args.items())})'


class World:
    def __init__(self, vals: T.Optional[T.Dict[T.Any, T.Any]] = None):
        self.vals: T.Dict[T.Any, T.Any] = dict(vals or {})

    def choose(self, key: T.Any, domain: T.Sequence[T.Any]) -> T.Any:
        if key in self.vals:
            return self.vals[key]
        raise NeedChoice(key, list(domain))

    def with_(self, key: T.Any, v: T.Any) -> 'World':
        w = World(self.vals)
        w.vals[key] = v
        return w

    def describe(self) -> str:
        parts = []
        for k, v in self.vals.items():
            ks = '.'.join(str(x) for x in k) if isinstance(k, tuple) else str(k)
            parts.append(f'{ks}={v!r}')
        return ', '.join(parts)


R = T.TypeVar('R')


def explore(run: T.Callable[[World], R], start: T.Optional[World] = None, limit: int = 60000) -> T.List[T.Tuple[World, R]]:
    """All complete worlds reachable by lazy choice, each with the result of `run`."""
    out: T.List[T.Tuple[World, R]] = []
    stack = [start or World()]
    n = 0
    while stack:
        w = stack.pop()
        n += 1
        if n > limit:
            raise Undecided(f'more than {limit} abstract runs')
        try:
            res = run(w)
        except NeedChoice as nc:
            if not nc.domain:
                raise Undecided(f'empty domain for {nc.key}')
            for v in reversed(nc.domain):
                stack.append(w.with_(nc.key, v))
            continue
        out.append((w, res))
    return out


class _Folder(Folder):
    """sa.consteval cannot fold `<compiled regex>.pattern` (engine gap); add just that."""

    def _getattr(self, v: T.Any, a: str, e: ast.AST) -> T.Any:
        if isinstance(v, Regex) and a in ('pattern', 'flags'):
            return getattr(v, a)
        return super()._getattr(v, a, e)


class Static:
    """Per (repo, module) facts shared by all abstract runs: folded class attributes, NamedTuple fields,
    line forms of regex constants, coverage and site counters."""

    def __init__(self, repo: Repo, mod: Module):
        self.repo = repo
        self.mod = mod
        self._attr: T.Dict[T.Tuple[str, str], T.Any] = {}
        self._classref: T.Dict[str, ClassRef] = {}
        self.cov: T.Set[T.Tuple[int, bool]] = set()
        self.hits: T.Dict[int, int] = {}
        self.runs = 0

    def qual_of(self, mod: Module, node: ast.ClassDef) -> str:
        for q, c in mod.classes().items():
            if c is node:
                return q
        raise AnchorMissing(f'{mod.rel}: class {node.name} not indexed')

    def classref(self, mod: Module, node: ast.ClassDef) -> ClassRef:
        q = self.qual_of(mod, node)
        key = f'{mod.rel}:{q}'
        if key in self._classref:
            return self._classref[key]
        bases = [(attr_chain(b) or '').split('.')[-1] for b in node.bases]
        if 'NamedTuple' in bases:
            fields: T.List[T.Tuple[str, T.Any]] = []
            for st in node.body:
                if isinstance(st, ast.AnnAssign) and isinstance(st.target, ast.Name):
                    d: T.Any = NODEFAULT
                    if st.value is not None:
                        try:
                            d = _Folder(self.repo, mod, node).fold(st.value)
                        except Undecided:
                            d = Unknown('default')
                    fields.append((st.target.id, d))
            ref = ClassRef(q, mod, node, 'namedtuple', fields)
        elif any(b in ('Enum', 'IntEnum', 'Flag', 'IntFlag', 'StrEnum') for b in bases):
            ref = ClassRef(q, mod, node, 'enum')
        else:
            ref = ClassRef(q, mod, node, 'class')
        self._classref[key] = ref
        return ref

    def class_attr(self, cls_qual: str, attr: str) -> T.Any:
        """Value of `<instance of cls>.attr` looked up on the class (through the MRO); NODEFAULT if absent."""
        key = (cls_qual, attr)
        if key in self._attr:
            return self._attr[key]
        val: T.Any = NODEFAULT
        for m, c in self.repo.mro(self.mod, self.mod.cls(cls_qual)):
            hit = False
            for st in c.body:
                if isinstance(st, ast.ClassDef) and st.name == attr:
                    val, hit = self.classref(m, st), True
                elif isinstance(st, (ast.FunctionDef, ast.AsyncFunctionDef)) and st.name == attr:
                    val, hit = Method(self.qual_of(m, c), attr, st), True
            if not hit and m.has_assign(attr, c):
                hit = True
                try:
                    v = _Folder(self.repo, m, c).fold(m.assign_value(attr, c))
                except Undecided as e:
                    v = Unknown(str(e))
                if isinstance(v, Regex):
                    v = RxVal(attr, v.pattern, v.flags, c18_rx.line_form(v.pattern, v.flags))
                elif isinstance(v, EnumMember):
                    v = EnumVal(v.cls, v.name)
                elif not (v is None or isinstance(v, (bool, int, str, tuple, frozenset, Unknown))):
                    v = Unknown(f'class constant {attr} of unsupported kind')
                val = v
            if hit:
                break
        self._attr[key] = val
        return val

    def hit(self, node: ast.AST) -> None:
        self.hits[id(node)] = self.hits.get(id(node), 0) + 1


_STR_METHODS = {'upper', 'lower', 'strip', 'rstrip', 'lstrip', 'startswith', 'endswith', 'isdigit', 'casefold', 'title', 'isspace'}
_BUILTINS = {'int', 'max', 'min', 'len', 'str', 'bool', 'isinstance', 'all', 'any', 'abs', 'sorted', 'list', 'tuple', 'set', 'super',
             'float', 'bytes', 'dict', 'object', 'type', 'repr', 'enumerate', 'zip', 'range', 'print', 'iter', 'next', 'getattr', 'hasattr'}
_EXC_PARENTS = {'ValueError': 'Exception', 'TypeError': 'Exception', 'AttributeError': 'Exception', 'IndexError': 'LookupError',
                'KeyError': 'LookupError', 'LookupError': 'Exception', 'AssertionError': 'Exception', 'Exception': 'BaseException',
                'UnicodeDecodeError': 'ValueError', 'OverflowError': 'ArithmeticError', 'ArithmeticError': 'Exception',
                'StopIteration': 'Exception', 'RuntimeError': 'Exception'}


def exc_matches(exc: str, handler_type: T.Optional[ast.AST]) -> T.Optional[bool]:
    """Does `except <handler_type>` catch `exc`?  None = cannot tell."""
    if handler_type is None:
        return True
    names: T.List[str] = []
    for t in (handler_type.elts if isinstance(handler_type, ast.Tuple) else [handler_type]):
        n = attr_chain(t)
        if n is None:
            return None
        names.append(n.split('.')[-1])
    cur: T.Optional[str] = exc
    while cur is not None:
        if cur in names:
            return True
        cur = _EXC_PARENTS.get(cur)
    if all(n in _EXC_PARENTS or n == 'BaseException' for n in names):
        return False
    return None


class Hooks:
    """What a rule tells the interpreter about the inputs of the analysed function."""

    def field(self, name: str) -> T.Any:                 # initial value of self.<name>; NODEFAULT = not an input
        return NODEFAULT

    def atom(self, name: str) -> bool:                  # abstract fact about the current line
        raise Undecided(f'no abstract fact {name}')

    def line_class(self) -> str:
        raise Undecided('no line classes')

    def group(self, form: c18_rx.Form, index: int) -> T.Any:
        raise Undecided('no group domains')

    def indent_token(self) -> T.Any:
        return NODEFAULT

    def free(self, node: ast.AST, why: str) -> T.Optional[T.Any]:   # key of a free condition, or None
        return None

    def skip_loop(self, st: ast.AST) -> bool:           # may this loop be kept opaque (it touches nothing tracked)?
        return False

    opaque_methods: T.FrozenSet[str] = frozenset()


class Frame:
    def __init__(self, locals_: T.Dict[str, T.Any], cls_qual: str, self_val: T.Any = SELF):
        self.locals = locals_
        self.cls = cls_qual
        self.self_val = self_val


class Result:
    def __init__(self) -> None:
        self.events: T.List[T.Any] = []
        self.calls: T.List[T.Tuple[str, T.List[T.Any]]] = []
        self.heap: T.Dict[str, T.Any] = {}
        self.locals: T.Dict[str, T.Any] = {}
        self.outcome = 'fall'
        self.value: T.Any = None
        self.raised: T.Optional[Raises] = None
        self.last: T.Optional[ast.AST] = None


class Interp:
    def __init__(self, static: Static, world: World, hooks: Hooks):
        self.st = static
        self.world = world
        self.hooks = hooks
        self.res = Result()
        self.depth = 0

    # -- concretisation ---------------------------------------------------
    def conc(self, v: T.Any) -> T.Any:
        if isinstance(v, LazyInt):
            return self.world.choose(v.key, v.domain) + v.off
        return v

    def same(self, a: T.Any, b: T.Any) -> bool:
        """Equality of two final values without forcing choices when both are the same lazy term."""
        if isinstance(a, LazyInt) and a.same(b):
            return True
        if a is b:
            return True
        a, b = self.conc(a), self.conc(b)
        if isinstance(a, Unknown) or isinstance(b, Unknown):
            return False
        return type(a) is type(b) and bool(a == b)

    # -- truth ------------------------------------------------------------
    def truth(self, v: T.Any) -> T.Optional[bool]:
        v = self.conc(v)
        if isinstance(v, Unknown):
            return None
        if v is None:
            return False
        if isinstance(v, (bool, int, str, tuple, list, set, frozenset, dict)):
            return bool(v)
        if isinstance(v, Line):
            if v.stripped:
                return not self.hooks.atom('blank')
            return None
        if isinstance(v, Obj):
            return bool(v.fields)
        return True

    def cond(self, fr: Frame, e: ast.AST) -> bool:
        """Truth of a condition, decomposed like sa.paths (and/or/not/conditional expression) with atom coverage."""
        if isinstance(e, ast.UnaryOp) and isinstance(e.op, ast.Not):
            return not self.cond(fr, e.operand)
        if isinstance(e, ast.BoolOp):
            is_and = isinstance(e.op, ast.And)
            for v in e.values:
                t = self.cond(fr, v)
                if is_and and not t:
                    return False
                if not is_and and t:
                    return True
            return is_and
        if isinstance(e, ast.IfExp):
            return self.cond(fr, e.body) if self.cond(fr, e.test) else self.cond(fr, e.orelse)
        if isinstance(e, ast.Constant):
            return bool(e.value)
        v = self.ev(fr, e)
        t = self.truth(v)
        if t is None:
            why = v.why if isinstance(v, Unknown) else repr(v)
            key = self.hooks.free(e, why)
            if key is None:
                raise Undecided(f'cannot decide condition `{short(e)}` in the abstraction ({why})')
            t = bool(self.world.choose(('free', key), [False, True]))
        self.st.cov.add((id(e), t))
        return t

    # -- expressions ------------------------------------------------------
    def ev(self, fr: Frame, e: ast.AST) -> T.Any:
        m = getattr(self, 'e_' + e.__class__.__name__, None)
        if m is None:
            return Unknown(f'{e.__class__.__name__} expression')
        return m(fr, e)

    def e_Constant(self, fr: Frame, e: ast.Constant) -> T.Any:
        return e.value

    def e_Name(self, fr: Frame, e: ast.Name) -> T.Any:
        if e.id in fr.locals:
            return fr.locals[e.id]
        if e.id == 'self':
            return fr.self_val
        mod = self.st.mod
        if mod.has_cls(e.id):
            return self.st.classref(mod, mod.cls(e.id))
        if e.id in _BUILTINS:
            return Builtin(e.id)
        if mod.has_assign(e.id):
            try:
                v = _Folder(self.st.repo, mod).fold(mod.assign_value(e.id))
            except Undecided as ex:
                return Unknown(str(ex))
            if v is None or isinstance(v, (bool, int, str, tuple)):
                return v
        return Unknown(f'name {e.id}')

    def e_Attribute(self, fr: Frame, e: ast.Attribute) -> T.Any:
        base = self.ev(fr, e.value)
        return self.getattr_(fr, base, e.attr, e)

    def getattr_(self, fr: Frame, base: T.Any, attr: str, node: ast.AST) -> T.Any:
        if base is SELF:
            chain = 'self.' + attr
            if chain in self.res.heap:
                return self.res.heap[chain]
            v = self.hooks.field(attr)
            if v is not NODEFAULT:
                return v
            v = self.st.class_attr(fr.cls, attr)
            if v is NODEFAULT:
                return Unknown(f'attribute self.{attr}')
            return v
        if isinstance(base, Unknown):
            return Unknown(base.why)
        if base is None:
            raise Raises('AttributeError', node, f"'NoneType' object has no attribute '{attr}'")
        if isinstance(base, Obj):
            if attr in base.fields:
                return base.fields[attr]
            raise Raises('AttributeError', node, f'{base.cls} has no field {attr}')
        if isinstance(base, LazyObj):
            return base.getter(attr)
        if isinstance(base, ClassRef):
            if base.kind == 'enum':
                for st in base.node.body:
                    if isinstance(st, ast.Assign) and any(isinstance(t, ast.Name) and t.id == attr for t in st.targets):
                        return EnumVal(base.qual, attr)
            for st in base.node.body:
                if isinstance(st, ast.ClassDef) and st.name == attr:
                    return self.st.classref(base.mod, st)
                if isinstance(st, (ast.FunctionDef, ast.AsyncFunctionDef)) and st.name == attr:
                    return Unknown(f'unbound method {base.qual}.{attr}')
            if base.mod.has_assign(attr, base.node):
                v = self.st.class_attr(base.qual, attr) if base.mod is self.st.mod else NODEFAULT
                if v is not NODEFAULT:
                    return v
            return Unknown(f'{base.qual}.{attr}')
        if isinstance(base, (str, Line, RxVal, Match, EnumVal, _Huge, list, tuple, set, frozenset, dict)):
            return Bound(base, attr)
        return Unknown(f'attribute .{attr} of {base!r}')

    def e_Tuple(self, fr: Frame, e: ast.Tuple) -> T.Any:
        return tuple(self.ev(fr, x) for x in e.elts)

    def e_Set(self, fr: Frame, e: ast.Set) -> T.Any:
        vals = [self.ev(fr, x) for x in e.elts]
        if any(isinstance(v, Unknown) for v in vals):
            return Unknown('set display')
        try:
            return frozenset(vals)
        except TypeError:
            return Unknown('unhashable set member')

    def e_List(self, fr: Frame, e: ast.List) -> T.Any:
        return Unknown('list (mutable; kept opaque)')

    def e_Await(self, fr: Frame, e: ast.Await) -> T.Any:
        return self.ev(fr, e.value)

    def e_JoinedStr(self, fr: Frame, e: ast.JoinedStr) -> T.Any:
        out = ''
        unknown = False
        for p in e.values:
            if isinstance(p, ast.Constant):
                out += str(p.value)
            elif isinstance(p, ast.FormattedValue):
                v = self.conc(self.ev(fr, p.value))
                if p.format_spec is not None or p.conversion != -1 or not (v is None or isinstance(v, (bool, int, str))):
                    unknown = True
                else:
                    out += str(v)
        return Unknown('formatted text') if unknown else out

    def e_UnaryOp(self, fr: Frame, e: ast.UnaryOp) -> T.Any:
        v = self.ev(fr, e.operand)
        if isinstance(e.op, ast.Not):
            t = self.truth(v)
            return Unknown('not of unknown') if t is None else (not t)
        v = self.conc(v)
        if isinstance(e.op, ast.USub) and isinstance(v, int):
            return -v
        return Unknown('unary operator')

    def e_BoolOp(self, fr: Frame, e: ast.BoolOp) -> T.Any:
        is_and = isinstance(e.op, ast.And)
        v: T.Any = None
        for x in e.values:
            v = self.ev(fr, x)
            t = self.truth(v)
            if t is None:
                return Unknown('boolean operator on unknown')
            if is_and and not t:
                return v
            if not is_and and t:
                return v
        return v

    def e_IfExp(self, fr: Frame, e: ast.IfExp) -> T.Any:
        t = self.truth(self.ev(fr, e.test))
        if t is None:
            raise Undecided(f'cannot decide the test of `{short(e)}`')
        return self.ev(fr, e.body if t else e.orelse)

    def e_BinOp(self, fr: Frame, e: ast.BinOp) -> T.Any:
        return self.binop(self.ev(fr, e.left), e.op, self.ev(fr, e.right), e)

    def binop(self, a: T.Any, op: ast.AST, b: T.Any, node: ast.AST) -> T.Any:
        if isinstance(op, (ast.Add, ast.Sub)):
            if isinstance(a, LazyInt) and isinstance(b, int) and not isinstance(b, bool):
                return a + b if isinstance(op, ast.Add) else a - b
            if isinstance(b, LazyInt) and isinstance(a, int) and not isinstance(a, bool) and isinstance(op, ast.Add):
                return b + a
        a, b = self.conc(a), self.conc(b)
        if isinstance(a, Unknown) or isinstance(b, Unknown):
            return Unknown('arithmetic on unknown')
        num = lambda x: isinstance(x, int)
        if isinstance(op, ast.Add):
            if num(a) and num(b):
                return a + b
            if isinstance(a, str) and isinstance(b, str):
                return a + b
            if a is None or b is None or (num(a) != num(b) and isinstance(a, (int, str)) and isinstance(b, (int, str))):
                raise Raises('TypeError', node, 'unsupported operand types for +')
            return Unknown('+ on abstract values')
        if isinstance(op, ast.Sub) and num(a) and num(b):
            return a - b
        if isinstance(op, ast.Mult) and num(a) and num(b):
            return a * b
        if a is None or b is None:
            raise Raises('TypeError', node, 'arithmetic on None')
        return Unknown('operator')

    def e_Compare(self, fr: Frame, e: ast.Compare) -> T.Any:
        if len(e.ops) != 1:
            return Unknown('chained comparison')
        a, b = self.ev(fr, e.left), self.ev(fr, e.comparators[0])
        return self.compare(e.ops[0], a, b, e)

    def compare(self, op: ast.AST, a: T.Any, b: T.Any, node: ast.AST) -> T.Any:
        if isinstance(a, LazyInt) and a.same(b) and isinstance(op, (ast.Eq, ast.LtE, ast.GtE)):
            return True
        if isinstance(a, LazyInt) and a.same(b) and isinstance(op, (ast.NotEq, ast.Lt, ast.Gt)):
            return False
        a, b = self.conc(a), self.conc(b)
        if isinstance(a, Unknown) or isinstance(b, Unknown):
            return Unknown('comparison with unknown')
        abstract = (Line, Match, RxVal, LazyObj, _Huge, ClassRef, Bound, Method, CallEvent)
        if isinstance(op, (ast.Is, ast.IsNot)):
            if a is None or b is None or isinstance(a, (bool, EnumVal)) or isinstance(b, (bool, EnumVal)):
                if isinstance(a, EnumVal) and isinstance(b, EnumVal):
                    r = a == b
                else:
                    r = a is b
            elif isinstance(a, abstract + (Obj,)) or isinstance(b, abstract + (Obj,)):
                r = a is b
            else:
                return Unknown('identity of values')
            return r if isinstance(op, ast.Is) else not r
        if isinstance(op, (ast.Eq, ast.NotEq)):
            if isinstance(a, Line) or isinstance(b, Line):
                return Unknown('text of the line')
            if isinstance(a, abstract) or isinstance(b, abstract):
                r = a is b
            else:
                r = bool(a == b)
            return r if isinstance(op, ast.Eq) else not r
        if isinstance(op, (ast.Lt, ast.Gt, ast.LtE, ast.GtE)):
            if (isinstance(a, int) and isinstance(b, int)) or (isinstance(a, str) and isinstance(b, str)):
                return {ast.Lt: a < b, ast.Gt: a > b, ast.LtE: a <= b, ast.GtE: a >= b}[type(op)]   # type: ignore[operator]
            if a is None or b is None or (isinstance(a, (int, str)) and isinstance(b, (int, str))):
                raise Raises('TypeError', node, 'ordering of incomparable values')
            return Unknown('ordering of abstract values')
        if isinstance(op, (ast.In, ast.NotIn)):
            if isinstance(b, (tuple, frozenset, set, list)):
                r = any(self.compare(ast.Eq(), a, x, node) is True for x in b)
            elif isinstance(a, str) and isinstance(b, str):
                r = a in b
            else:
                return Unknown('membership')
            return r if isinstance(op, ast.In) else not r
        return Unknown('comparison operator')

    def e_Subscript(self, fr: Frame, e: ast.Subscript) -> T.Any:
        self.st.hit(e)
        base = self.ev(fr, e.value)
        if isinstance(base, Match) and not isinstance(e.slice, ast.Slice):
            return self.group(base, self.conc(self.ev(fr, e.slice)), e)
        if base is None:
            raise Raises('TypeError', e, "'NoneType' object is not subscriptable")
        return Unknown('subscript')

    def group(self, m: Match, n: T.Any, node: ast.AST) -> T.Any:
        form = m.rx.form
        if form is None or not isinstance(n, int) or isinstance(n, bool):
            return Unknown('capture group of an unclassified pattern')
        if n == 0:
            return Unknown('whole match text')
        if n not in form.roles:
            raise Raises('IndexError', node, f'no such group {n} in {m.rx.name}')
        return self.hooks.group(form, n)

    def e_Call(self, fr: Frame, e: ast.Call) -> T.Any:
        f = self.ev(fr, e.func)
        if any(isinstance(a, ast.Starred) for a in e.args) or any(k.arg is None for k in e.keywords):
            self.res.calls.append((norm(e.func), []))
            return Unknown('star arguments')
        args = [self.ev(fr, a) for a in e.args]
        kwargs = {k.arg: self.ev(fr, k.value) for k in e.keywords}
        self.st.hit(e)
        if isinstance(f, Builtin):
            return self.builtin(f.name, args, kwargs, e)
        if isinstance(f, Bound):
            return self.bound(fr, f, args, kwargs, e)
        if isinstance(f, ClassRef):
            if f.kind == 'namedtuple':
                return self.construct(f, args, kwargs, e)
            return Unknown(f'instance of {f.qual}')
        if isinstance(f, Method):
            return self.method(fr, f, args, kwargs, e)
        self.res.calls.append((norm(e.func), args))
        return Unknown(f'result of {short(e.func, 40)}')

    def construct(self, c: ClassRef, args: T.List[T.Any], kwargs: T.Dict[T.Any, T.Any], node: ast.AST) -> Obj:
        names = [n for n, _ in c.fields]
        if len(args) > len(names):
            raise Raises('TypeError', node, f'{c.qual}() takes {len(names)} arguments, {len(args)} given')
        vals: T.Dict[str, T.Any] = dict(zip(names, args))
        for k, v in kwargs.items():
            if k not in names or k in vals:
                raise Raises('TypeError', node, f'{c.qual}() got an unexpected or duplicate argument {k}')
            vals[k] = v
        for n, d in c.fields:
            if n not in vals:
                if d is NODEFAULT:
                    raise Raises('TypeError', node, f'{c.qual}() missing argument {n}')
                vals[n] = d
        return Obj(c.qual, {n: vals[n] for n in names})

    def builtin(self, name: str, args: T.List[T.Any], kwargs: T.Dict[T.Any, T.Any], node: ast.AST) -> T.Any:
        args = [self.conc(a) for a in args]
        if name == 'isinstance' and len(args) == 2:
            return self.isinstance_(args[0], args[1])
        if any(isinstance(a, Unknown) for a in args) or kwargs:
            return Unknown(f'{name}() of unknown')
        if name == 'int' and len(args) == 1:
            a = args[0]
            if isinstance(a, _Huge):
                raise Raises('ValueError', node, f'int() of a digit run longer than {INT_MAX_STR_DIGITS} characters', a.origin)
            if isinstance(a, bool) or isinstance(a, int):
                return int(a)
            if isinstance(a, str):
                try:
                    return int(a)
                except ValueError:
                    raise Raises('ValueError', node, f'int({a!r})')
            if a is None:
                raise Raises('TypeError', node, 'int(None)')
            return Unknown('int() of abstract value')
        if name in ('max', 'min') and len(args) >= 2 and all(isinstance(a, int) for a in args):
            return max(args) if name == 'max' else min(args)
        if name in ('max', 'min') and any(a is None for a in args):
            raise Raises('TypeError', node, f'{name}() with None')
        if name == 'len' and len(args) == 1 and isinstance(args[0], (str, tuple, frozenset)):
            return len(args[0])
        if name == 'bool' and len(args) == 1:
            t = self.truth(args[0])
            return Unknown('bool()') if t is None else t
        if name == 'str' and len(args) == 1 and (args[0] is None or isinstance(args[0], (int, str, bool))):
            return str(args[0])
        if name == 'abs' and len(args) == 1 and isinstance(args[0], int):
            return abs(args[0])
        return Unknown(f'{name}()')

    def isinstance_(self, v: T.Any, c: T.Any) -> T.Any:
        if isinstance(c, tuple):
            rs = [self.isinstance_(v, x) for x in c]
            if any(r is True for r in rs):
                return True
            if any(isinstance(r, Unknown) for r in rs):
                return Unknown('isinstance')
            return False
        if isinstance(v, Unknown):
            return Unknown('isinstance of unknown')
        if isinstance(c, ClassRef):
            if isinstance(v, (Obj, LazyObj)):
                return v.cls == c.qual
            if isinstance(v, EnumVal):
                return v.cls == c.qual
            return False
        if isinstance(c, Builtin):
            py = {'str': str, 'int': int, 'bool': bool, 'tuple': tuple}.get(c.name)
            if py is None:
                return Unknown('isinstance of builtin')
            if isinstance(v, (Line, _Huge)):
                return py is str
            if isinstance(v, (Obj, LazyObj)):
                return py is tuple
            return isinstance(v, py)
        return Unknown('isinstance against unknown class')

    def bound(self, fr: Frame, f: Bound, args: T.List[T.Any], kwargs: T.Dict[T.Any, T.Any], node: ast.Call) -> T.Any:
        recv, name = f.recv, f.name
        if isinstance(recv, str):
            cargs = [self.conc(a) for a in args]
            if name in _STR_METHODS and not kwargs and all(isinstance(a, (str, tuple)) for a in cargs):
                try:
                    return getattr(recv, name)(*cargs)
                except Exception:
                    return Unknown(f'str.{name}')
            return Unknown(f'str.{name}')
        if isinstance(recv, Line):
            if name == 'rstrip' and not args and not kwargs:
                return Line(True)
            if name == 'startswith' and len(args) == 1 and isinstance(args[0], str):
                if args[0] == '#':
                    return self.hooks.atom('comment')
                if args[0] == '':
                    return True
                if args[0] == self.hooks.indent_token():
                    return self.hooks.atom('indented')
            return Unknown(f'line.{name}({", ".join(repr(a) for a in args)})')
        if isinstance(recv, RxVal):
            if name == 'match' and len(args) == 1 and isinstance(args[0], Line) and not kwargs and recv.form is not None:
                kind = recv.form.kind
                if kind in ('yaml_start', 'yaml_end'):
                    hit = self.hooks.atom(kind)
                else:
                    hit = self.hooks.line_class() == kind
                return Match(recv) if hit else None
            return Unknown(f'{recv!r}.{name}')
        if isinstance(recv, Match):
            if name == 'group' and len(args) == 1 and not kwargs:
                return self.group(recv, self.conc(args[0]), node)
            return Unknown(f'match.{name}')
        if isinstance(recv, EnumVal):
            return self.enum_method(recv, name, args, node)
        if isinstance(recv, _Huge):
            return Unknown('method of an over-long digit run')
        self.res.calls.append((norm(node.func), args))
        return Unknown(f'{type(recv).__name__}.{name}()')

    def enum_method(self, v: EnumVal, name: str, args: T.List[T.Any], node: ast.AST) -> T.Any:
        mod = self.st.mod
        q = f'{v.cls}.{name}'
        if not mod.has_func(q):
            return Unknown(f'{q}()')
        fn = mod.func(q)
        params = [a.arg for a in fn.args.args]
        if len(params) != len(args) + 1:
            return Unknown(f'{q}() arity')
        loc = dict(zip(params[1:], args))
        return self.inline(fn, Frame(loc, v.cls, v), node)

    def method(self, fr: Frame, m: Method, args: T.List[T.Any], kwargs: T.Dict[T.Any, T.Any], node: ast.Call) -> T.Any:
        fn = m.node
        params = [a.arg for a in fn.args.posonlyargs + fn.args.args][1:]
        bound_args: T.Dict[str, T.Any] = dict(zip(params, args))
        for k, v in kwargs.items():
            bound_args[k] = v
        defaults = fn.args.defaults
        for p, d in zip(params[len(params) - len(defaults):], defaults):
            if p not in bound_args:
                bound_args[p] = self.ev(fr, d)
        if len(args) > len(params) or set(bound_args) != set(params):
            raise Raises('TypeError', node, f'{m.name}() called with wrong arguments')
        if m.name in self.hooks.opaque_methods:
            ce = CallEvent(m.name, {p: bound_args[p] for p in params})
            self.res.calls.append((m.name, [ce]))
            return ce
        if any(isinstance(d, ast.FunctionDef) for d in ast.walk(fn) if d is not fn) or fn.decorator_list:
            self.res.calls.append((norm(node.func), args))
            return Unknown(f'result of {m.name}()')
        return self.inline(fn, Frame(dict(bound_args), m.cls, SELF), node)

    def inline(self, fn: T.Any, fr: Frame, node: ast.AST) -> T.Any:
        if self.depth >= 3:
            return Unknown('call depth')
        self.depth += 1
        try:
            oc, val = self.block(fr, fn.body)
        finally:
            self.depth -= 1
        if any(isinstance(n, (ast.Yield, ast.YieldFrom)) for n in ast.walk(fn)):
            return _INLINED_GEN
        return val if oc == 'return' else None

    # -- statements ---------------------------------------------------------
    def store(self, fr: Frame, t: ast.AST, v: T.Any) -> None:
        if isinstance(t, ast.Name):
            fr.locals[t.id] = v
        elif isinstance(t, ast.Attribute):
            base = self.ev(fr, t.value)
            if base is SELF:
                chain = 'self.' + t.attr
                self.res.heap[chain] = v
            elif base is None:
                raise Raises('AttributeError', t, 'attribute assignment on None')
            else:
                self.res.calls.append(('setattr ' + norm(t), [v]))
        elif isinstance(t, (ast.Tuple, ast.List)):
            if isinstance(v, tuple) and len(v) == len(t.elts):
                for a, b in zip(t.elts, v):
                    self.store(fr, a, b)
            else:
                for a in t.elts:
                    self.store(fr, a, Unknown('unpacked'))
        else:
            self.res.calls.append(('store ' + norm(t), [v]))

    def block(self, fr: Frame, body: T.List[ast.stmt]) -> T.Tuple[str, T.Any]:
        for st in body:
            oc, val = self.stmt(fr, st)
            if oc != 'fall':
                return oc, val
        return 'fall', None

    def stmt(self, fr: Frame, st: ast.stmt) -> T.Tuple[str, T.Any]:
        self.res.last = st
        if isinstance(st, ast.Expr):
            v = st.value
            if isinstance(v, ast.Yield):
                self.res.events.append(self.ev(fr, v.value) if v.value is not None else None)
            elif isinstance(v, ast.YieldFrom):
                r = self.ev(fr, v.value)
                if r is not _INLINED_GEN:
                    self.res.events.append(r)
            elif isinstance(v, ast.Constant):
                pass
            else:
                self.ev(fr, v)
            return 'fall', None
        if isinstance(st, ast.Assign):
            v = self.ev(fr, st.value)
            for t in st.targets:
                self.store(fr, t, v)
            return 'fall', None
        if isinstance(st, ast.AnnAssign):
            if st.value is not None:
                self.store(fr, st.target, self.ev(fr, st.value))
            return 'fall', None
        if isinstance(st, ast.AugAssign):
            load = ast.copy_location(ast.Attribute(value=st.target.value, attr=st.target.attr, ctx=ast.Load()), st.target) \
                if isinstance(st.target, ast.Attribute) else (ast.copy_location(ast.Name(id=st.target.id, ctx=ast.Load()), st.target)
                                                              if isinstance(st.target, ast.Name) else None)
            if load is None:
                self.res.calls.append(('augassign ' + norm(st.target), []))
                return 'fall', None
            cur = self.ev(fr, load)
            self.store(fr, st.target, self.binop(cur, st.op, self.ev(fr, st.value), st))
            return 'fall', None
        if isinstance(st, ast.If):
            return self.block(fr, st.body if self.cond(fr, st.test) else st.orelse)
        if isinstance(st, ast.Return):
            return 'return', (self.ev(fr, st.value) if st.value is not None else None)
        if isinstance(st, ast.Assert):
            self.st.hit(st)
            if not self.cond(fr, st.test):
                raise Raises('AssertionError', st, f'assert {short(st.test)}')
            return 'fall', None
        if isinstance(st, ast.Pass):
            return 'fall', None
        if isinstance(st, ast.Break):
            return 'break', None
        if isinstance(st, ast.Continue):
            return 'continue', None
        if isinstance(st, ast.Raise):
            name = 'Exception'
            if st.exc is not None:
                name = (attr_chain(st.exc.func if isinstance(st.exc, ast.Call) else st.exc) or 'Exception').split('.')[-1]
            raise Raises(name, st, 'explicit raise')
        if isinstance(st, ast.Try):
            return self.try_(fr, st)
        if isinstance(st, (ast.FunctionDef, ast.AsyncFunctionDef, ast.ClassDef)):
            fr.locals[st.name] = Unknown('nested definition')
            return 'fall', None
        if isinstance(st, (ast.Import, ast.ImportFrom, ast.Global, ast.Nonlocal)):
            return 'fall', None
        if isinstance(st, ast.Delete):
            for t in st.targets:
                if isinstance(t, ast.Name):
                    fr.locals.pop(t.id, None)
            return 'fall', None
        if isinstance(st, (ast.For, ast.AsyncFor, ast.While)) and self.hooks.skip_loop(st):
            for n in ast.walk(st):
                if isinstance(n, ast.Name) and isinstance(n.ctx, ast.Store):
                    fr.locals[n.id] = Unknown('set in a loop kept opaque')
            self.res.calls.append(('loop ' + short(st, 40), []))
            return 'fall', None
        raise Undecided(f'{st.__class__.__name__} statement is outside the abstraction: `{short(st, 60)}`')

    def try_(self, fr: Frame, st: ast.Try) -> T.Tuple[str, T.Any]:
        def final(oc: T.Tuple[str, T.Any]) -> T.Tuple[str, T.Any]:
            if st.finalbody:
                f = self.block(fr, st.finalbody)
                if f[0] != 'fall':
                    return f
            return oc
        try:
            oc = self.block(fr, st.body)
        except Raises as r:
            for h in st.handlers:
                mt = exc_matches(r.exc, h.type)
                if mt is None:
                    raise Undecided(f'cannot tell whether `except {short(h.type)}` catches {r.exc}')
                if mt:
                    if h.name:
                        fr.locals[h.name] = Unknown('exception object')
                    self.st.cov.add((id(h), True))
                    try:
                        return final(self.block(fr, h.body))
                    except Raises:
                        if st.finalbody:
                            self.block(fr, st.finalbody)
                        raise
            if st.finalbody:
                self.block(fr, st.finalbody)
            raise
        if oc[0] == 'fall' and st.orelse:
            oc = self.block(fr, st.orelse)
        return final(oc)

    # -- entry ----------------------------------------------------------------
    def run(self, body: T.List[ast.stmt], cls_qual: str, locals_: T.Dict[str, T.Any]) -> Result:
        self.st.runs += 1
        fr = Frame(dict(locals_), cls_qual, SELF)
        try:
            self.res.outcome, self.res.value = self.block(fr, body)
        except Raises as r:
            self.res.outcome, self.res.raised = 'raise', r
        self.res.locals = fr.locals
        return self.res


_INLINED_GEN = object()


def params_of(fn: T.Any) -> T.List[str]:
    return [a.arg for a in fn.args.posonlyargs + fn.args.args if a.arg not in ('self', 'cls')]
