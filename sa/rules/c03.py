"""C03 - commands receive exactly the arguments specified (DESIGN section 2, C03): the quoting discipline."""
from __future__ import annotations

import ast
import itertools
import re
import typing as T

from ..core import Undecided, Module, norm, short, attr_chain, call_name, call_method, kwarg, walk_no_nested
from ..report import Rule, RuleCtx
from ..cfg import CFG, Node
from .. import tables, rx
from ..tables import Atom
from ..paths import enumerate_paths
from ..consteval import fold_const, fold_expr, Regex, EnumMember
from .c03_flow import OFlow, SanCall, strip_proj, via_of
from .c03_inline import (inline_helpers, inline_test_locals, comprehension_as_loop, unroll_const_loops, specialise, ifexp_assign_to_if,
                         search_loop_to_any, index_loop_to_direct, desugar_list_comp_assigns, desugar_map, partial_bindings, expand_partials,
                         expand_local_callables, rotate_primed_loops, desugar_match, _own_jumps)

NINJA = 'mesonbuild/backend/ninjabackend.py'
BACKENDS = 'mesonbuild/backend/backends.py'
UNIVERSAL = 'mesonbuild/utils/universal.py'
MESON_EXE = 'mesonbuild/scripts/meson_exe.py'
MTEST = 'mesonbuild/mtest.py'

EXPLANATION = (
    'Decides the quoting discipline of C03, not the bytes in argv. R1a: in NinjaBuildElement.write no value of '
    'infilenames/outfilenames/implicit_outfilenames/deps/orderdeps/elems reaches outfile.write except through ninja_quote '
    '(build-line flag set for the build line); per-variable elements are ninja_quote(qf(i)) unless the variable is in '
    'raw_names or the element is `&&`. R1b: NinjaRule command/args reach the file only through _quoter, whose decision table '
    'equals the meaning of Quoting.{none,notNinja,notShell,both}; command lines use the shell quoter, rspfile_content the '
    'rsp quoter. R1c: every Quoting.none construction is a `$`-variable or a compiler method applied to `$` placeholders. '
    'R2: the ninja escape classes (one-character regex class + `$\\g<0>` template, or a constant str.translate table mapping c to `$`+c), the fast-path guard and the replacement agree with {$, space, (:)}; newline raises. '
    'R3: rsp-style -> quote function maps of rule and element agree, plain mode uses the _quoter default, raw_names is the '
    'single table on both sides, strToCommandArg table, gcc_rsp_quote doubles backslashes, quote_func binding, POSIX '
    'quote_arg is shlex.quote. R4: meson_exe/mtest pass argv lists to Popen/create_subprocess_exec without a shell and '
    'without joining; argv order; test args stored unchanged, and the loop that lowers them has no early exit (break/return: same count). R5: only whitelisted rewrites in eval_custom_target_command '
    'and escape_extra_args; every in-place @TEMPLATE@ substitution runs on every path on which the element may contain that template. '
    'R4a also: meson_exe.run passes on the argv argparse left over, minus at most one leading `--`. R5c: in generate_genlist_for_target no string '
    'rewrite runs on the result of the @EXTRA_ARGS@ splice. R7: the digest naming the exe-wrapper response file is taken over the text written '
    'into it. R8: Interpreter._add_arguments does not store one list object under several languages while stored lists are modified in place. '
    'Functions are analysed in a normal form (private helpers inlined, constant-tuple loops unrolled, conditional-expression assignments and '
    'search loops desugared, `match` over plain type/value tests of a name read as the if/elif chain, enum-keyed constant tables folded per member); anchors are found by role. '
    'R5d: the @OUTPUTn@ substitution of replace_outputs re-searches the argument until no placeholder is left and replaces the text it matched (a single search + `if` leaves a second, different placeholder). '
    'R4e: a return that runs the argv through `meson --internal exe` with options puts the `--` separator right before it. R9: the suffix guard of '
    'both_libraries covers every per-library-kind `<lang>_*_args` key that is read. R10: CLikeCompilerArgs.to_native deletes collected positions from the back. '
    'R6: a newline in an argument forces the pickled wrapper, which receives the unmodified '
    'serialisation (an information note reports whether environment values placed on the command line by the `env` shortcut are newline-tested; not an obligation). '
    'R3d: in the quote function bound to the shell quoter on Windows hosts (also the MSVC response-file quoter) every returning path that wraps the text in double quotes '
    'applies, before the wrapping, the `<backslashes>"` escaping and the terminal-backslash doubling (patterns classified by regex structure), unless a path condition '
    'excludes the trigger (`"` not in text / text does not end with a backslash / empty text); the arithmetic of the replacement callbacks is not decided. '
    'NOT decided: what shlex.quote/cmd_quote produce for a given string,  the behaviour of ninja, /bin/sh, shlex.quote, cmd.exe and compiler response-file parsers. '
    'NOT decided: whether each `$VARIABLE` of an rspable NinjaRule sits in the part (command = stays on the command line, args = goes into the response file) whose quoting '
    'function NinjaBuildElement.write applies to its values: write() picks one quote function per statement, and telling a harmful placement from a harmless one needs to know '
    'which variables carry user argument strings for that rule (on the pinned tree `$LINK_ARGS` of the static-link rule already sits in the command part). '
    'NOT decided: which argument words CompilerArgs may drop or reorder when de-duplicating (Dedup classes in arglist.py; that is property C13), apart from R10.')
ASSUMPTIONS = ['ninja treats exactly `$`, space, newline (and `:` on build lines) as special and `$x` as escape of x',
               'shlex.quote / CommandLineToArgvW quoting are inverse to the respective shell word splitting',
               'subprocess.Popen / asyncio.create_subprocess_exec pass a list argv unchanged when no shell is requested']
TECHNIQUE = 'sanitiser flow (scoped origin sets, def-use) + decision tables over canonical atoms with symbolic row shapes + constant folding / regex-structure facts + CFG dominance'

QUOTE_FUNCS = {'cmd_quote', 'gcc_rsp_quote', 'quote_func'}
BUILD_SOURCES = ['infilenames', 'outfilenames', 'implicit_outfilenames', 'deps', 'orderdeps']


# ---------------------------------------------------------------------------
# shared helpers

NO_INLINE = {'get_executable_serialisation', 'ninja_quote', '_quoter', 'cmd_quote', 'gcc_rsp_quote', 'quote_func', 'quote_arg', 'strToCommandArg', 'rule_iter'}


_NF_CACHE: T.Dict[T.Tuple[str, str, str], ast.AST] = {}


def _nfunc(mod: Module, qn: str) -> ast.AST:
    """The function with calls to private helpers of its class/module expanded in place and boolean single-definition
    locals substituted into the tests that read them (both are syntactic normalisations of a copy)."""
    key = (mod.rel, mod.digest, qn)
    if key in _NF_CACHE:
        return _NF_CACHE[key]
    if len(_NF_CACHE) > 64:
        _NF_CACHE.clear()
    cls = qn.split('.')[0] if '.' in qn and mod.has_cls(qn.split('.')[0]) else None
    no_inline = set(NO_INLINE)
    if mod.rel == NINJA:
        try:
            no_inline.add(_quoter_role(mod)[1])
        except Undecided:
            pass
    f0 = expand_partials(desugar_match(desugar_map(mod.func(qn)), True), partial_bindings(mod), True)        # match over type/value tests -> if/elif; map(f, xs) -> generator; partial aliases -> the call they stand for
    f0 = rotate_primed_loops(expand_local_callables(f0, mod.imports(), True), True)    # local partial/lambda/function aliases; loop-and-a-half / walrus loops -> primed loops
    f = unroll_const_loops(desugar_list_comp_assigns(inline_helpers(mod, f0, cls, no_inline), only_tables=True, inplace=True), True)      # inline_helpers works on a copy; the rest edits that copy
    _NF_CACHE[key] = inline_test_locals(search_loop_to_any(index_loop_to_direct(ifexp_assign_to_if(f, True), True), True), True)
    return _NF_CACHE[key]


def _quoter_role(mod: Module) -> T.Tuple[str, str]:
    """(qualified name, call name) of the function that turns one classified rule argument into text: the callee applied to
    module-level function or NinjaRule method that reads `.quoting` of its first parameter."""
    cached = _QR_CACHE.get((mod.rel, mod.digest))
    if cached:
        return cached
    found: T.Set[T.Tuple[str, str]] = set()
    for q, f in mod.funcs().items():
        if not ('.' not in q or (q.startswith('NinjaRule.') and q.count('.') == 1)):
            continue
        ps = [a.arg for a in f.args.posonlyargs + f.args.args if a.arg not in ('self', 'cls')]
        if not ps:
            continue
        if any(isinstance(n, ast.Attribute) and n.attr == 'quoting' and isinstance(n.ctx, ast.Load) and isinstance(n.value, ast.Name) and n.value.id == ps[0]
               for n in walk_no_nested(f)):
            found.add((q, q.split('.')[-1]))
    if len(found) != 1:
        raise Undecided(f'cannot identify the one function that renders a classified command argument by reading <arg>.quoting ({sorted(found)})')
    _QR_CACHE[(mod.rel, mod.digest)] = next(iter(found))
    return _QR_CACHE[(mod.rel, mod.digest)]


_QR_CACHE: T.Dict[T.Tuple[str, str], T.Tuple[str, str]] = {}


class _Roles:
    """Anchors found by ROLE, not by identifier: the argument classifier applied to NinjaRule's command/args, the default
    shell quote function (default of _quoter's second parameter), its per-platform bindings, the response-file quote
    function that doubles backslashes, and the table of raw ninja variables."""

    def __init__(self, ctx: RuleCtx, mod: Module):
        self.mod = mod
        # default shell quoter
        self.quoter_q, self.quoter = _quoter_role(mod)
        qf = mod.func(self.quoter_q)
        if len(qf.args.args) != 2 or len(qf.args.defaults) != 1 or not isinstance(qf.args.defaults[0], ast.Name):
            raise Undecided(f'{self.quoter_q}: expected (arg, quote function = <name>)')
        self.shell = qf.args.defaults[0].id
        # platform switch binding it
        self.switch = [st for st in mod.tree.body if isinstance(st, ast.If) and
                       any(isinstance(n, ast.Name) and n.id == self.shell and isinstance(n.ctx, ast.Store) for n in ast.walk(st))]
        self.win: T.Optional[str] = None
        self.posix: T.Optional[str] = None
        if len(self.switch) == 1:
            for path in enumerate_paths([self.switch[0]]):
                win = [v for k, v in path.conds() if k.endswith('is_windows()')]
                vals = [norm(ev.node.value) for ev in path.events if ev.kind == 'stmt' and isinstance(ev.node, ast.Assign)
                        and any(isinstance(t, ast.Name) and t.id == self.shell for t in ev.node.targets)]
                if len(win) == 1 and len(vals) == 1:
                    if win[0]:
                        self.win = vals[0]
                    else:
                        self.posix = vals[0]
        # classifier of rule arguments
        init = mod.func('NinjaRule.__init__')
        self.classifier: T.Dict[str, T.Optional[str]] = {}
        for attr, param in (('self.command', 'command'), ('self.args', 'args')):
            self.classifier[attr] = None
            for st in walk_no_nested(init):
                tgt = st.targets[0] if isinstance(st, ast.Assign) and len(st.targets) == 1 else (st.target if isinstance(st, ast.AnnAssign) else None)
                if tgt is None or attr_chain(tgt) != attr or st.value is None:
                    continue
                v = st.value
                if isinstance(v, (ast.ListComp, ast.GeneratorExp)) or (isinstance(v, ast.Call) and call_name(v) == 'list' and v.args and isinstance(v.args[0], (ast.ListComp, ast.GeneratorExp))):
                    comp = v if not isinstance(v, ast.Call) else v.args[0]
                    g = comp.generators[0]
                    if len(comp.generators) == 1 and isinstance(g.target, ast.Name) and norm(g.iter) == param and isinstance(comp.elt, ast.Call) \
                            and len(comp.elt.args) == 1 and norm(comp.elt.args[0]) == g.target.id and not comp.elt.keywords:
                        f = comp.elt.func
                        nm = f.id if isinstance(f, ast.Name) else (f.attr if isinstance(f, ast.Attribute) and isinstance(f.value, ast.Name) and f.value.id in ('self', 'NinjaRule') else None)
                        for q in ((f'NinjaRule.__init__.{nm}', nm, f'NinjaRule.{nm}') if nm else ()):
                            if mod.has_func(q):
                                self.classifier[attr] = q
                                break
                elif isinstance(v, ast.Call) and call_name(v) == 'list' and len(v.args) == 1 and isinstance(v.args[0], ast.Call) and call_name(v.args[0]) == 'map' \
                        and len(v.args[0].args) == 2 and norm(v.args[0].args[1]) == param and isinstance(v.args[0].args[0], ast.Name):
                    nm = v.args[0].args[0].id
                    for q in (f'NinjaRule.__init__.{nm}', nm):
                        if mod.has_func(q):
                            self.classifier[attr] = q
                            break

    def rsp_doubling(self) -> T.List[str]:
        """Module-level functions that return <shell quoter>(arg with every backslash doubled)."""
        out = []
        for q, f in self.mod.funcs().items():
            if '.' in q or len(f.args.args) != 1 or f.args.defaults:
                continue
            if not any(isinstance(c, ast.Call) and isinstance(c.func, ast.Attribute) and c.func.attr == 'replace' for c in ast.walk(f)):
                continue
            try:
                if _doubling_shape(f, self.shell):
                    out.append(q)
            except Undecided:
                continue
        return out


def _doubling_shape(fn: ast.AST, shell: str) -> bool:
    pure = {'replace', shell}
    tab = tables.extract(fn, effects=_assign_eff, inline_calls=pure)
    dbl = "ARG1.replace('\\\\', '\\\\\\\\')"
    if not tab.rows:
        return False
    for r in tab.rows:
        shape = _row_shape(r)
        if r.outcome[0] == 'return':
            shape = (_inline_single_defs(shape[0], fn, pure), shape[1])
        if shape not in ((f'{shell}({dbl})', ()), (f'{shell}(ARG1)', (f'ARG1 := {dbl}',))):
            return False
    return True


def _roles(ctx: RuleCtx, mod: Module) -> _Roles:
    return _Roles(ctx, mod)


def _assign_eff(st: ast.AST) -> T.Optional[str]:
    if isinstance(st, ast.Assign) and len(st.targets) == 1:
        return f'{norm(st.targets[0])} := {norm(st.value)}'
    if isinstance(st, ast.AugAssign):
        return f'{norm(st.target)} += {norm(st.value)}'
    if isinstance(st, ast.Expr) and isinstance(st.value, ast.Call):
        return 'call ' + norm(st.value)
    return None


def _expr(text: str) -> ast.AST:
    return ast.parse(text, mode='eval').body


def _file_param(fn: ast.AST) -> str:
    ps = [a.arg for a in fn.args.posonlyargs + fn.args.args if a.arg not in ('self', 'cls')]  # type: ignore[attr-defined]
    if len(ps) != 1:
        raise Undecided(f'{getattr(fn, "name", "?")}: expected exactly one (file) parameter, found {ps}')
    return ps[0]


def _sinks(fn: ast.AST, fl: OFlow) -> T.List[ast.Call]:
    """Calls <file>.write(x) where <file> is (an alias of) the file parameter."""
    p = _file_param(fn)
    out = []
    for c in ast.walk(fn):
        if isinstance(c, ast.Call) and isinstance(c.func, ast.Attribute) and c.func.attr in ('write', 'writelines') and len(c.args) >= 1:
            if f'param:{p}' in fl.origins(c.func.value):
                out.append(c)
    return sorted(out, key=lambda c: (c.lineno, c.col_offset))


def _is_true(e: T.Optional[ast.AST]) -> bool:
    return isinstance(e, ast.Constant) and e.value is True


def _row_shape(r: tables.Row) -> T.Tuple[str, T.Tuple[str, ...]]:
    """(outcome text, effects on parameters/attributes) of a table row; assignments to plain locals are dropped
    (the engine has inlined single-definition locals into the outcome)."""
    oc = r.outcome[1] if r.outcome[0] == 'return' else ' '.join(map(str, r.outcome))
    return oc, tuple(e for e in r.effects if re.match(r'(ARG\w*|self\.[\w.]+) (:=|\+=) ', e))


def _inline_single_defs(text: str, fn: ast.AST, pure: T.Set[str]) -> str:
    """Copy propagation on an outcome text: a remaining local name with exactly one definition in the function
    (outside loops, a pure expression) is replaced by that definition, parameters renamed as in sa.tables.
    (sa.tables does not inline a local whose definition reads another assigned local.)"""
    params = tables._param_map(fn)   # type: ignore[arg-type]
    defs: T.Dict[str, T.List[T.Optional[ast.AST]]] = {}
    in_loop: T.Set[int] = set()
    for n in walk_no_nested(fn):
        if isinstance(n, (ast.For, ast.While, ast.AsyncFor)):
            in_loop |= {id(x) for x in ast.walk(n)}
    for n in walk_no_nested(fn):
        if isinstance(n, ast.Assign) and len(n.targets) == 1 and isinstance(n.targets[0], ast.Name):
            defs.setdefault(n.targets[0].id, []).append(None if id(n) in in_loop else n.value)
        elif isinstance(n, ast.Name) and isinstance(n.ctx, ast.Store):
            defs.setdefault(n.id, [])
    for n in walk_no_nested(fn):
        if isinstance(n, ast.Name) and isinstance(n.ctx, ast.Store) and not any(True for v in defs.get(n.id, []) if v is not None) and n.id in defs and not defs[n.id]:
            defs[n.id] = [None, None]   # bound by something other than a simple assignment

    def ok(v: T.Optional[ast.AST]) -> bool:
        if v is None:
            return False
        for c in ast.walk(v):
            if isinstance(c, ast.Call):
                nm = c.func.attr if isinstance(c.func, ast.Attribute) else (c.func.id if isinstance(c.func, ast.Name) else '')
                if nm not in pure:
                    return False
            if isinstance(c, (ast.Await, ast.Yield, ast.YieldFrom, ast.NamedExpr, ast.Lambda)):
                return False
        return True
    e = _expr(text)
    for _ in range(6):
        names = {n.id for n in ast.walk(e) if isinstance(n, ast.Name)}
        todo = {nm: defs[nm][0] for nm in names if nm in defs and nm not in params and len(defs[nm]) == 1 and ok(defs[nm][0])}
        if not todo:
            break
        mapping = {nm: tables._Subst(dict(params), params).visit(tables._copy(v)) for nm, v in todo.items()}
        e = tables._Subst(mapping).visit(tables._copy(e))
    return norm(e)


def _row_return(r: tables.Row) -> str:
    """Outcome text of a `return` row; when a plain local is returned, the expression last assigned to it on this path
    (reaching definition on the row, taken from the recorded assignment effects; at most 4 steps)."""
    text = r.outcome[1]
    for _ in range(4):
        e = _expr(text)
        if not (isinstance(e, ast.Name) and not e.id.startswith('ARG')):
            break
        defs = [x.split(':=', 1)[1].strip() for x in r.effects if x.startswith(e.id + ' := ')]
        if not defs:
            break
        text = defs[-1]
    return text


def _template_items(repl: str) -> T.List[T.Any]:
    """Constant folding of a literal re replacement template: literal text and group numbers/names."""
    out: T.List[T.Any] = []
    pos = 0
    for m in re.finditer(r'\\g<(\w+)>|\\(\d{1,2})|\\(.)', repl):
        if m.start() > pos:
            out.append(repl[pos:m.start()])
        if m.group(1) is not None:
            out.append(int(m.group(1)) if m.group(1).isdigit() else ('name', m.group(1)))
        elif m.group(2) is not None:
            out.append(int(m.group(2)))
        elif m.group(3) == '\\':
            out.append('\\')
        else:
            raise Undecided(f'replacement template escape \\{m.group(3)}')
        pos = m.end()
    if pos < len(repl):
        out.append(repl[pos:])
    merged: T.List[T.Any] = []
    for x in out:
        if isinstance(x, str) and merged and isinstance(merged[-1], str):
            merged[-1] += x
        else:
            merged.append(x)
    return merged


def _only_via_edge(cfg: CFG, node: Node, test: Node, label: T.Any) -> bool:
    """node is reachable from the entry only through the `label` edge out of `test`."""
    seen = cfg.reachable([cfg.entry], edge_ok=lambda a, b, lab: not (a.id == test.id and lab == label))
    return node.id not in seen


def _conjuncts(e: ast.AST) -> T.List[ast.AST]:
    if isinstance(e, ast.BoolOp) and isinstance(e.op, ast.And):
        out: T.List[ast.AST] = []
        for v in e.values:
            out += _conjuncts(v)
        return out
    return [e]


# ---------------------------------------------------------------------------
# R1a  NinjaBuildElement.write

def _is_source(o: str) -> bool:
    if o == 'attr:self.elems[0]':
        return False           # the variable *name* (a literal at every add_item site, checked below)
    return strip_proj(o) in {f'attr:self.{s}' for s in BUILD_SOURCES} | {'attr:self.elems'}


def _build_flag_param(mod: Module) -> T.Tuple[str, int]:
    nq = mod.func('ninja_quote')
    ps = [a.arg for a in nq.args.args]
    if len(ps) != 2:
        raise Undecided(f'ninja_quote: expected (text, build-line flag), found {ps}')
    return ps[1], 1


def _san_flag(sc: SanCall, pname: str, idx: int) -> T.Optional[ast.AST]:
    if len(sc.call.args) > idx:
        return sc.call.args[idx]
    return sc.kwargs.get(pname)


def _resolve_truth(atom: Atom, val: bool, fl: OFlow) -> T.Tuple[Atom, bool]:
    """A bare local name used as a condition is replaced by its single defining comparison."""
    if atom.kind == 'truth':
        e = _expr(atom.args[0])
        if isinstance(e, ast.Name) and len(fl.defs.get(e.id, [])) == 1 and e.id not in fl.params:
            a2, v2 = tables.canon(fl.defs[e.id][0], val)
            return a2, v2
    return atom, val


def _record_fields(mod: Module) -> T.Optional[T.List[str]]:
    """Field names, in positional order, of the record class whose instances NinjaBuildElement stores in self.elems
    (a NamedTuple / dataclass of this module constructed where self.elems is appended to); None for plain tuples."""
    names: T.Set[str] = set()
    for q, f in mod.methods('NinjaBuildElement').items():
        for c in walk_no_nested(f):
            if isinstance(c, ast.Call) and isinstance(c.func, ast.Attribute) and c.func.attr == 'append' and attr_chain(c.func.value) == 'self.elems' and len(c.args) == 1 \
                    and isinstance(c.args[0], ast.Call) and isinstance(c.args[0].func, ast.Name) and mod.has_cls(c.args[0].func.id):
                names.add(c.args[0].func.id)
    if len(names) != 1:
        return None
    cls = mod.cls(next(iter(names)))
    fields = [st.target.id for st in cls.body if isinstance(st, ast.AnnAssign) and isinstance(st.target, ast.Name)]
    return fields or None


def _records_to_unpacking(fn: ast.AST, fields: T.List[str]) -> ast.AST:
    """`for v in self.elems: ... v.<field> ...` -> `for (v__f1, v__f2) in self.elems: ... v__<field> ...` when v is used only through its
    fields (a record read by field name is the tuple read by position)."""
    import copy as _copy
    fn = _copy.deepcopy(fn)
    for lp in [n for n in ast.walk(fn) if isinstance(n, ast.For) and isinstance(n.target, ast.Name) and attr_chain(n.iter) == 'self.elems']:
        v = lp.target.id
        uses = [n for b in lp.body for n in ast.walk(b) if isinstance(n, ast.Name) and n.id == v]
        attrs = [n for b in lp.body for n in ast.walk(b) if isinstance(n, ast.Attribute) and isinstance(n.value, ast.Name) and n.value.id == v]
        if len(uses) != len(attrs) or any(a.attr not in fields for a in attrs) or any(isinstance(n.ctx, ast.Store) for n in uses):
            continue

        class _F(ast.NodeTransformer):
            def visit_Attribute(self, n: ast.Attribute) -> ast.AST:
                if isinstance(n.value, ast.Name) and n.value.id == v and n.attr in fields:
                    return ast.copy_location(ast.Name(id=f'{v}__{n.attr}', ctx=n.ctx), n)
                self.generic_visit(n)
                return n
        lp.body = [_F().visit(b) for b in lp.body]
        lp.target = ast.copy_location(ast.Tuple(elts=[ast.Name(id=f'{v}__{f_}', ctx=ast.Store()) for f_ in fields], ctx=ast.Store()), lp.target)
    ast.fix_missing_locations(fn)
    return fn


def _elem_fn(mod: Module) -> ast.AST:
    """NinjaBuildElement.write in normal form; when the value loop is a comprehension (possibly over a per-element helper) it is
    read as the loop it abbreviates and the helper is expanded."""
    qn = 'NinjaBuildElement.write'
    fn = _nfunc(mod, qn)
    fields = _record_fields(mod)
    if fields:
        key0 = (mod.rel, mod.digest, qn + '#records')
        if key0 not in _NF_CACHE:
            _NF_CACHE[key0] = _records_to_unpacking(fn, fields)
        fn = _NF_CACHE[key0]
    fl = OFlow(fn, cut={'ninja_quote'})
    if not any(isinstance(n, ast.For) and 'attr:self.elems[1]' in fl.origins(n.iter) for n in ast.walk(fn)):
        key = (mod.rel, mod.digest, qn + '#loops')
        if key not in _NF_CACHE:
            _NF_CACHE[key] = inline_test_locals(inline_helpers(mod, desugar_list_comp_assigns(fn), 'NinjaBuildElement', NO_INLINE), True)
        fn = _NF_CACHE[key]
    return fn


def r1a(ctx: RuleCtx) -> None:
    mod = ctx.repo.module(NINJA)
    qn = 'NinjaBuildElement.write'
    fn = _elem_fn(mod)
    fl = OFlow(fn, cut={'ninja_quote'}, opaque=True)
    sinks = _sinks(fn, fl)
    ctx.floor(f'{qn}: outfile.write sinks', len(sinks), 1)
    opaque_flows: T.List[str] = []
    for c in sinks:
        oo = fl.origins(c.args[0])
        raw = sorted(o for o in oo if _is_source(o))
        opaque_flows += [f'{v[1]} through {v[0]}(...)' for v in map(via_of, oo) if v is not None and _is_source(v[1])]
        ctx.require(not raw, f'{qn}: `{short(c, 60)}` receives build-statement data only through ninja_quote', mod, qn,
                    f'{norm(c)} <- {", ".join(raw)}',
                    f'{", ".join(raw)} reaches {short(c, 60)} without passing ninja_quote: a space, `$` or `:` in that value corrupts the statement', c)
    pname, pidx = _build_flag_param(mod)
    for s in BUILD_SOURCES:
        scs = [sc for sc in fl.san.values() if sc.name == 'ninja_quote' and sc.args and f'attr:self.{s}' in {strip_proj(o) for o in sc.args[0]}]
        ctx.floor(f'{qn}: ninja_quote calls that carry self.{s} to the build line', len(scs), 1)
        for sc in scs:
            ctx.require(_is_true(_san_flag(sc, pname, pidx)), f'{qn}: self.{s} is quoted with the build-line flag: {short(sc.call, 50)}', mod, qn,
                        f'{norm(sc.call)} <- self.{s}',
                        f'self.{s} is written on the build line through {short(sc.call, 50)} without {pname}=True: a `:` in the path ends the output list', sc.call)
    # per-variable elements: decision table of the innermost loop
    loops = [n for n in ast.walk(fn) if isinstance(n, ast.For)]
    outer = [l for l in loops if {strip_proj(o) for o in fl.origins(l.iter)} >= {'attr:self.elems'} and 'attr:self.elems[1]' not in fl.origins(l.iter)]
    inner = [l for l in loops if 'attr:self.elems[1]' in fl.origins(l.iter)]
    if len(outer) != 1 or len(inner) != 1 or not isinstance(inner[0].target, ast.Name):
        raise Undecided(f'{qn}: expected one loop over self.elems and one over the values of a variable (found {len(outer)}/{len(inner)})')
    iv = inner[0].target.id
    # names that stand for the element: the loop variable and locals bound to it (a helper parameter after inlining)
    alias = {iv} | {n for n, ds in fl.defs.items() if any(isinstance(d, ast.Name) and d.id == iv for d in ds)}
    tab = tables.extract(fn, body=inner[0].body, effects=_assign_eff, inline=False, name=qn + ':values')
    n_rows = 0
    qf_names: T.Set[str] = set()
    for r in tab.rows:
        raw_v: T.Optional[bool] = None
        amp: T.Optional[bool] = None
        for a0, v0 in r.conds.items():
            a, v = _resolve_truth(a0, v0, fl)
            if a.kind == 'in' and 'attr:self.elems[0]' in fl.origins(_expr(a.args[0])):
                raw_v = v         # membership of the variable name in a table (R3b: the table is raw_names)
            elif a.kind == 'cmp' and a.args[0] == 'eq' and a.args[1] in alias and a.args[2] == repr('&&'):
                amp = v
            elif a.kind == 'truth' and (a.args[0].endswith('is_windows()') or a.args[0] in {f"{x}.startswith('//')" for x in alias}):
                continue      # UNC rewrite, Windows hosts only: not part of the reference
            else:
                raise Undecided(f'{qn}: condition {a!r} outside the reference vocabulary of the value loop')
        apps = [e for e in r.effects if e.startswith('call ') and '.append(' in e]
        if len(apps) != 1:
            raise Undecided(f'{qn}: a path of the value loop appends {len(apps)} items: {r!r}')
        call = _expr(apps[0][5:])
        arg = call.args[0] if isinstance(call, ast.Call) and len(call.args) == 1 else None
        for _ in range(3):          # the appended local: its reaching definition on this path
            if isinstance(arg, ast.Name) and arg.id not in alias:
                ds = [e.split(':=', 1)[1].strip() for e in r.effects if e.startswith(arg.id + ' := ')]
                if not ds:
                    break
                arg = _expr(ds[-1])
        if arg is None or (isinstance(arg, ast.Call) and call_name(arg) not in ('ninja_quote',) and not (isinstance(arg.func, ast.Name) and arg.func.id in fl.defs or isinstance(arg.func, ast.Name) and arg.func.id in fl.params)) \
                or not isinstance(arg, (ast.Call, ast.Name)):
            raise Undecided(f'{qn}: the value loop appends `{short(apps[0][5:], 70)}`, a form the rule does not understand')
        if not (isinstance(arg, ast.Call) and call_name(arg) == 'ninja_quote' and arg.args):
            ctx.violation(mod, qn, apps[0], f'value loop appends {apps[0][5:]}: ninja_quote is not the outermost quoting of the element (ninja de-quotes first)', r.path.events[-1].node)
            continue
        inner_arg = arg.args[0]
        if isinstance(inner_arg, ast.Name) and inner_arg.id in alias:
            got = 'ninja-only'
        elif isinstance(inner_arg, ast.Call) and isinstance(inner_arg.func, ast.Name) and len(inner_arg.args) == 1 \
                and isinstance(inner_arg.args[0], ast.Name) and inner_arg.args[0].id in alias and not inner_arg.keywords:
            got = 'shell+ninja'
            qf_names.add(inner_arg.func.id)
        else:
            got = 'other:' + norm(inner_arg)
        # reference: raw variable or `&&` -> ninja quoting only; otherwise shell/rsp quoting, then ninja quoting.
        # A row that does not test one of the two stands for both values of it.
        n_rows += 1
        for rv in ((raw_v,) if raw_v is not None else (True, False)):
            for av in ((amp,) if amp is not None else (True, False)):
                want = 'ninja-only' if (rv or av) else 'shell+ninja'
                ctx.require(got == want, f'{qn}: raw={rv} &&={av}: {got}', mod, qn, f'{apps[0]} when raw={rv} and-and={av}',
                            f'for a variable {"in" if rv else "not in"} raw_names and an element {"==" if av else "!="} `&&` the code appends '
                            f'{apps[0][5:]} ({got}); the reference is {want}'
                            + (' (`&&` must reach the shell unquoted; values of raw variables are read by ninja itself)' if want == 'ninja-only' else
                               ' (the value is split by the shell / response-file parser)'), r.path.events[-1].node)
    ctx.floor(f'{qn}: rows of the value loop', n_rows, 1)
    for q in sorted(qf_names):
        vals = fl.defs.get(q, [])
        if not vals:
            ctx.ok(f'{qn}: values are quoted with {q}')
            continue
        notref = [norm(v) for v in vals if not (isinstance(v, ast.Name) and (mod.has_func(v.id) or mod.has_assign(v.id)))]
        if notref:
            raise Undecided(f'{qn}: the per-element quote function {q} is bound to {notref}, not to module-level quote functions')
        ctx.ok(f'{qn}: {q} is bound to the module-level functions {sorted(norm(v) for v in vals)} (agreement with the rule side: R3a)')
    # the variable names are literals at every add_item site
    n = 0
    unknown_names: T.List[str] = []
    for q, f in mod.funcs().items():
        ffl: T.Optional[OFlow] = None
        for c in walk_no_nested(f):
            if isinstance(c, ast.Call) and call_method(c) == 'add_item' and (c.args or kwarg(c, 'name') is not None):
                a = c.args[0] if c.args else kwarg(c, 'name')
                if q == 'NinjaBuildElement.add_item':
                    continue
                n += 1
                if isinstance(a, ast.Constant):
                    consts = [a.value]
                else:
                    ffl = ffl or OFlow(f)
                    oo = ffl.origins(a)
                    if any(not o.startswith('const:') for o in oo):
                        unknown_names.append(f'{q}: {short(c, 60)}')
                        continue
                    consts = [ast.literal_eval(o[6:]) for o in oo]
                badc = [x for x in consts if not (isinstance(x, str) and re.fullmatch(r'[A-Za-z_][A-Za-z0-9_]*', x))]
                if badc:
                    ctx.violation(mod, q, c, f'add_item is called with the variable name {badc[0]!r}, which is not an identifier: names are written unquoted by {qn}', c)
    ctx.floor('add_item call sites with a literal identifier as variable name', n, 10)
    if opaque_flows:
        raise Undecided(f'{qn}: {sorted(set(opaque_flows))} reach outfile.write through a callee the analysis cannot see into')
    if unknown_names:
        raise Undecided(f'{qn}: add_item variable names that are not compile-time constants: {unknown_names[:3]}')
    ctx.ok(f'{n} add_item sites pass a literal identifier as the (unquoted) variable name')


# ---------------------------------------------------------------------------
# R1b  NinjaRule: command/args only through _quoter; _quoter table

def _quoting_members(ctx: RuleCtx, mod: Module) -> T.List[str]:
    cls = mod.cls('Quoting')
    names = [t.id for st in cls.body if isinstance(st, ast.Assign) for t in st.targets if isinstance(t, ast.Name)]
    if sorted(names) != ['both', 'none', 'notNinja', 'notShell']:
        raise Undecided(f'Quoting members are {names}; the reference knows both/notShell/notNinja/none')
    return names


def _rule_var(consts: T.Iterable[str]) -> T.Set[str]:
    out = set()
    for o in consts:
        if o.startswith('const:'):
            m = re.match(r"^ (\w+) = ", ast.literal_eval(o[6:]))
            if m:
                out.add(m.group(1))
    return out


def r1b(ctx: RuleCtx) -> None:
    mod = ctx.repo.module(NINJA)
    members = _quoting_members(ctx, mod)
    # _quoter decision table
    qn, qshort = _quoter_role(mod)
    fn = _nfunc(mod, qn)
    ps = [a.arg for a in fn.args.args]
    if len(ps) != 2 or len(fn.args.defaults) != 1:
        raise Undecided(f'{qn}: expected (arg, quote function = default)')
    pure = {ps[1], 'ninja_quote', 'str'}
    str_is_s = [r.outcome for r in tables.extract(mod.func('NinjaCommandArg.__str__')).rows] == [('return', 'self.s')]
    ref = {'none': 'ARG1.s', 'notNinja': 'ARG2(ARG1.s)', 'notShell': 'ninja_quote(ARG1.s)', 'both': 'ninja_quote(ARG2(ARG1.s))'}
    outcomes: T.Dict[str, T.Tuple[str, ast.AST]] = {}
    tab = tables.extract(fn, name=qn, inline_calls=pure, effects=_assign_eff)   # the quote functions are pure: locals holding their results are inlined
    atoms: T.Dict[Atom, str] = {}
    chain_form = True
    for a in tab.atoms():
        ok = (a.kind == 'cmp' and a.args[0] == 'eq' and a.args[1] == 'ARG1.quoting' and a.args[2].startswith('Quoting.')) or \
             (a.kind == 'is' and a.args[0] == 'ARG1.quoting' and a.args[1].startswith('Quoting.'))
        if not ok:
            chain_form = False
            break
        atoms[a] = a.args[-1].split('.')[1]
    if chain_form and atoms:
        for m in members:
            rows = tab.fire({a: (k == m) for a, k in atoms.items()})
            if len(rows) != 1:
                raise Undecided(f'{qn}: {len(rows)} rows fire for Quoting.{m}')
            got = _inline_single_defs(_row_return(rows[0]), fn, pure) if rows[0].outcome[0] == 'return' else ' '.join(map(str, rows[0].outcome))
            outcomes[m] = (got, rows[0].path.events[-1].node)
    else:
        # table-driven form: `steps = TABLE.get(x.quoting, DEFAULT)` / `TABLE[x.quoting]` with a constant table keyed by the enum:
        # fold the table and specialise the function per member (constant propagation + folding of constant branches)
        look = None
        for st in walk_no_nested(fn):
            v = st.value if isinstance(st, (ast.Assign, ast.AnnAssign)) else None
            if v is None:
                continue
            texpr = key = dflt = None
            if isinstance(v, ast.Call) and isinstance(v.func, ast.Attribute) and v.func.attr == 'get' and 1 <= len(v.args) <= 2:
                texpr, key, dflt = v.func.value, v.args[0], (v.args[1] if len(v.args) == 2 else ast.Constant(value=None))
            elif isinstance(v, ast.Subscript) and not isinstance(v.slice, ast.Slice):
                texpr, key = v.value, v.slice
            if key is not None and norm(key) == f'{ps[0]}.quoting':
                look = (st, texpr, dflt)
        if look is None:
            raise Undecided(f'{qn}: the quoting class is neither tested by a comparison chain nor looked up in a constant table ({[repr(a) for a in tab.atoms()][:3]})')
        st, texpr, dflt = look
        table = fold_expr(ctx.repo, mod, texpr, cls='NinjaRule')
        if not isinstance(table, dict) or not all(isinstance(k_, EnumMember) for k_ in table):
            raise Undecided(f'{qn}: {short(texpr)} does not fold to a table keyed by Quoting members')
        dval = fold_expr(ctx.repo, mod, dflt, cls='NinjaRule') if dflt is not None else None
        tgt = st.targets[0] if isinstance(st, ast.Assign) else st.target
        names = [t.id for t in tgt.elts] if isinstance(tgt, ast.Tuple) and all(isinstance(t, ast.Name) for t in tgt.elts) else ([tgt.id] if isinstance(tgt, ast.Name) else None)
        if names is None:
            raise Undecided(f'{qn}: lookup result bound to {short(tgt)}')
        bykey = {k_.name: v_ for k_, v_ in table.items()}
        for m in members:
            if m not in bykey and dflt is None:
                raise Undecided(f'{qn}: the quoting table has no entry for Quoting.{m}')
            val = bykey.get(m, dval)
            vals = list(val) if isinstance(tgt, ast.Tuple) and isinstance(val, (tuple, list)) else [val]
            if len(vals) != len(names) or not all(isinstance(x, (bool, int, str, type(None))) for x in vals):
                raise Undecided(f'{qn}: table entry for Quoting.{m} is {val!r}')
            fm = specialise(fn, st, dict(zip(names, vals)))
            tm = tables.extract(fm, name=qn, inline_calls=pure)
            if len(tm.rows) != 1 or tm.atoms() or tm.rows[0].outcome[0] != 'return':
                raise Undecided(f'{qn}: specialised for Quoting.{m} the function still branches on {[repr(a) for a in tm.atoms()][:3]}')
            outcomes[m] = (_inline_single_defs(tm.rows[0].outcome[1], fm, pure), st)
        ctx.note(f'{qn}: quoting steps are looked up in the constant table {short(texpr)} ({len(table)} entries), folded per member')
    for m in members:
        got, node = outcomes[m]
        if str_is_s:
            got = got.replace('str(ARG1)', 'ARG1.s')
        def understood(e: ast.AST) -> bool:
            if norm(e) in ('ARG1.s', 'str(ARG1)'):
                return True
            return isinstance(e, ast.Call) and isinstance(e.func, ast.Name) and e.func.id in ('ARG2', 'ninja_quote') and len(e.args) == 1 and not e.keywords and understood(e.args[0])
        if not understood(_expr(got)):
            raise Undecided(f'{qn}: for Quoting.{m} the function returns `{short(got, 90)}`, which is not a composition of the shell/rsp quote function and ninja_quote over the argument text')
        ctx.require(got == ref[m], f'{qn}: Quoting.{m} -> {got}', mod, qn, f'Quoting.{m} -> {got}',
                    f'an argument marked Quoting.{m} is emitted as {got}; the meaning of Quoting.{m} is {ref[m]} (ARG2 = shell/rsp quote function)', node)
    # flows
    cut = {'ninja_quote', qshort}
    qn = 'NinjaRule.write'
    fn = _nfunc(mod, qn)
    fl = OFlow(fn, cut)
    sinks = _sinks(fn, fl)
    ctx.floor(f'{qn}: outfile.write sinks', len(sinks), 2)
    init = _nfunc(mod, 'NinjaRule.__init__')
    fi = OFlow(init, cut)
    srcs = {'attr:self.command', 'attr:self.args'}
    cs_defs = fi.attr_defs.get('self.command_str', [])
    if len(cs_defs) != 1:
        raise Undecided('NinjaRule.__init__: self.command_str is not assigned exactly once')
    cs_o = fi.origins(cs_defs[0])
    bad = sorted(o for o in cs_o if o.split(':')[0] in ('param', 'attr', 'name') and o not in ('param:self',))
    if not bad and f'san:{qshort}' not in cs_o:
        raise Undecided(f'NinjaRule.__init__: cannot see how self.command_str is built ({sorted(cs_o)})')
    ctx.require(not bad, 'NinjaRule.__init__: command_str is built from _quoter results only', mod, 'NinjaRule.__init__',
                f'self.command_str <- {bad}', f'self.command_str receives {bad} without passing _quoter', cs_defs[0])
    default_qf = norm(mod.func(_quoter_role(mod)[0]).args.defaults[0])
    seen_vars: T.Dict[str, int] = {}
    for c in sinks:
        f1 = OFlow(fn, cut)
        o = f1.origins(c.args[0])
        raw = sorted(x for x in o if strip_proj(x) in srcs)
        ctx.require(not raw, f'{qn}: `{short(c, 70)}` receives command/args only through _quoter', mod, qn, f'{norm(c)} <- {", ".join(raw)}',
                    f'{", ".join(raw)} reaches {short(c, 70)} without passing _quoter', c)
        for var in _rule_var(o):
            if var not in ('command', 'rspfile_content'):
                continue
            seen_vars[var] = seen_vars.get(var, 0) + 1
            qs = [sc for sc in f1.san.values() if sc.name == qshort]
            if 'attr:self.command_str' in o:
                qs += [sc for sc in fi.san.values() if sc.name == qshort]
            if not qs:
                raise Undecided(f'{qn}: the `{var}` line is not built from _quoter calls')
            for sc in qs:
                second = sc.call.args[1] if len(sc.call.args) > 1 else sc.kwargs.get(ps[1])
                if var == 'command':
                    good = second is None or norm(second) == default_qf
                    ctx.require(good, f'{qn}: `command` uses the shell quoter ({default_qf}): {short(sc.call, 50)}', mod, qn, f'command <- {norm(sc.call)}',
                                f'the `command` line, which ninja hands to the shell, is quoted with {short(second)} instead of {default_qf}', sc.call)
                else:
                    good = isinstance(second, ast.Name) and second.id != default_qf
                    ctx.require(good, f'{qn}: `rspfile_content` uses the rsp quoter: {short(sc.call, 60)}', mod, qn, f'rspfile_content <- {norm(sc.call)}',
                                'the response file content is quoted with the shell quoter instead of the rsp-style quote function', sc.call)
    ctx.floor(f'{qn}: command lines written', seen_vars.get('command', 0), 1)
    ctx.floor(f'{qn}: rspfile_content lines written', seen_vars.get('rspfile_content', 0), 1)
    # command/args hold NinjaCommandArg produced by the argument classifier (found by role)
    roles = _roles(ctx, mod)
    for attr in ('self.command', 'self.args'):
        q = roles.classifier.get(attr)
        if q is not None:
            ctx.ok(f'NinjaRule.__init__: every element of {attr} is classified by {q}')
            continue
        dv = fi.attr_defs.get(attr, [])
        oo: T.Set[str] = set()
        for v in dv:
            oo |= fi.origins(v)
        if len(dv) == 1 and isinstance(dv[0], ast.Name) and dv[0].id in fi.params:
            ctx.violation(mod, 'NinjaRule.__init__', f'{attr} = {norm(dv[0])}', f'{attr} stores the constructor argument unclassified: plain strings reach _quoter without a Quoting', dv[0])
        else:
            raise Undecided(f'NinjaRule.__init__: cannot identify the function that classifies the elements of {attr} ({sorted(oo)[:6]})')


# ---------------------------------------------------------------------------
# R1c  Quoting.none construction sites

def _none_site_ok(ctx: RuleCtx, mod: Module, ref: ast.AST, call: ast.Call, cfgs: T.Dict[str, CFG]) -> T.Tuple[bool, str, str]:
    cn = call_name(call)
    q = mod.enclosing_func(call) or '<module>'
    if cn == 'NinjaCommandArg.list':
        if len(call.args) != 2 or call.args[1] is not ref:
            raise Undecided(f'{q}: NinjaCommandArg.list call form {short(call)}')
        e = call.args[0]
        ok = isinstance(e, ast.Call) and isinstance(e.func, ast.Attribute) and isinstance(e.func.value, ast.Name) and e.func.value.id not in ('self',) \
            and len(e.args) >= 1 and not e.keywords \
            and all(isinstance(a, ast.Constant) and isinstance(a.value, str) and re.fullmatch(r'\$\w+', a.value) for a in e.args)
        return ok, q, f'{short(e)}: {"tool method over `$` placeholders" if ok else "not a tool method applied to `$`-placeholder constants only"}'
    if cn == 'NinjaCommandArg':
        if not call.args or not isinstance(call.args[0], ast.Name):
            raise Undecided(f'{q}: NinjaCommandArg(...) with a non-name argument marked Quoting.none')
        v = call.args[0].id
        fn = mod.func(q)
        cfg = cfgs.setdefault(q, CFG(fn))
        nodes = cfg.node_containing(call)
        tests = []
        for t in cfg.find(lambda n: n.kind == 'test'):
            e, pol = t.expr(), True
            while isinstance(e, ast.UnaryOp) and isinstance(e.op, ast.Not):
                e, pol = e.operand, not pol
            if norm(e) == f"{v}.startswith('$')":
                tests.append((t, pol))
        ok = bool(nodes) and any(all(_only_via_edge(cfg, n, t, pol) for n in nodes) for t, pol in tests)
        return ok, q, f"{short(call)} {'is' if ok else 'is NOT'} guarded by {v}.startswith('$')"
    raise Undecided(f'{q}: Quoting.none passed to {cn}')


def r1c(ctx: RuleCtx) -> None:
    mod = ctx.repo.module(NINJA)
    pm = mod.parent_map()
    cfgs: T.Dict[str, CFG] = {}
    n = 0
    for node in ast.walk(mod.tree):
        if not (isinstance(node, ast.Attribute) and attr_chain(node) == 'Quoting.none'):
            continue
        par = pm.get(node)
        if isinstance(par, ast.Compare) or (isinstance(par, ast.Dict) and any(k_ is node for k_ in par.keys)) or isinstance(par, (ast.Set, ast.Tuple, ast.List)):
            continue      # compared with / key of a constant table / member of a constant collection: not a construction
        if isinstance(par, ast.keyword):
            par = pm.get(par)
        if not isinstance(par, ast.Call):
            raise Undecided(f'{mod.enclosing_func(node)}: Quoting.none used outside a call/comparison ({short(par)}): aliasing is outside the idioms')
        ok, q, why = _none_site_ok(ctx, mod, node, par, cfgs)
        n += 1
        ctx.require(ok, f'{q}: {why}', mod, q, par, f'unquoted rule argument: {why}; only `$variable` references may bypass shell and ninja quoting', par)
    ctx.floor('Quoting.none construction sites', n, 2)
    # built-in positive example: a target-derived value marked Quoting.none must be recognised as a bad site
    demo = Module(ctx.repo, '<demo>', "def f(compiler, target):\n    return NinjaCommandArg.list(compiler.get_output_args(target.name), Quoting.none)\n")
    dcall = [c for c in ast.walk(demo.tree) if isinstance(c, ast.Call) and call_name(c) == 'NinjaCommandArg.list'][0]
    if _none_site_ok(ctx, demo, dcall.args[1], dcall, {})[0]:
        raise Undecided('self-check failed: the Quoting.none site classifier accepts a target-derived value')
    # writes to .s / .quoting of an existing NinjaCommandArg
    for q, f in mod.funcs().items():
        if q == 'NinjaCommandArg.__init__':
            continue
        for st in walk_no_nested(f):
            if isinstance(st, (ast.Assign, ast.AugAssign)):
                for t in (st.targets if isinstance(st, ast.Assign) else [st.target]):
                    if isinstance(t, ast.Attribute) and t.attr in ('s', 'quoting') and not (isinstance(t.value, ast.Name) and t.value.id == 'self'):
                        good = t.attr == 's' and isinstance(st.value, ast.Constant) and isinstance(st, ast.Assign)
                        ctx.require(good, f'{q}: {short(st)} stores a constant into an existing command argument', mod, q, st,
                                    f'{short(st)} changes the text/quoting of an already classified command argument with a non-constant', st)


# ---------------------------------------------------------------------------
# R2  ninja escape set

REF_SPECIAL = {True: {'$', ' ', ':'}, False: {'$', ' '}}
# characters for which ninja has no escape in that position: refusing them (raise) is correct, never a wrong escape
NO_ESCAPE = {True: {'\n', '|'}, False: {'\n'}}
UNIVERSE = [chr(c) for c in range(32, 127)] + ['\n', '\t', '\r', '\x0b', '\x0c', '\x00', 'é', '\x85']


def _class_of(r: Regex) -> T.Set[str]:
    if rx.intersects(r.pattern, r'[\s\S][\s\S]+', r.flags, 0) is not None:
        raise Undecided(f'ninja quote pattern {r.pattern!r} matches more than one character at a time')
    return {c for c in UNIVERSE if rx.full_matches(r.pattern, c, r.flags)}


def r2(ctx: RuleCtx) -> None:
    mod = ctx.repo.module(NINJA)
    qn = 'ninja_quote'
    fn = inline_test_locals(mod.func(qn))
    pname, _ = _build_flag_param(mod)
    tab = tables.extract(fn, effects=_assign_eff, name=qn)
    char_atoms: T.Dict[Atom, str] = {}
    flag_atoms: T.List[Atom] = []
    for a in tab.atoms():
        if a.kind == 'in' and a.args[1] == 'ARG1':
            try:
                ch = ast.literal_eval(a.args[0])
            except Exception:
                raise Undecided(f'{qn}: membership test of a non-constant: {a!r}')
            if not isinstance(ch, str) or len(ch) != 1:
                raise Undecided(f'{qn}: membership test {a!r} is not about a single character')
            char_atoms[a] = ch
        elif a.kind == 'truth' and a.args[0] == 'ARG2':
            flag_atoms.append(a)
        else:
            raise Undecided(f'{qn}: condition {a!r} outside the vocabulary')
    pats: T.Dict[str, T.Set[str]] = {}
    regs: T.Dict[str, str] = {}
    cons: T.Dict[str, str] = {}

    def pat_class(name: str) -> T.Set[str]:
        if name not in pats:
            r = fold_const(ctx.repo, mod, name)
            if not isinstance(r, Regex):
                raise Undecided(f'{name} does not fold to a compiled regex: {r!r}')
            regs[name] = repr(r.pattern)
            cons[name] = r.pattern
            pats[name] = _class_of(r)
        return pats[name]

    def table_class(name: str) -> T.Tuple[T.Set[str], T.Dict[str, T.Any]]:
        """A constant str.translate table: (characters it rewrites, {character: replacement} for those whose replacement is not `$` + the character)."""
        t = fold_const(ctx.repo, mod, name)
        if not isinstance(t, dict) or not t or not all(isinstance(k, int) for k in t):
            raise Undecided(f'{name} does not fold to a str.translate table: {t!r}')
        changed = {chr(k): (chr(v) if isinstance(v, int) else v) for k, v in t.items() if v != k and v != chr(k)}
        regs[name] = 'translate table ' + repr({k: changed[k] for k in sorted(changed)})
        cons[name] = regs[name]
        pats[name] = set(changed)
        return pats[name], {k: v for k, v in changed.items() if v != '$' + k}

    def eval_recv(e: ast.AST, flag: bool, row: tables.Row) -> str:
        if isinstance(e, ast.IfExp):
            if norm(e.test) == 'ARG2':
                return eval_recv(e.body if flag else e.orelse, flag, row)
            if norm(e.test) == 'not ARG2':
                return eval_recv(e.orelse if flag else e.body, flag, row)
            raise Undecided(f'{qn}: pattern selected by {short(e.test)}')
        if isinstance(e, ast.Name):
            defs = [x.split(':=', 1)[1].strip() for x in row.effects if x.startswith(e.id + ' :=')]
            if defs:
                return eval_recv(_expr(defs[-1]), flag, row)
            return e.id
        raise Undecided(f'{qn}: cannot resolve the pattern object {short(e)}')

    interesting = sorted((REF_SPECIAL[True] | set(char_atoms.values())) - {'\n'})
    n_w = 0
    for flag in (True, False):
        for k in range(len(interesting) + 1):
            for combo in itertools.combinations(interesting, k):
                for nl in (False, True):
                    present = set(combo) | ({'\n'} if nl else set())
                    world = {a: (c in present) for a, c in char_atoms.items()}
                    world.update({a: flag for a in flag_atoms})
                    rows = tab.fire(world)
                    if len(rows) != 1:
                        raise Undecided(f'{qn}: {len(rows)} rows fire for characters {sorted(present)!r}, {pname}={flag}')
                    r = rows[0]
                    where = f'text containing {sorted(present)!r} (of the special candidates), {pname}={flag}'
                    node = r.path.events[-1].node if r.path.events else fn
                    n_w += 1
                    if nl:
                        ctx.require(r.outcome[0] == 'raise', f'{qn}: {where}: raises', mod, qn, f'newline, {pname}={flag}: {" ".join(map(str, r.outcome))}',
                                    f'{where}: ninja cannot represent a newline, the function must raise but does `{" ".join(map(str, r.outcome))}`', node)
                        continue
                    want = present & REF_SPECIAL[flag]
                    if r.outcome[0] == 'raise' and present & NO_ESCAPE[flag]:
                        ctx.ok(f'{qn}: {where}: refuses a character ninja cannot escape here')
                        continue
                    if r.outcome[0] != 'return':
                        ctx.violation(mod, qn, f'{sorted(present)}, {pname}={flag}: {r.outcome}', f'{where}: does not return a value: {r.outcome}', node)
                        continue
                    e = _expr(_row_return(r))
                    if isinstance(e, ast.Name) and e.id == 'ARG1':
                        got, how = set(), 'returns the text unchanged'
                    elif isinstance(e, ast.Call) and isinstance(e.func, ast.Attribute) and e.func.attr == 'sub' and len(e.args) == 2 \
                            and isinstance(e.args[0], ast.Constant) and norm(e.args[1]) == 'ARG1':
                        pn = eval_recv(e.func.value, flag, r)
                        cls = pat_class(pn)
                        repl = e.args[0].value
                        if not isinstance(repl, str):
                            raise Undecided(f'{qn}: non-string replacement {repl!r}')
                        items = _template_items(repl)
                        if items != ['$', 0]:
                            ctx.violation(mod, qn, f'{pn}.sub({repl!r})', f'replacement template {repl!r} folds to {items}; the ninja escape is the literal `$` followed by the whole match (group 0)', node)
                            continue
                        got, how = present & cls, f'escapes {sorted(cls - {chr(10)})!r} ({pn})'
                    elif isinstance(e, ast.Call) and isinstance(e.func, ast.Attribute) and e.func.attr == 'translate' and len(e.args) == 1 and not e.keywords \
                            and norm(e.func.value) == 'ARG1':
                        # str.translate with a constant table: every character of the table is rewritten wherever it occurs (same reading as a one-character class + template)
                        pn = eval_recv(e.args[0], flag, r)
                        cls, wrong = table_class(pn)
                        if wrong:
                            ctx.violation(mod, qn, f'translate({pn}): {sorted(wrong.items())!r}', f'the translate table {pn} maps {sorted(wrong.items())!r}; the ninja escape of a character is the literal `$` '
                                          'followed by that character', node)
                            continue
                        got, how = present & cls, f'escapes {sorted(cls - {chr(10)})!r} ({pn})'
                    else:
                        raise Undecided(f'{qn}: result {r.outcome[1]} outside the idioms')
                    ctx.require(got == want, f'{qn}: {where}: {how}', mod, qn, f'{sorted(present)}, {pname}={flag}: {r.outcome[1]}',
                                f'{where}: the function {how}, so {sorted(got)!r} are escaped; ninja requires exactly {sorted(want)!r} to be escaped here', node)
    for name in sorted(pats):
        extra = pats[name] - REF_SPECIAL[True] - {'\n'}
        ctx.require(not extra, f'{name} = {regs[name]} escapes {sorted(pats[name])!r}', mod, '<module>', f'{name} = {cons[name]}',
                    f'{name} also escapes {sorted(extra)!r}: `$x` for other characters is a variable reference or an error in ninja')
    ctx.floor('ninja quote patterns used', len(pats), 2)
    ctx.floor('ninja_quote worlds compared', n_w, 32)



# ---------------------------------------------------------------------------
# R3  quoting-function selection agrees between rule and element

def _style_members(ctx: RuleCtx, mod: Module) -> T.List[str]:
    r = ctx.repo.resolve_class(mod, 'RSPFileSyntax')
    if r is None:
        raise Undecided('RSPFileSyntax cannot be resolved from ninjabackend.py')
    names = [t.id for st in r[1].body if isinstance(st, ast.Assign) for t in st.targets if isinstance(t, ast.Name)]
    if len(names) < 2:
        raise Undecided(f'RSPFileSyntax members: {names}')
    return names


def _style_atom(a: Atom, subjects: T.Set[str]) -> T.Optional[T.Callable[[str], bool]]:
    """Atom about the rsp style -> predicate on the member name."""
    def members(text: str) -> T.Set[str]:
        e = _expr(text)
        if isinstance(e, (ast.Set, ast.Tuple, ast.List)):
            out = set()
            for x in e.elts:
                c = attr_chain(x)
                if not c or not c.startswith('RSPFileSyntax.'):
                    raise Undecided(f'rsp style set element {short(x)}')
                out.add(c.split('.')[1])
            return out
        raise Undecided(f'rsp style compared with {text}')
    if a.kind == 'in' and a.args[0] in subjects:
        ms = members(a.args[1])
        return lambda m: m in ms
    if a.kind in ('is', 'cmp') and (a.kind == 'is' or a.args[0] == 'eq'):
        x, y = a.args[-2], a.args[-1]
        if y in subjects:
            x, y = y, x
        if x in subjects and y.startswith('RSPFileSyntax.'):
            return lambda m: m == y.split('.')[1]
    return None


def _qf_map(ctx: RuleCtx, mod: Module, qn: str, var: str, subjects: T.Set[str], members: T.List[str],
            rsp_flag_ok: T.Callable[[Atom], bool]) -> T.Dict[T.Tuple[bool, str], str]:
    fn = _elem_fn(mod) if qn == 'NinjaBuildElement.write' else _nfunc(mod, qn)
    body = [st for st in fn.body if any(isinstance(n, ast.Name) and n.id == var and isinstance(n.ctx, ast.Store) for n in ast.walk(st))
            and not (isinstance(st, ast.AnnAssign) and st.value is None)]       # a bare annotation binds nothing
    if not body:
        raise Undecided(f'{qn}: no assignment to {var}')
    # table-driven form: var = TABLE.get(<style>, DEFAULT) / TABLE[<style>] with a constant table keyed by the enum (catalogue B5)
    if len(body) == 1 and isinstance(body[0], (ast.Assign, ast.AnnAssign)) and body[0].value is not None:
        v = body[0].value
        texpr = key = dflt = None
        if isinstance(v, ast.Call) and isinstance(v.func, ast.Attribute) and v.func.attr == 'get' and 1 <= len(v.args) <= 2:
            texpr, key, dflt = v.func.value, v.args[0], (v.args[1] if len(v.args) == 2 else None)
        elif isinstance(v, ast.Subscript) and not isinstance(v.slice, ast.Slice):
            texpr, key = v.value, v.slice
        if key is not None and norm(key) in subjects:
            cls = qn.split('.')[0] if '.' in qn else None
            table = fold_expr(ctx.repo, mod, texpr, cls=cls)
            if not isinstance(table, dict) or not all(isinstance(k_, EnumMember) for k_ in table):
                raise Undecided(f'{qn}: {short(texpr)} does not fold to a table keyed by the rsp style')

            def fname(x: T.Any) -> str:
                nm = getattr(x, 'name', None)
                if not isinstance(nm, str):
                    raise Undecided(f'{qn}: table value {x!r} is not a function reference')
                return nm
            bykey = {k_.name: fname(v_) for k_, v_ in table.items()}
            out0: T.Dict[T.Tuple[bool, str], str] = {}
            for m in members:
                if m in bykey:
                    out0[(True, m)] = bykey[m]
                elif dflt is not None and isinstance(dflt, ast.Name):
                    out0[(True, m)] = dflt.id
                else:
                    raise Undecided(f'{qn}: no table entry / default for style {m}')
            return out0
    afl = OFlow(fn)
    subjects = set(subjects) | {n for n, ds in afl.defs.items() if n not in afl.params and len(ds) == 1 and isinstance(ds[0], ast.AST) and norm(ds[0]) in subjects}
    tab = tables.extract(fn, body=body, effects=_assign_eff, inline=False, name=f'{qn}:{var}')
    preds: T.Dict[Atom, T.Callable[[str], bool]] = {}
    flags: T.List[Atom] = []
    for a in tab.atoms():
        p = _style_atom(a, subjects)
        if p is not None:
            preds[a] = p
        elif rsp_flag_ok(a):
            flags.append(a)
        else:
            raise Undecided(f'{qn}: the choice of {var} depends on {a!r}, outside the vocabulary (rsp style, use of rsp file)')
    out: T.Dict[T.Tuple[bool, str], str] = {}
    for use in ((True, False) if flags else (True,)):
        for m in members:
            w = {a: p(m) for a, p in preds.items()}
            w.update({a: use for a in flags})
            rows = tab.fire(w)
            if len(rows) != 1:
                raise Undecided(f'{qn}: {len(rows)} rows fire for style {m}, rsp={use}')
            vals = [e.split(':=', 1)[1].strip() for e in rows[0].effects if e.startswith(var + ' :=')]
            if not vals:
                raise Undecided(f'{qn}: {var} unassigned for style {m}, rsp={use}')
            out[(use, m)] = vals[-1]
    return out


def r3a(ctx: RuleCtx) -> None:
    mod = ctx.repo.module(NINJA)
    roles = _roles(ctx, mod)
    members = _style_members(ctx, mod)
    # rule side: variable passed as quote function to _quoter for rspfile_content
    wfn = _nfunc(mod, 'NinjaRule.write')
    fl = OFlow(wfn, {'ninja_quote', roles.quoter})
    for c in _sinks(wfn, fl):
        fl.origins(c.args[0])
    two = {norm(sc.call.args[1]) for sc in fl.san.values() if sc.name == roles.quoter and len(sc.call.args) > 1}
    if len(two) != 1 or not next(iter(two)).isidentifier():
        raise Undecided(f'NinjaRule.write: rsp quote function expression(s) {sorted(two)}')
    rvar = next(iter(two))
    rule_map = _qf_map(ctx, mod, 'NinjaRule.write', rvar, {'self.rspfile_quote_style'}, members, lambda a: False)
    # element side
    efn = _elem_fn(mod)
    efl = OFlow(efn, {'ninja_quote'})
    evars = set()
    for n in ast.walk(efn):
        if isinstance(n, ast.Call) and call_name(n) == 'ninja_quote' and n.args and isinstance(n.args[0], ast.Call) and isinstance(n.args[0].func, ast.Name):
            evars.add(n.args[0].func.id)
    if len(evars) != 1:
        raise Undecided(f'NinjaBuildElement.write: element quote function variable(s) {sorted(evars)}')
    evar = next(iter(evars))

    def is_rsp_flag(a: Atom) -> bool:
        if a.kind != 'truth':
            return False
        o = efl.origins(_expr(a.args[0]))
        return 'attr:self._should_use_rspfile' in o
    elem_map = _qf_map(ctx, mod, 'NinjaBuildElement.write', evar, {'self.rule.rspfile_quote_style'}, members, is_rsp_flag)
    odd = sorted({str(v) for v in list(rule_map.values()) + list(elem_map.values()) if not (isinstance(v, str) and v.isidentifier())})
    if odd:
        raise Undecided(f'the quote function is given by the expression(s) {odd[:2]}, not by a function name the rule can compare')
    for m in members:
        r, e = rule_map[(True, m)], elem_map.get((True, m))
        ctx.require(r == e, f'rsp style {m}: rule quotes rspfile_content with {r}, element quotes values with {e}', mod, 'NinjaBuildElement.write',
                    f'RSPFileSyntax.{m}: rule {r} / element {e}',
                    f'for RSPFileSyntax.{m} NinjaRule.write quotes rspfile_content with {r} but NinjaBuildElement.write quotes the variable values with {e}: '
                    'the response file mixes two quoting syntaxes')
        ctx.require(r != roles.shell, f'rsp style {m}: {r} is not the shell quoter', mod, 'NinjaRule.write', f'RSPFileSyntax.{m}: {r}',
                    f'response files of style {m} are quoted with the shell quote function {r}: a response file is not read by the shell')
    plain = {elem_map.get((False, m)) for m in members}
    default_qf = roles.shell
    ctx.require(plain == {default_qf}, f'without response file the element quotes with {sorted(map(str, plain))} = _quoter default {default_qf}', mod,
                'NinjaBuildElement.write', f'plain: {sorted(map(str, plain))} / {default_qf}',
                f'without a response file values are quoted with {sorted(map(str, plain))} while the rule command line is quoted with {default_qf}')
    # MSVC/TASKING -> cmd_quote, others -> gcc_rsp_quote (reference: documentation of the rsp syntaxes)
    dbl = roles.rsp_doubling()
    if roles.win is None or len(dbl) != 1:
        raise Undecided(f'cannot identify by role the Windows command-line quoter ({roles.win}) / the backslash-doubling response-file quoter ({dbl})')
    ref = {'MSVC': roles.win, 'TASKING': roles.win, 'GCC': dbl[0]}
    for m, want in ref.items():
        if m in members:
            ctx.require(rule_map[(True, m)] == want, f'rsp style {m} -> {want}', mod, 'NinjaRule.write', f'RSPFileSyntax.{m} -> {rule_map[(True, m)]}',
                        f'RSPFileSyntax.{m} response files are quoted with {rule_map[(True, m)]}; the syntax requires {want} '
                        f'({"CommandLineToArgvW rules" if want == roles.win else "libiberty buildargv: backslash escapes everywhere"})')


def r3b(ctx: RuleCtx) -> None:
    mod = ctx.repo.module(NINJA)
    roles = _roles(ctx, mod)
    # the table of raw variables, found by role: what NinjaBuildElement.write tests the variable name against
    efn = _elem_fn(mod)
    efl = OFlow(efn)
    etabs = set()
    for n in ast.walk(efn):
        if isinstance(n, ast.Compare) and len(n.ops) == 1 and isinstance(n.ops[0], (ast.In, ast.NotIn)) and 'attr:self.elems[0]' in efl.origins(n.left):
            etabs.add(norm(n.comparators[0]))
    if not etabs:
        raise Undecided('NinjaBuildElement.write: no membership test of the variable name found')
    tname = sorted(etabs)[0]
    qs = {roles.classifier.get('self.command'), roles.classifier.get('self.args')}
    if len(qs) != 1 or None in qs:
        raise Undecided(f'NinjaRule.__init__: command and args are not classified by one identifiable function ({qs})')
    qn = next(iter(qs))
    fn = inline_test_locals(mod.func(qn))
    fl = OFlow(fn)
    tab = tables.extract(fn, name=qn)
    sem: T.Dict[Atom, str] = {}
    var_expr = None
    rtabs = set()
    for a in tab.atoms():
        if a.kind == 'isinstance' and a.args == ('ARG1', ('NinjaCommandArg',)):
            sem[a] = 'I'
        elif a.kind == 'cmp' and a.args == ('eq', 'ARG1', repr('&&')):
            sem[a] = 'A'
        elif a.kind == 'truth' and a.args[0] == "ARG1.startswith('$')":
            sem[a] = 'D'
        elif a.kind == 'in' and a.args[0] != 'ARG1':
            sem[a] = 'R'
            var_expr = a.args[0]
            rtabs.add(a.args[1])
        else:
            raise Undecided(f'{qn}: condition {a!r} outside the vocabulary')
    if set(sem.values()) != {'I', 'A', 'D', 'R'}:
        raise Undecided(f'{qn}: conditions found {sorted(sem.values())}, expected isinstance / `&&` / `$` prefix / raw-variable table')
    ctx.require(len(etabs) == 1 and rtabs == etabs, f'rule side ({qn}) and element side test variable names against the same table {sorted(etabs)}', mod,
                'NinjaBuildElement.write', f'variable name in {sorted(etabs)} / rule side {sorted(rtabs)}',
                f'NinjaBuildElement.write tests the variable name against {sorted(etabs)} while {qn} classifies `$var` references with {sorted(rtabs)}: '
                'the two sides disagree on which variables are shell-quoted at use')
    if not tname.isidentifier():
        raise Undecided(f'the raw-variable table is the expression {tname}, not a module constant')
    ctx.require(tname not in fl.defs and tname not in fl.params and tname not in efl.defs and tname not in efl.params, f'{tname} is the module-level table on both sides', mod, qn, tname,
                f'{tname} is shadowed locally')
    raw = fold_const(ctx.repo, mod, tname)
    n_assign = sum(1 for st in ast.walk(mod.tree) if isinstance(st, (ast.Assign, ast.AugAssign, ast.AnnAssign))
                   for t in (st.targets if isinstance(st, ast.Assign) else [st.target]) if isinstance(t, ast.Name) and t.id == tname)
    ctx.require(isinstance(raw, (set, frozenset, tuple, list)) and all(isinstance(x, str) for x in raw) and n_assign == 1,
                f'{tname} is one module-level constant collection of {len(raw)} names', mod, '<module>', tname, f'{tname} is assigned {n_assign} times / folds to {raw!r}')

    def ref(v: T.Dict[str, bool]) -> str:
        if v['I']:
            return 'ARG1'
        if v['A']:
            return 'notShell'
        if v['D']:
            return 'notNinja' if v['R'] else 'none'
        return 'both'
    n = 0
    for bits in itertools.product((True, False), repeat=4):
        v = dict(zip('IADR', bits))
        if v['A'] and v['D']:
            continue    # `&&` does not start with `$`
        rows = tab.fire({a: v[k] for a, k in sem.items()})
        if len(rows) != 1:
            raise Undecided(f'{qn}: {len(rows)} rows fire for {v}')
        oc = rows[0].outcome
        got = '?'
        if oc[0] == 'return':
            e = _expr(oc[1])
            if norm(e) == 'ARG1':
                got = 'ARG1'
            elif isinstance(e, ast.Call) and call_name(e) == 'NinjaCommandArg' and e.args and norm(e.args[0]) == 'ARG1':
                q = e.args[1] if len(e.args) > 1 else kwarg(e, 'quoting')
                got = 'both' if q is None else (attr_chain(q) or '?').replace('Quoting.', '')
        n += 1
        ctx.require(got == ref(v), f'{qn}: {v} -> {got}', mod, qn, f'{v} -> {oc}',
                    f'a rule argument with isinstance={v["I"]} `&&`={v["A"]} `$`-prefixed={v["D"]} raw variable={v["R"]} is classified {got} ({oc}); reference {ref(v)}',
                    rows[0].path.events[-1].node)
    ctx.floor(f'{qn}: worlds', n, 12)
    # the tested name is the variable name extracted from the `$name` / `${name}` reference
    vdefs = fl.defs.get(var_expr or '', [])
    pats = []

    def const_pattern(c: ast.AST) -> T.Optional[str]:
        # PATTERN_CONSTANT.match(x) with a module-level re.compile(...) constant
        if isinstance(c, ast.Call) and isinstance(c.func, ast.Attribute) and c.func.attr in ('match', 'fullmatch') and isinstance(c.func.value, ast.Name) \
                and c.func.value.id not in fl.defs and mod.has_assign(c.func.value.id):
            try:
                r = fold_const(ctx.repo, mod, c.func.value.id)
            except Exception:
                return None
            return r.pattern if isinstance(r, Regex) else None
        return None
    for d in vdefs:
        for nm in [d] + [d2 for x in ast.walk(d) if isinstance(x, ast.Name) for d2 in fl.defs.get(x.id, []) if isinstance(d2, ast.AST)]:
            for c in ast.walk(nm):
                pc = const_pattern(c)
                if pc is not None:
                    pats.append(pc)
    for d in vdefs:
        for c in ast.walk(d):
            if isinstance(c, ast.Call) and call_name(c) in ('re.match', 're.fullmatch') and isinstance(c.args[0], ast.Constant):
                pats.append(c.args[0].value)
        for nm in [x.id for x in ast.walk(d) if isinstance(x, ast.Name)]:
            for d2 in fl.defs.get(nm, []):
                for c in ast.walk(d2):
                    if isinstance(c, ast.Call) and call_name(c) in ('re.match', 're.fullmatch') and isinstance(c.args[0], ast.Constant):
                        pats.append(c.args[0].value)
    if len(set(pats)) != 1:
        raise Undecided(f'{qn}: cannot find the single constant regex that extracts the variable name ({pats})')
    ok, why = _name_regex_shape(pats[0])
    ctx.require(ok, f'{qn}: {pats[0]!r}: {why}', mod, qn, f'name regex {pats[0]}',
                f'the regex {pats[0]!r} that extracts the variable name for the raw-variable lookup: {why}')


def _name_regex_shape(pattern: str) -> T.Tuple[bool, str]:
    """Structure of the `$name` / `${name}` regex: `$`, optional `{`, group 1 = an unbounded run of word characters."""
    sre_c = rx.sre_c
    items = list(rx.parse(pattern))
    if not items or items[0] != (sre_c.LITERAL, ord('$')):
        return False, 'does not start with a literal `$`'
    rest = items[1:]
    if rest and rest[0][0] is sre_c.MAX_REPEAT and rest[0][1][0] == 0 and rest[0][1][1] == 1 and list(rest[0][1][2]) == [(sre_c.LITERAL, ord('{'))]:
        rest = rest[1:]
    if not rest or rest[0][0] is not sre_c.SUBPATTERN or rest[0][1][0] != 1:
        raise Undecided(f'variable-name regex {pattern!r}: group 1 does not directly follow `$` / `${{`')
    body = list(rest[0][1][3])
    if len(body) == 1 and body[0][0] is sre_c.IN:
        return False, 'group 1 captures a single character, not the whole variable name'
    if len(body) != 1 or body[0][0] not in (sre_c.MAX_REPEAT, sre_c.MIN_REPEAT):
        raise Undecided(f'variable-name regex {pattern!r}: body of group 1 is not a repeat of one class')
    lo, hi, sub = body[0][1]
    sub = list(sub)
    if hi is not sre_c.MAXREPEAT or body[0][0] is sre_c.MIN_REPEAT:
        return False, 'group 1 does not greedily capture the whole run of name characters'
    if len(sub) != 1 or sub[0][0] is not sre_c.IN:
        raise Undecided(f'variable-name regex {pattern!r}: group 1 repeats something other than a character class')
    cls = rx.class_chars(sub[0][1], UNIVERSE)
    want = {c for c in UNIVERSE if c.isalnum() or c == '_'}
    if cls != want:
        return False, f'group 1 accepts {sorted(cls ^ want)!r} differently from ninja identifier characters'
    return True, '`$`, optional `{`, group 1 = greedy run of word characters'


def r3c(ctx: RuleCtx) -> None:
    mod = ctx.repo.module(NINJA)
    roles = _roles(ctx, mod)
    shell = roles.shell
    # the quote function used for GCC-style response files (role: assigned on the rule side for the non-MSVC styles)
    wfn = _nfunc(mod, 'NinjaRule.write')
    fl = OFlow(wfn, {'ninja_quote', roles.quoter})
    for c in _sinks(wfn, fl):
        fl.origins(c.args[0])
    rvars = {norm(sc.call.args[1]) for sc in fl.san.values() if sc.name == roles.quoter and len(sc.call.args) > 1}
    if len(rvars) != 1:
        raise Undecided(f'NinjaRule.write: rsp quote function expression(s) {sorted(rvars)}')
    rmap = _qf_map(ctx, mod, 'NinjaRule.write', next(iter(rvars)), {'self.rspfile_quote_style'}, _style_members(ctx, mod), lambda a: False)
    gcc = rmap.get((True, 'GCC'))
    if gcc is None or not mod.has_func(gcc):
        raise Undecided(f'cannot identify the quote function of GCC-style response files ({gcc})')
    qn = gcc
    fn = mod.func(qn)
    ctx.floor(f'{qn}: paths', len(tables.extract(fn).rows), 1)
    ctx.require(_doubling_shape(fn, shell), f'{qn}: returns {shell}(text with every backslash doubled)', mod, qn, f'{qn} shape',
                f'{qn}, the quote function of GCC-style response files, does not return {shell}(arg.replace of one backslash by two): libiberty buildargv treats a '
                'backslash as escape even inside quotes, so backslashes must be doubled before shell-style quoting', fn)
    # shell quoter binding at module level
    if len(roles.switch) != 1 or roles.win is None or roles.posix is None:
        raise Undecided(f'{shell} is not bound by exactly one platform switch')
    ctx.require(mod.has_func(roles.win) and roles.win != roles.posix, f'{shell} on Windows hosts is {roles.win}', mod, '<module>', f'{shell} = {roles.win} (windows)',
                f'on Windows hosts {shell} is {roles.win}, the same as on POSIX hosts / not a function of this module: ninja runs commands through CreateProcess there')
    ctx.require(roles.posix == 'quote_arg', f'{shell} on POSIX hosts is {roles.posix}', mod, '<module>', f'{shell} = {roles.posix} (posix)',
                f'on POSIX hosts {shell} is {roles.posix}; ninja runs commands through /bin/sh, which needs mesonlib.quote_arg (shlex.quote)')
    ctx.require(mod.imports().get('quote_arg', '').endswith('mesonlib.quote_arg'), 'quote_arg is mesonlib.quote_arg', mod, '<module>', 'import quote_arg',
                f'quote_arg is imported from {mod.imports().get("quote_arg")}')
    # POSIX quote_arg is shlex.quote
    um = ctx.repo.module(UNIVERSAL)
    found = 0
    for st in um.tree.body:
        if isinstance(st, ast.If) and norm(st.test).endswith('is_windows()'):
            for f in st.orelse:
                if isinstance(f, ast.FunctionDef) and f.name == 'quote_arg':
                    found += 1
                    vals = [_row_shape(r) for r in tables.extract(f, effects=_assign_eff, inline_calls={'quote'}).rows]
                    ctx.require(vals == [('shlex.quote(ARG1)', ())], 'POSIX quote_arg returns shlex.quote(arg)', um, 'quote_arg', f'return {vals}',
                                f'the POSIX quote_arg returns {vals}, not shlex.quote of its argument', f)
    ctx.floor('POSIX definition of quote_arg', found, 1)



# ---------------------------------------------------------------------------
# R3d  CommandLineToArgvW-style quote function: escaping runs on every path that needs it

def _flat_regex(items: T.Any) -> T.List[T.Any]:
    out: T.List[T.Any] = []
    for it in items:
        if it[0] is rx.sre_c.SUBPATTERN:
            out += _flat_regex(it[1][3])
        else:
            out.append(it)
    return out


def _escape_kind(pattern: str) -> T.Optional[str]:
    """'quote' for <run of backslashes>" ; 'terminal' for <run of backslashes><end of string>; None for anything else (regex structure)."""
    c = rx.sre_c
    items = _flat_regex(list(rx.parse(pattern)))
    if len(items) != 2 or items[0][0] is not c.MAX_REPEAT:
        return None
    lo, hi, sub = items[0][1]
    if hi is not c.MAXREPEAT or _flat_regex(list(sub)) != [(c.LITERAL, ord('\\'))]:
        return None
    if items[1] == (c.LITERAL, ord('"')):
        return 'quote'
    if items[1][0] is c.AT and items[1][1] in (c.AT_END, c.AT_END_STRING):
        return 'terminal'
    return None


def _dq_wrapped(e: ast.AST) -> bool:
    """An expression that puts a double quote at both ends: f'"{x}"', '"' + x + '"', '"{}"'.format(x), '"%s"' % x."""
    def const(x: ast.AST) -> T.Optional[str]:
        return x.value if isinstance(x, ast.Constant) and isinstance(x.value, str) else None
    if isinstance(e, ast.JoinedStr) and len(e.values) >= 3:
        a, b = const(e.values[0]), const(e.values[-1])
        return bool(a and b and a.startswith('"') and b.endswith('"'))
    if isinstance(e, ast.BinOp) and isinstance(e.op, ast.Add):
        parts: T.List[ast.AST] = []
        def flat(x: ast.AST) -> None:
            if isinstance(x, ast.BinOp) and isinstance(x.op, ast.Add):
                flat(x.left)
                flat(x.right)
            else:
                parts.append(x)
        flat(e)
        a, b = const(parts[0]), const(parts[-1])
        return len(parts) >= 3 and bool(a and b and a.startswith('"') and b.endswith('"'))
    tmpl = None
    if isinstance(e, ast.Call) and isinstance(e.func, ast.Attribute) and e.func.attr == 'format':
        tmpl = const(e.func.value)
    elif isinstance(e, ast.BinOp) and isinstance(e.op, ast.Mod):
        tmpl = const(e.left)
    return bool(tmpl and len(tmpl) >= 4 and tmpl.startswith('"') and tmpl.endswith('"'))


def _postorder(n: ast.AST) -> T.Iterator[ast.AST]:
    for ch in ast.iter_child_nodes(n):
        if isinstance(ch, (ast.Lambda, ast.FunctionDef, ast.AsyncFunctionDef)):
            continue
        yield from _postorder(ch)
    yield n


def _escape_paths(fn: ast.AST, fold: T.Callable[[ast.AST], T.Any]) -> T.List[T.Tuple[bool, str, str, ast.AST]]:
    """One entry (ok, key, message, node) per returning path and escape kind of a quote function for the MSVC runtime's command line
    syntax.  On a path that wraps the text in double quotes, backslashes before a `"` must be doubled and the `"` escaped (kind quote)
    and a terminal run of backslashes doubled (kind terminal; it would otherwise escape the closing quote), before the wrapping;
    a path may skip a kind only under a condition that excludes its trigger (`"` not in text / text does not end with a backslash /
    text empty).  Path conditions are read as atoms over the text; an atom the rule cannot read makes it undecided."""
    ps = [a.arg for a in fn.args.posonlyargs + fn.args.args if a.arg not in ('self', 'cls')]      # type: ignore[attr-defined]
    if len(ps) != 1:
        raise Undecided(f'{fn.name}: expected one (text) parameter, found {ps}')      # type: ignore[attr-defined]
    out: T.List[T.Tuple[bool, str, str, ast.AST]] = []
    for path in enumerate_paths(fn.body):      # type: ignore[attr-defined]
        if path.outcome != 'return':
            continue
        holders = {ps[0]}
        derived: T.Dict[str, ast.AST] = {}       # locals computed from the text that do not hold the text itself (tests named before the branch)
        seq: T.List[T.Tuple[str, ast.AST]] = []
        absent = {'quote': False, 'terminal': False}
        present_known: T.List[str] = []
        for ev in path.events:
            if ev.kind == 'cond':
                e = ev.node
                if isinstance(e, ast.Name) and e.id in derived:
                    e = derived[e.id]          # a test named as a local before the branch (catalogue C3)
                names = {x.id for x in ast.walk(e) if isinstance(x, ast.Name)}
                if names & set(derived):
                    raise Undecided(f'{fn.name}: path condition `{short(e)}` reads a value computed from the text in a form the rule does not read')      # type: ignore[attr-defined]
                if not (names & holders):
                    continue
                if any(k == 'wrap' for k, _ in seq):
                    raise Undecided(f'{fn.name}: condition `{short(e)}` tests the text after it was wrapped in quotes')      # type: ignore[attr-defined]
                val = bool(ev.val)
                if isinstance(e, ast.Name):
                    if not val:
                        absent['quote'] = absent['terminal'] = True
                    continue
                if isinstance(e, ast.Compare) and len(e.ops) == 1 and isinstance(e.ops[0], (ast.In, ast.NotIn)) and isinstance(e.left, ast.Constant) \
                        and isinstance(e.left.value, str) and isinstance(e.comparators[0], ast.Name):
                    has = val if isinstance(e.ops[0], ast.In) else not val
                    if not has and e.left.value == '"':
                        absent['quote'] = True
                    if not has and e.left.value == '\\':
                        absent['terminal'] = True
                    present_known.append(f'{e.left.value!r} {"in" if has else "not in"} text')
                    continue
                if isinstance(e, ast.Call) and isinstance(e.func, ast.Attribute) and e.func.attr in ('endswith', 'startswith') and isinstance(e.func.value, ast.Name) \
                        and len(e.args) == 1 and isinstance(e.args[0], ast.Constant) and isinstance(e.args[0].value, str):
                    if e.func.attr == 'endswith' and e.args[0].value == '\\' and not val:
                        absent['terminal'] = True
                    present_known.append(f'text.{e.func.attr}({e.args[0].value!r}) is {val}')
                    continue
                raise Undecided(f'{fn.name}: path condition `{short(e)}` over the text is outside the vocabulary of the rule')      # type: ignore[attr-defined]
            if ev.kind != 'stmt' or ev.node is None:
                continue
            st = ev.node
            touched = False
            for n in _postorder(st):
                if isinstance(n, ast.Call) and isinstance(n.func, ast.Attribute) and n.func.attr in ('sub', 'subn'):
                    is_re = isinstance(n.func.value, ast.Name) and n.func.value.id == 're'
                    subj = (n.args[2] if len(n.args) >= 3 else kwarg(n, 'string')) if is_re else (n.args[1] if len(n.args) >= 2 else kwarg(n, 'string'))
                    if subj is None or not ({x.id for x in ast.walk(subj) if isinstance(x, ast.Name)} & holders):
                        continue
                    pat = fold(n.args[0] if is_re and n.args else n.func.value)
                    pat = pat.pattern if isinstance(pat, Regex) else pat
                    kind = _escape_kind(pat) if isinstance(pat, str) else None
                    if kind is None:
                        raise Undecided(f'{fn.name}: `{short(n, 70)}` rewrites the text with a pattern the rule does not classify')      # type: ignore[attr-defined]
                    seq.append((kind, n))
                    touched = True
                elif isinstance(n, ast.Call) and isinstance(n.func, ast.Attribute) and n.func.attr in STR_TRANSFORMS and n.func.attr not in ('format', 'join') \
                        and isinstance(n.func.value, ast.Name) and n.func.value.id in holders:
                    raise Undecided(f'{fn.name}: `{short(n, 70)}` rewrites the text in a form the rule does not read')      # type: ignore[attr-defined]
                elif _dq_wrapped(n) and ({x.id for x in ast.walk(n) if isinstance(x, ast.Name)} & holders):
                    seq.append(('wrap', n))
                    touched = True
                elif isinstance(n, ast.Call):
                    operands = list(n.args) + [k.value for k in n.keywords] + ([n.func.value] if isinstance(n.func, ast.Attribute) else [])
                    nm = n.func.attr if isinstance(n.func, ast.Attribute) else (n.func.id if isinstance(n.func, ast.Name) else '')
                    if any(isinstance(o, ast.Name) and o.id in holders for o in operands) and nm not in ('endswith', 'startswith', 'len', 'find', 'rfind', 'count', 'isinstance', 'index'):
                        raise Undecided(f'{fn.name}: `{short(n, 70)}` takes the text; the rule does not know whether it rewrites it')      # type: ignore[attr-defined]
            if isinstance(st, (ast.Assign, ast.AnnAssign)) and st.value is not None:
                reads_text = bool({x.id for x in ast.walk(st.value) if isinstance(x, ast.Name)} & (holders | set(derived)))
                for t in (st.targets if isinstance(st, ast.Assign) else [st.target]):
                    if not isinstance(t, ast.Name):
                        continue
                    if touched or (isinstance(st.value, ast.Name) and st.value.id in holders):
                        holders.add(t.id)
                    elif reads_text:
                        derived[t.id] = st.value
                        holders.discard(t.id)
        wraps = [k for k, (kd, _) in enumerate(seq) if kd == 'wrap']
        where = path.events[-1].node if path.events and path.events[-1].node is not None else fn
        if len(wraps) > 1:
            raise Undecided(f'{fn.name}: a path wraps the text in quotes {len(wraps)} times')      # type: ignore[attr-defined]
        if not wraps:
            if not any(kd in ('quote', 'terminal') for kd, _ in seq) and not present_known and not absent['quote']:
                raise Undecided(f'{fn.name}: a returning path neither quotes nor tests the text ({path.describe()[:80]})')      # type: ignore[attr-defined]
            ok = absent['quote'] or any(kd == 'quote' for kd, _ in seq)
            out.append((ok, 'unwrapped path: quote escaping', 'a path returns the text without surrounding quotes although it may contain a `"`', where))
            continue
        w = wraps[0]
        facts = ', '.join(present_known) or 'no test of the text'
        for kind, why in (('quote', 'a `"` inside the text (and the backslashes before it) must be escaped, else it ends the quoted argument'),
                          ('terminal', 'a terminal run of backslashes must be doubled, else the last one escapes the closing quote and the following arguments are swallowed')):
            before = [k for k, (kd, _) in enumerate(seq) if kd == kind and k < w]
            after = [k for k, (kd, _) in enumerate(seq) if kd == kind and k > w]
            if after and not before:
                out.append((False, f'{kind} escaping after the wrapping', f'the {kind} escaping runs after the text was wrapped in quotes: it then sees the added quotes, not the argument', seq[after[0]][1]))
                continue
            ok = bool(before) or absent[kind]
            out.append((ok, f'{kind} escaping skipped on a quoting path ({facts})',
                        f'on the path [{path.describe()[:160]}] the text is wrapped in double quotes without the {kind} escaping, and the path conditions ({facts}) do not exclude its trigger: {why}', where))
    return out


_R3D_DEMO_BAD = """
def q(arg):
    if '"' in arg:
        arg = re.sub(r'(\\\\*)"', lambda m: m.group(0), arg)
        arg = re.sub(r'(\\\\*)$', lambda m: m.group(0), arg)
    return f'"{arg}"'
"""
_R3D_DEMO_GOOD = """
def q(arg):
    if '"' in arg:
        arg = re.sub(r'(\\\\*)"', lambda m: m.group(0), arg)
    if arg.endswith('\\\\'):
        arg = re.sub(r'(\\\\*)$', lambda m: m.group(0), arg)
    return '"' + arg + '"'
"""


def r3d(ctx: RuleCtx) -> None:
    lit = lambda e: ast.literal_eval(e)      # noqa: E731
    bad = _escape_paths(ast.parse(_R3D_DEMO_BAD).body[0], lit)
    good = _escape_paths(ast.parse(_R3D_DEMO_GOOD).body[0], lit)
    if [ok for ok, *_ in bad] != [True, True, True, False] or not all(ok for ok, *_ in good):
        raise Undecided('self-check failed: the escaping-path reader does not match its built-in examples')
    mod = ctx.repo.module(NINJA)
    roles = _roles(ctx, mod)
    names = {roles.win} if roles.win and mod.has_func(roles.win) else set()
    if not names:
        raise Undecided('cannot identify the quote function bound to the shell quoter on Windows hosts')
    n = 0
    for qn in sorted(names):
        fn = _nfunc(mod, qn)
        res = _escape_paths(fn, lambda e: fold_expr(ctx.repo, mod, e))
        for ok, key, msg, node in res:
            n += 1
            ctx.require(ok, f'{qn}: {key.replace("skipped on", "runs or is not needed on")}', mod, qn, key, f'{qn} (command lines on Windows hosts, MSVC-style response files): {msg}', node)
    ctx.floor('returning paths x escape kinds of the Windows quote function', n, 2)


# ---------------------------------------------------------------------------
# R4  no shell, argv as a list

SPAWN_SHELL = {'os.system', 'os.popen', 'subprocess.getoutput', 'subprocess.getstatusoutput', 'asyncio.create_subprocess_shell',
               'create_subprocess_shell', 'os.spawnl', 'os.spawnlp', 'os.execl', 'os.execlp'}
SPAWN_LIST = {'subprocess.Popen', 'subprocess.run', 'subprocess.call', 'subprocess.check_call', 'subprocess.check_output', 'Popen',
              'asyncio.create_subprocess_exec', 'create_subprocess_exec', 'Popen_safe', 'mesonlib.Popen_safe'}


def _shell_uses(tree: ast.AST) -> T.List[ast.Call]:
    out = []
    for c in ast.walk(tree):
        if not isinstance(c, ast.Call):
            continue
        cn = call_name(c) or ''
        sh = kwarg(c, 'shell')
        if cn in SPAWN_SHELL or (sh is not None and not (isinstance(sh, ast.Constant) and sh.value is False)):
            out.append(c)
    return out


def _joined(e: ast.AST, fl: OFlow) -> T.List[str]:
    """String-building operations on the flow into e (join/format/f-string/%): an argv must not go through them."""
    o = fl.origins(e)
    return sorted(x for x in o if x in ('call:str.join', 'call:str.format') or (x.endswith('.join') and x != 'call:os.path.join') or x.endswith('.format') or x in ('call:join_args', 'call:mesonlib.join_args', 'call:quote_arg', 'call:shlex.quote', 'call:shlex.join'))


def _uncopy(e: ast.AST) -> ast.AST:
    """list(x), x[:], x.copy(), [*x], tuple(x) denote the same sequence of elements as x."""
    while True:
        if isinstance(e, ast.Call) and call_name(e) in ('list', 'tuple') and len(e.args) == 1 and not e.keywords:
            e = e.args[0]
        elif isinstance(e, ast.Call) and isinstance(e.func, ast.Attribute) and e.func.attr == 'copy' and not e.args:
            e = e.func.value
        elif isinstance(e, ast.Subscript) and isinstance(e.slice, ast.Slice) and e.slice.lower is None and e.slice.upper is None and e.slice.step is None:
            e = e.value
        elif isinstance(e, ast.List) and len(e.elts) == 1 and isinstance(e.elts[0], ast.Starred):
            e = e.elts[0].value
        else:
            return e


def _appended(st: ast.AST, lst: str) -> T.Optional[T.List[ast.AST]]:
    """Items one statement adds at the end of list `lst`: lst.append(x) / lst.extend([x, y]) / lst += [x] (None: not such a statement;
    a Starred item stands for a whole sequence)."""
    if isinstance(st, ast.Expr) and isinstance(st.value, ast.Call) and isinstance(st.value.func, ast.Attribute) and norm(st.value.func.value) == lst and len(st.value.args) == 1:
        c = st.value
        if c.func.attr == 'append':
            return [c.args[0]]
        if c.func.attr == 'extend':
            a = c.args[0]
            return list(a.elts) if isinstance(a, (ast.List, ast.Tuple)) else [ast.Starred(value=a, ctx=ast.Load())]
    if isinstance(st, ast.AugAssign) and isinstance(st.op, ast.Add) and norm(st.target) == lst:
        a = st.value
        return list(a.elts) if isinstance(a, (ast.List, ast.Tuple)) else [ast.Starred(value=a, ctx=ast.Load())]
    return None


def _concat_chain(e: ast.AST, fl: OFlow, depth: int = 0) -> T.List[str]:
    """Flatten a `+` chain of list expressions, resolving single-definition locals."""
    if isinstance(e, ast.BinOp) and isinstance(e.op, ast.Add):
        return _concat_chain(e.left, fl, depth) + _concat_chain(e.right, fl, depth)
    e = _uncopy(e)
    if isinstance(e, ast.List) and any(isinstance(x, ast.Starred) for x in e.elts) and all(isinstance(x, ast.Starred) for x in e.elts):
        out: T.List[str] = []
        for x in e.elts:
            out += _concat_chain(x.value, fl, depth)      # [*a, *b] == a + b
        return out
    if isinstance(e, ast.BinOp) and isinstance(e.op, ast.Add):
        return _concat_chain(e.left, fl, depth) + _concat_chain(e.right, fl, depth)
    if isinstance(e, ast.Name) and e.id not in fl.params and len(fl.defs.get(e.id, [])) == 1 and depth < 4:
        return _concat_chain(fl.defs[e.id][0], fl, depth + 1)
    return [norm(e)]


def _self_check_shell() -> None:
    demo = ast.parse("import subprocess, asyncio\nsubprocess.Popen(' '.join(a), shell=True)\nasyncio.create_subprocess_shell(x)\n")
    if len(_shell_uses(demo)) != 2:
        raise Undecided('self-check failed: the shell-use detector does not match its built-in examples')


def r4a(ctx: RuleCtx) -> None:
    _self_check_shell()
    mod = ctx.repo.module(MESON_EXE)
    sh = _shell_uses(mod.tree)
    for c in sh:
        ctx.violation(mod, mod.enclosing_func(c) or '<module>', c, f'{short(c)} runs the command through a shell: the pickled argv would be re-split', c)
    if not sh:
        ctx.ok(f'{MESON_EXE}: no shell=..., os.system, create_subprocess_shell (detector self-checked on a built-in example)')
    qn = 'run_exe'
    fn = _nfunc(mod, qn)
    fl = OFlow(fn)
    p0 = fn.args.args[0].arg
    spawns = [c for c in ast.walk(fn) if isinstance(c, ast.Call) and (call_name(c) or '') in SPAWN_LIST]
    ctx.floor(f'{qn}: process creations', len(spawns), 1)
    for c in spawns:
        if not c.args or isinstance(c.args[0], ast.Starred):
            raise Undecided(f'{qn}: {short(c)} without a positional argv')
        o = fl.origins(c.args[0])
        j = _joined(c.args[0], fl)
        if f'attr:{p0}.cmd_args' not in o and not j:
            raise Undecided(f'{qn}: cannot see where the argv of {short(c, 40)} comes from ({sorted(o)[:6]})')
        ctx.require(not j, f'{qn}: {short(c, 40)} receives {p0}.cmd_args as a list (origins {sorted(x for x in o if x.startswith("attr:"))})',
                    mod, qn, f'{norm(c.func)}({norm(c.args[0])}) <- {j}',
                    f'the argv of {short(c, 40)} is built through {", ".join(j)}: arguments are not passed one-to-one', c)
        chain_opts = [_concat_chain(v, fl) for v in (fl.defs.get(c.args[0].id, []) if isinstance(c.args[0], ast.Name) and c.args[0].id not in fl.params else [c.args[0]])]
        for ch in chain_opts:
            tail = f'{p0}.cmd_args'
            if tail in ch and ch[-1] != tail:
                ctx.violation(mod, qn, f'argv = {" + ".join(ch)}', f'argv is {" + ".join(ch)}: something follows the serialised arguments (they must come last, after the exe wrapper command)', c)
            elif tail in ch and all(x.endswith('.get_command()') for x in ch[:-1]):
                ctx.ok(f'{qn}: argv = {" + ".join(ch)}')
            else:
                raise Undecided(f'{qn}: argv is built as {" + ".join(ch)}, outside the understood forms')
    # run(): --unpickle gives the object to run_exe unchanged; otherwise remaining argv
    rfn = _nfunc(mod, 'run')
    calls = [c for c in ast.walk(rfn) if isinstance(c, ast.Call) and call_name(c) == 'run_exe']
    rfl = OFlow(rfn)
    for c in calls:
        o = rfl.origins(c.args[0])
        if 'call:pickle.load' not in o and 'call:ExecutableSerialisation' not in o:
            raise Undecided(f'run: cannot see what run_exe({short(c.args[0])}) receives')
        ctx.require(not _joined(c.args[0], rfl), 'run: run_exe receives the unpickled / constructed serialisation', mod, 'run', c,
                    f'run_exe({short(c.args[0])}) receives a value built by string joining', c)
    ctx.floor('run: run_exe calls', len(calls), 1)
    _r4a_cmdline(ctx, mod, rfn, rfl)


def _r4a_cmdline(ctx: RuleCtx, mod: Module, rfn: ast.AST, rfl: OFlow) -> None:
    """run(): the command line wrapped in an ExecutableSerialisation is what parse_known_args left over, or a
    tail slice of it taken under a test of its first element; no element-wise rewrite of the list."""
    from .c03_flow import Proj
    qn = 'run'
    cons = [c for c in ast.walk(rfn) if isinstance(c, ast.Call) and call_name(c) == 'ExecutableSerialisation']
    ctx.floor(f'{qn}: ExecutableSerialisation constructions', len(cons), 1)
    cfg = CFG(rfn)
    for c in cons:
        a = c.args[0] if c.args else kwarg(c, 'cmd_args')
        if not isinstance(a, ast.Name):
            raise Undecided(f'{qn}: ExecutableSerialisation receives {short(a)} (not a local list)')
        v = a.id
        defs = rfl.defs.get(v, [])
        if not defs:
            raise Undecided(f'{qn}: {v} has no definition')
        for d in defs:
            if isinstance(d, Proj) and d.index == 1 and isinstance(d.value, ast.Call) and call_method(d.value) == 'parse_known_args':
                ctx.ok(f'{qn}: {v} is the remaining argv of parse_known_args')
                continue
            sl = d if isinstance(d, ast.Subscript) and isinstance(d.value, ast.Name) and d.value.id == v and isinstance(d.slice, ast.Slice) else None
            if sl is not None and isinstance(sl.slice.lower, ast.Constant) and sl.slice.lower.value == 1 and sl.slice.upper is None and sl.slice.step is None:
                sts = [st for st in ast.walk(rfn) if isinstance(st, ast.Assign) and st.value is d]
                nodes = [n for st in sts for n in cfg.stmt_nodes(st)]
                guarded = False
                for t in cfg.find(lambda n: n.kind == 'test'):
                    for cj in _conjuncts(t.expr()):
                        if isinstance(cj, ast.Compare) and len(cj.ops) == 1 and isinstance(cj.ops[0], ast.Eq):
                            sides = {norm(cj.left), norm(cj.comparators[0])}
                            if sides in ({f'{v}[0]', repr('--')}, {f'{v}[:1]', "['--']"}, {f'{v}[:1]', "('--',)"}, {f'{v}[0:1]', "['--']"}) \
                                    and nodes and all(_only_via_edge(cfg, n, t, True) for n in nodes):
                                guarded = True
                ctx.require(guarded, f"{qn}: {v} = {norm(d)} only when {v}[0] == '--'", mod, qn, f'{v} = {norm(d)}',
                            f"{v} = {norm(d)} is not guarded by a test {v}[0] == '--': the first word of the command would be dropped", d)
                continue
            dd = _uncopy(d) if not isinstance(d, Proj) else d
            if isinstance(dd, ast.Name) and dd.id == v:
                ctx.ok(f'{qn}: {v} = {norm(d)} copies the list')
                continue
            is_filter = isinstance(dd, (ast.ListComp, ast.GeneratorExp)) and (dd.generators[0].ifs or norm(dd.elt) != norm(dd.generators[0].target)) or \
                (isinstance(dd, ast.Call) and call_name(dd) in ('filter', 'map')) or \
                (isinstance(dd, ast.Subscript) and isinstance(dd.slice, ast.Slice) and isinstance(dd.value, ast.Name) and dd.value.id == v)
            if not is_filter:
                raise Undecided(f'{qn}: {v} = {short(d)} is outside the understood forms (leftover argv, guarded tail slice, copy)')
            ctx.violation(mod, qn, f'{v} = {norm(d)}',
                          f'the command line run by the wrapper is rebuilt as `{short(d)}`: only the single leading `--` left by argparse may be removed '
                          f"({v}[1:] under {v}[0] == '--'); any other rewrite drops or changes arguments (e.g. every `--` of `prog -x -- @INPUT@`)", d)
        for n in ast.walk(rfn):
            if isinstance(n, ast.Call) and isinstance(n.func, ast.Attribute) and isinstance(n.func.value, ast.Name) and n.func.value.id == v \
                    and n.func.attr in ('remove', 'pop', 'clear', 'sort', 'reverse', 'insert', 'append', 'extend'):
                ctx.violation(mod, qn, n, f'{short(n)} edits the command line run by the wrapper in place', n)
            if isinstance(n, ast.Delete) and any(isinstance(t, ast.Subscript) and norm(t.value) == v for t in n.targets):
                ctx.violation(mod, qn, n, f'{short(n)} deletes elements of the command line run by the wrapper', n)


def r4b(ctx: RuleCtx) -> None:
    _self_check_shell()
    mod = ctx.repo.module(MTEST)
    sh = _shell_uses(mod.tree)
    for c in sh:
        ctx.violation(mod, mod.enclosing_func(c) or '<module>', c, f'{short(c)} runs a command through a shell', c)
    if not sh:
        ctx.ok(f'{MTEST}: no shell=..., os.system, create_subprocess_shell')
    qn = 'SingleTestRunner._run_subprocess'
    fn = _nfunc(mod, qn)
    spawns = [c for c in ast.walk(fn) if isinstance(c, ast.Call) and (call_name(c) or '') in SPAWN_LIST]
    ctx.floor(f'{qn}: process creations', len(spawns), 1)
    p_args = [a.arg for a in fn.args.args if a.arg != 'self'][0]
    for c in spawns:
        sfl = OFlow(fn)
        spread = [_concat_chain(a.value, sfl) for a in c.args if isinstance(a, ast.Starred)]
        joined = [a for a in c.args if _joined(a.value if isinstance(a, ast.Starred) else a, sfl)]
        if joined or (len(c.args) == 1 and not isinstance(c.args[0], ast.Starred) and f'param:{p_args}' in sfl.origins(c.args[0])):
            ctx.violation(mod, qn, f'{norm(c.func)}({", ".join(norm(a) for a in c.args)})',
                          f'the child is created with ({", ".join(short(a, 30) for a in c.args)}), not with the argv list spread one argument per element', c)
        elif len(c.args) == 1 and spread == [[p_args]]:
            ctx.ok(f'{qn}: {short(c.func)}(*{p_args}) spreads the argv list')
        else:
            raise Undecided(f'{qn}: process created with ({", ".join(short(a, 30) for a in c.args)}), outside the understood forms')
    # _run_cmd -> _run_subprocess
    qn2 = 'SingleTestRunner._run_cmd'
    fn2 = _nfunc(mod, qn2)
    fl2 = OFlow(fn2)
    p_cmd = [a.arg for a in fn2.args.args if a.arg != 'self'][-1]
    calls = [c for c in ast.walk(fn2) if isinstance(c, ast.Call) and call_method(c) == '_run_subprocess']
    ctx.floor(f'{qn2}: _run_subprocess calls', len(calls), 1)
    for c in calls:
        ch = _concat_chain(c.args[0], fl2) if c.args else []
        if p_cmd in ch and ch[0] != p_cmd:
            ctx.violation(mod, qn2, f'argv = {" + ".join(ch)}', f'the argv handed to _run_subprocess is {" + ".join(ch)}: the test command must come first', c)
        elif ch and ch[0] == p_cmd and p_cmd not in fl2.defs:
            ctx.ok(f'{qn2}: argv = {" + ".join(ch)}')
        else:
            raise Undecided(f'{qn2}: argv handed to _run_subprocess is {" + ".join(ch)}, outside the understood forms')
    # run -> _run_cmd
    qn3 = 'SingleTestRunner.run'
    fn3 = _nfunc(mod, qn3)
    fl3 = OFlow(fn3)
    calls = [c for c in ast.walk(fn3) if isinstance(c, ast.Call) and call_method(c) == '_run_cmd']
    ctx.floor(f'{qn3}: _run_cmd calls', len(calls), 1)
    want = ['self.cmd', 'self.test.cmd_args', 'self.options.test_args']
    for c in calls:
        ch = _concat_chain(c.args[-1], fl3)
        if set(ch) == set(want) and len(ch) == len(want) or _joined(c.args[-1], fl3):
            ctx.require(ch == want and not _joined(c.args[-1], fl3), f'{qn3}: argv = {" + ".join(ch)}', mod, qn3, f'argv = {" + ".join(ch)}',
                        f'the test argv is {" + ".join(ch)}; it must be program + test() args + --test-args in this order, as lists', c)
        else:
            raise Undecided(f'{qn3}: test argv is {" + ".join(ch)}, outside the understood form {" + ".join(want)}')
    # _get_cmd: wrapper + test command
    qn4 = 'SingleTestRunner._get_cmd'
    fn4 = mod.func(qn4)       # not normalised: the test command is identified as the call of _get_test_cmd
    fl4 = OFlow(fn4)
    rets = [st.value for st in walk_no_nested(fn4) if isinstance(st, ast.Return) and st.value is not None and not (isinstance(st.value, ast.Constant) and st.value.value is None)]
    ctx.floor(f'{qn4}: returned commands', len(rets), 1)
    for v in rets:
        ch = _concat_chain(v, fl4)
        isw = [x.endswith('get_wrapper(self.options)') for x in ch]
        ist = [x == 'self._get_test_cmd()' for x in ch]
        if len(ch) == 2 and any(isw) and any(ist):
            ctx.require(isw[0] and ist[1], f'{qn4}: command = {" + ".join(ch)}', mod, qn4,
                        f'command = {" + ".join(ch)}', f'the test command is {" + ".join(ch)}; expected wrapper + test command')
        else:
            raise Undecided(f'{qn4}: test command is {" + ".join(ch)}, outside the understood form wrapper + test command')


def r4c(ctx: RuleCtx) -> None:
    mod = ctx.repo.module(BACKENDS)
    # the method of Backend that constructs TestSerialisation records (found by role)
    builders = [q for q, f in mod.methods('Backend').items() if any(isinstance(c, ast.Call) and call_name(c) == 'TestSerialisation' for c in ast.walk(f))]      # also in a local function of the method
    if len(builders) != 1:
        raise Undecided(f'Backend: TestSerialisation is constructed in {builders}')
    qn = f'Backend.{builders[0]}'
    fn = _nfunc(mod, qn)
    fl = OFlow(fn)
    cls = mod.cls('TestSerialisation')
    fields = [st.target.id for st in cls.body if isinstance(st, ast.AnnAssign) and isinstance(st.target, ast.Name)]
    cons = [c for c in ast.walk(fn) if isinstance(c, ast.Call) and call_name(c) == 'TestSerialisation']
    ctx.floor(f'{qn}: TestSerialisation constructions', len(cons), 1)
    fn0, fl0 = fn, fl
    for c in cons:
        fn, fl = fn0, fl0
        if any(isinstance(a, ast.Starred) for a in c.args):
            raise Undecided(f'{qn}: starred arguments in TestSerialisation(...)')
        bound = {f: a for f, a in zip(fields, c.args)}
        bound.update({k.arg: k.value for k in c.keywords if k.arg})
        av = bound.get('cmd_args')
        if not isinstance(av, ast.Name):
            raise Undecided(f'{qn}: cmd_args field receives {short(av)}')
        lst = av.id
        # the scope that builds the record: the method, or the innermost local function of it that contains the construction (per-test body as a closure)
        scopes = [d for d in ast.walk(fn) if isinstance(d, (ast.FunctionDef, ast.AsyncFunctionDef)) and d is not fn and any(x is c for x in ast.walk(d))]
        if scopes:
            fn = min(scopes, key=lambda d: sum(1 for _ in ast.walk(d)))
            fl = OFlow(fn)
        ctx.require(norm(bound.get('fname')) != lst, f'{qn}: fields fname={short(bound.get("fname"))}, cmd_args={lst}', mod, qn,
                    f'TestSerialisation(fname={norm(bound.get("fname"))}, cmd_args={lst})', 'fname and cmd_args receive the same list', c)
        # the loop(s) that fill the list
        loops = [l for l in ast.walk(fn) if isinstance(l, ast.For) and isinstance(l.target, ast.Name)
                 and any(_appended(x, lst) is not None for x in ast.walk(l))]
        inner = [l for l in loops if not any(l2 is not l and any(n is l2 for n in ast.walk(l)) for l2 in loops)]
        if len(inner) != 1:
            raise Undecided(f'{qn}: {len(inner)} loops fill {lst}')
        loop = inner[0]
        it = loop.target.id
        src = _uncopy(loop.iter)
        if isinstance(src, ast.Name) and src.id not in fl.params and len(fl.defs.get(src.id, [])) == 1:
            src = _uncopy(fl.defs[src.id][0])
        if isinstance(src, (ast.ListComp, ast.GeneratorExp)) and len(src.generators) == 1 and not src.generators[0].ifs and isinstance(src.generators[0].target, ast.Name):
            # an order-preserving element-wise view of the arguments; a string element must map to itself
            v_ = src.generators[0].target.id
            e_ = src.elt
            keeps_str = norm(e_) == v_ or (isinstance(e_, ast.IfExp) and norm(e_.test).startswith(f'isinstance({v_}, ') and 'str' not in norm(e_.test)
                                           and norm(e_.orelse) == v_) or (isinstance(e_, ast.IfExp) and norm(e_.test).startswith(f'not isinstance({v_}, ')
                                                                          and 'str' not in norm(e_.test) and norm(e_.body) == v_)
            if not keeps_str:
                raise Undecided(f'{qn}: {lst} is filled from the element-wise view {short(src)}, whose effect on string arguments is not understood')
            src = _uncopy(src.generators[0].iter)
        if (attr_chain(src) or '').endswith('.cmd_args'):
            ctx.ok(f'{qn}: {lst} is filled by iterating {norm(loop.iter)} in order')
        elif isinstance(src, ast.Call) and call_name(src) in ('sorted', 'reversed', 'set', 'frozenset') and src.args and (attr_chain(_uncopy(src.args[0])) or '').endswith('.cmd_args'):
            ctx.violation(mod, qn, f'for {it} in {norm(loop.iter)}', f'{lst} is filled from {norm(loop.iter)}: the test arguments are not kept in their given order', loop)
        else:
            raise Undecided(f'{qn}: {lst} is filled by iterating {short(loop.iter)}, not recognisably the test arguments')
        # same count: the loop visits every element - nothing may end it early (a `break` of this loop, a `return` inside it); `raise` refuses the whole test
        early = _own_jumps(loop.body, (ast.Break,)) + [x for x in walk_no_nested(loop) if isinstance(x, ast.Return)]
        ctx.require(not early, f'{qn}: the loop that fills {lst} has no early exit (every test argument is visited)', mod, qn,
                    f'for {it} in {norm(loop.iter)}: {sorted({type(x).__name__.lower() for x in early})}',
                    f'the loop that fills {lst} from {norm(loop.iter)} can end early ({", ".join(sorted({short(x) for x in early}))}): every test argument after the element '
                    'at which it stops is never added - the test process receives fewer arguments than test() was given', early[0] if early else loop)
        nrow = 0
        for p in enumerate_paths(loop.body):
            idx = None
            for k, ev in enumerate(p.events):
                if ev.kind == 'cond' and ev.val and norm(ev.node) == f'isinstance({it}, str)':
                    idx = k
            if idx is None or p.outcome == 'raise':
                continue
            after = p.events[idx + 1:]
            rew = [norm(ev.node) for ev in after if ev.kind == 'stmt' and isinstance(ev.node, (ast.Assign, ast.AugAssign))
                   and any(isinstance(n, ast.Name) and n.id == it and isinstance(n.ctx, ast.Store) for n in ast.walk(ev.node))]
            items: T.List[ast.AST] = []
            where = None
            alias: T.Dict[str, str] = {}          # plain copies of the element on this path (`s = a`, a capture of a match arm): reaching definition per name
            for ev in after:
                if ev.kind == 'stmt' and isinstance(ev.node, ast.Assign) and len(ev.node.targets) == 1 and isinstance(ev.node.targets[0], ast.Name) and ev.node.targets[0].id != it:
                    v_ = ev.node.value
                    if isinstance(v_, ast.Name) and (v_.id == it or alias.get(v_.id) == it):
                        alias[ev.node.targets[0].id] = it
                    else:
                        alias.pop(ev.node.targets[0].id, None)
                got_ = _appended(ev.node, lst) if ev.kind == 'stmt' else None
                if got_ is not None:
                    got_ = [ast.copy_location(ast.Name(id=it, ctx=ast.Load()), x_) if isinstance(x_, ast.Name) and alias.get(x_.id) == it else x_ for x_ in got_]
                if got_ is not None:
                    res_: T.List[ast.AST] = []
                    for x_ in got_:
                        # a whole local list added at once: its reaching definition on this path, when that is a display
                        if isinstance(x_, ast.Starred) and isinstance(x_.value, ast.Name):
                            prev = [e2.node.value for e2 in p.events[:p.events.index(ev)] if e2.kind == 'stmt' and isinstance(e2.node, ast.Assign)
                                    and len(e2.node.targets) == 1 and norm(e2.node.targets[0]) == x_.value.id]
                            if prev and isinstance(prev[-1], (ast.List, ast.Tuple)) and not any(isinstance(y, ast.Starred) for y in prev[-1].elts):
                                res_ += list(prev[-1].elts)
                                continue
                        res_.append(x_)
                    items += res_
                    where = ev.node
            nrow += 1
            ok = not rew and len(items) == 1 and norm(items[0]) == it
            ctx.require(ok, f'{qn}: a string test argument is appended unchanged ({[norm(a) for a in items]})', mod, qn,
                        f'str argument: {rew + [norm(a) for a in items]}',
                        f'for a string argument of test() the serialiser does {rew} and adds {[norm(a) for a in items]} to {lst} instead of exactly the argument itself, once',
                        where if where is not None else loop)
        ctx.floor(f'{qn}: paths for string arguments', nrow, 1)



# ---------------------------------------------------------------------------
# R5  rewrite whitelist

STR_TRANSFORMS = {'replace', 'strip', 'lstrip', 'rstrip', 'lower', 'upper', 'format', 'format_map', 'split', 'rsplit', 'join', 'encode', 'decode', 'translate',
                  'expandtabs', 'title', 'capitalize', 'casefold', 'swapcase', 'removeprefix', 'removesuffix', 'zfill', 'center', 'ljust', 'rjust', 'partition',
                  'rpartition', 'splitlines'}
TEMPLATE_RE = r'@[A-Z_]+@'


def _is_template_replace(v: ast.AST, var: str) -> T.Optional[str]:
    """`var.replace('@NAME@', x)[.replace('@OTHER@', y)...]`, possibly as an arm of a conditional expression whose other arm is
    `var` -> the template names (comma separated); None for anything else."""
    if isinstance(v, ast.IfExp):
        a = norm(v.body) == var or _is_template_replace(v.body, var)
        b = norm(v.orelse) == var or _is_template_replace(v.orelse, var)
        if a and b:
            return ','.join(x for x in (a, b) if isinstance(x, str)) or None
        return None
    names = []
    while isinstance(v, ast.Call) and isinstance(v.func, ast.Attribute) and v.func.attr == 'replace' \
            and len(v.args) == 2 and not v.keywords and isinstance(v.args[0], ast.Constant) and isinstance(v.args[0].value, str) and re.fullmatch(TEMPLATE_RE, v.args[0].value):
        names.append(v.args[0].value)
        v = v.func.value
    if names and isinstance(v, ast.Name) and v.id == var:
        return ','.join(reversed(names))
    return None


KNOWN_PATH_REWRITES = {'os.path.expanduser', 'os.path.expandvars', 'os.path.normpath', 'os.path.abspath', 'os.path.realpath', 'os.path.normcase',
                       'shlex.quote', 'quote_arg', 'mesonlib.quote_arg', 'str.strip', 'str.lower', 'str.upper'}


def _understood_rewrite(v: ast.AST, var: str) -> bool:
    """Is `var = v` recognisably a rewrite of the string (so that reporting it is positive evidence)?  Anything else - a call of a
    repository function, a replace with a computed pattern, a lookup - is not understood and makes the verdict undecided."""
    if isinstance(v, ast.Call) and isinstance(v.func, ast.Attribute) and v.func.attr in STR_TRANSFORMS and var in {x.id for x in ast.walk(v.func.value) if isinstance(x, ast.Name)}:
        if v.func.attr == 'replace':
            return bool(v.args) and isinstance(v.args[0], ast.Constant)       # constant pattern that is not an @TEMPLATE@
        return True
    if isinstance(v, ast.Call) and call_name(v) in KNOWN_PATH_REWRITES:
        return True
    if isinstance(v, (ast.JoinedStr, ast.BinOp)) and var in {x.id for x in ast.walk(v) if isinstance(x, ast.Name)}:
        return True
    if isinstance(v, ast.Subscript) and norm(v.value) == var:
        return True
    return False


def _eff_items(e: str, lst: str) -> T.Optional[T.List[str]]:
    """Items an effect text adds to list `lst` (append / extend / +=), None when the effect is something else."""
    try:
        st = ast.parse(e[5:] if e.startswith('call ') else e).body[0]
    except SyntaxError:
        return None
    items = _appended(st, lst)
    if items is None:
        return None
    return [('*' + norm(x.value)) if isinstance(x, ast.Starred) else norm(x) for x in items]


def _is_backslash_norm(v: ast.AST) -> T.Optional[str]:
    """[x.replace('\\', '/') if isinstance(x, str) else x for x in LIST] -> LIST name."""
    if not (isinstance(v, ast.ListComp) and len(v.generators) == 1 and isinstance(v.generators[0].target, ast.Name) and not v.generators[0].ifs
            and isinstance(v.generators[0].iter, ast.Name)):
        return None
    x = v.generators[0].target.id
    e = v.elt
    if isinstance(e, ast.IfExp):
        if not (norm(e.test) == f'isinstance({x}, str)' and norm(e.orelse) == x):
            return None
        e = e.body
    if norm(e) == f"{x}.replace('\\\\', '/')":
        return v.generators[0].iter.id
    return None


def r5a(ctx: RuleCtx) -> None:
    mod = ctx.repo.module(BACKENDS)
    qn = 'Backend.eval_custom_target_command'
    fn = _nfunc(mod, qn)
    rets = [st for st in walk_no_nested(fn) if isinstance(st, ast.Return)]
    if len(rets) != 1 or not isinstance(rets[0].value, ast.Tuple) or len(rets[0].value.elts) != 3 or not isinstance(rets[0].value.elts[2], ast.Name):
        raise Undecided(f'{qn}: expected a single `return inputs, outputs, <command list>`')
    cmdv = rets[0].value.elts[2].id
    loops = [(k, st) for k, st in enumerate(fn.body) if isinstance(st, ast.For) and isinstance(st.target, ast.Name) and (attr_chain(st.iter) or '').endswith('.command')]
    if len(loops) != 1:
        raise Undecided(f'{qn}: expected one top-level loop over <target>.command')
    k, loop = loops[0]
    it = loop.target.id
    tab = tables.extract(fn, body=loop.body, effects=_assign_eff, inline=False, name=qn + ':loop')
    n = 0
    seen_templates: T.Set[str] = set()
    for r in tab.rows:
        is_str = [v for a, v in r.conds.items() if a.kind == 'isinstance' and a.args == (it, ('str',))]
        if not is_str or not is_str[0] or r.outcome[0] == 'raise':
            continue
        n += 1
        bad = []
        appended = []
        for e in r.effects:
            items = _eff_items(e, cmdv)
            if e.startswith(f'{it} := '):
                rhs = _expr(e.split(':=', 1)[1].strip())
                t = _is_template_replace(rhs, it)
                if t is None:
                    if not _understood_rewrite(rhs, it):
                        raise Undecided(f'{qn}: a string element is rebound by `{short(e, 80)}`, a form the rule does not understand')
                    bad.append(e)
                else:
                    seen_templates |= set(t.split(','))
            elif e.startswith(f'{it} += '):
                bad.append(e)
            elif items is not None:
                if items == [it]:
                    appended.append(e)
                else:
                    bad.append(e)
            elif e.startswith(f'{cmdv} := ') or re.match(rf'call {cmdv}\.(insert|remove|pop|clear|sort|reverse)\(', e):
                bad.append(e)
        key = '; '.join(bad) if bad else f'appends {len(appended)}x'
        ctx.require(not bad and len(appended) == 1, f'{qn}: string element: only @TEMPLATE@ replacements, then {cmdv}.append({it}) [{short(repr(r), 80)}]', mod, qn,
                    f'str element: {key}',
                    f'a string element of the command is rewritten by `{key}`; only .replace of an @TEMPLATE@ literal is an established rewrite and the element must be appended once',
                    r.path.events[-1].node if r.path.events else loop)
    ctx.floor(f'{qn}: paths for string elements', n, 1)
    # every in-place template is substituted on every path where the element may contain it
    for r in tab.rows:
        is_str = [v for a, v in r.conds.items() if a.kind == 'isinstance' and a.args == (it, ('str',))]
        if not is_str or not is_str[0] or r.outcome[0] in ('raise',):
            continue
        done = set()
        for e in r.effects:
            if e.startswith(f'{it} := '):
                t = _is_template_replace(_expr(e.split(':=', 1)[1].strip()), it)
                done |= set(t.split(',')) if t else set()
        absent = set()
        for a, v in r.conds.items():
            if a.kind == 'in' and a.args[1] == it and not v:
                try:
                    c0 = ast.literal_eval(a.args[0])
                except Exception:
                    continue
                if isinstance(c0, str):
                    absent |= {t for t in seen_templates if c0 in t}     # a substring of the template is absent -> so is the template
        missing = sorted(seen_templates - done - absent)
        ctx.require(not missing, f'{qn}: templates {sorted(seen_templates)} each substituted or absent on [{short(repr(r), 60)}]', mod, qn,
                    f'template {missing} not substituted when {"; ".join(("" if v else "not ") + repr(a) for a, v in r.conds.items() if a.kind == "in")}',
                    f'on the path [{short(repr(r), 200)}] a string element may contain {missing} (its presence is not excluded) but the path does not substitute it: '
                    'the literal placeholder reaches the command', r.path.events[-1].node if r.path.events else loop)
    ctx.note(f'{qn}: templates substituted in place: {sorted(seen_templates)}')
    # after the loop
    kinds = []
    for st in fn.body[k + 1:]:
        stores = [x for x in ast.walk(st) if isinstance(x, ast.Name) and x.id == cmdv and isinstance(x.ctx, ast.Store)]
        muts = [c for c in ast.walk(st) if isinstance(c, ast.Call) and isinstance(c.func, ast.Attribute) and norm(c.func.value) == cmdv and c.func.attr in ('append', 'extend', 'insert', 'sort', 'reverse', 'pop', 'remove', 'clear')]
        if muts:
            ctx.violation(mod, qn, muts[0], f'{short(muts[0])} changes the evaluated command list after the element loop', muts[0])
        if not stores:
            continue
        if not (isinstance(st, ast.Assign) and len(st.targets) == 1 and isinstance(st.targets[0], ast.Name)):
            raise Undecided(f'{qn}: {short(st)} rebinds the command list in an unknown form')
        v = st.value
        if isinstance(v, ast.Call) and (call_name(v) or '').endswith('substitute_values') and v.args and norm(v.args[0]) == cmdv:
            kinds.append('substitute_values')
            ctx.ok(f'{qn}: {short(st)} (template substitution)')
        elif _is_backslash_norm(v) == cmdv:
            kinds.append('backslash')
            ctx.ok(f'{qn}: {short(st, 80)} (backslash -> slash on strings)')
        else:
            calls = [c for c in ast.walk(v) if isinstance(c, ast.Call) and isinstance(c.func, ast.Attribute) and c.func.attr in STR_TRANSFORMS]
            if calls or isinstance(v, (ast.ListComp, ast.BinOp, ast.JoinedStr)):
                ctx.violation(mod, qn, st, f'{short(st)} rewrites the evaluated command; established rewrites are substitute_values and backslash -> slash only', st)
            else:
                raise Undecided(f'{qn}: {short(st)} rebinds the command list in an unknown form')
    recognised = sum(1 for st in fn.body[k + 1:] if any(isinstance(x, ast.Name) and x.id == cmdv and isinstance(x.ctx, ast.Store) for x in ast.walk(st)))
    other_uses = [st for st in fn.body[k + 1:] if not isinstance(st, ast.Return) and any(isinstance(x, ast.Name) and x.id == cmdv for x in ast.walk(st))]
    if kinds != ['substitute_values', 'backslash'] and len(other_uses) > recognised:
        raise Undecided(f'{qn}: the command list is also used by {[short(x, 50) for x in other_uses][:3]} after the loop; cannot establish the post-processing sequence')
    ctx.require(kinds == ['substitute_values', 'backslash'], f'{qn}: after the loop: {kinds}', mod, qn, f'post-loop rewrites {kinds}',
                f'the command list is post-processed by {kinds}; the established sequence is template substitution then backslash normalisation')


def r5b(ctx: RuleCtx) -> None:
    mod = ctx.repo.module(BACKENDS)
    qn = 'Backend.escape_extra_args'
    fn = _nfunc(mod, qn)
    fn = comprehension_as_loop(fn) or fn      # `return [ELT for arg in args]` is read as the loop it abbreviates
    loops = [st for st in fn.body if isinstance(st, ast.For) and isinstance(st.target, ast.Name)]
    rets = [st for st in fn.body if isinstance(st, ast.Return)]
    if len(loops) != 1 or len(rets) != 1 or not isinstance(rets[0].value, ast.Name):
        raise Undecided(f'{qn}: expected one loop and `return <list>`')
    out, it, src = rets[0].value.id, loops[0].target.id, fn.args.args[-1].arg
    ctx.require(norm(loops[0].iter) == src, f'{qn}: iterates its argument in order', mod, qn, f'for {it} in {norm(loops[0].iter)}', f'the loop iterates {norm(loops[0].iter)}, not the argument list')
    tab = tables.extract(fn, body=loops[0].body, effects=_assign_eff, inline=False, name=qn)
    guards: T.Dict[Atom, T.Set[str]] = {}
    for a in tab.atoms():
        if a.kind == 'truth':
            e = _expr(a.args[0])
            if isinstance(e, ast.Call) and isinstance(e.func, ast.Attribute) and e.func.attr == 'startswith' and norm(e.func.value) == it and len(e.args) == 1:
                try:
                    pre = ast.literal_eval(e.args[0])
                except Exception:
                    raise Undecided(f'{qn}: non-constant prefix {short(e.args[0])}')
                guards[a] = {pre} if isinstance(pre, str) else set(pre)
                continue
        raise Undecided(f'{qn}: condition {a!r} outside the vocabulary')
    allp: T.Set[str] = set()
    for ps_ in guards.values():
        allp |= ps_
    ctx.require(allp == {'-D', '/D'}, f'{qn}: prefixes tested {sorted(allp)}', mod, qn, f'prefix guard {sorted(allp)}',
                f'backslashes are doubled for arguments starting with {sorted(allp)}; the established rewrite applies to -D and /D only')
    gl = list(guards)
    for bits in itertools.product((True, False), repeat=len(gl)):
        world = dict(zip(gl, bits))
        g = any(bits)
        rows = tab.fire(world)
        if not rows and sum(bits) > 1:
            continue      # two different prefixes at once: no such argument
        if len(rows) != 1:
            raise Undecided(f'{qn}: {len(rows)} rows for prefix tests {bits}')
        dbl = f"{it}.replace('\\\\', '\\\\\\\\')"
        want = dbl if g else it
        effs = list(rows[0].effects)
        # appended expression over the loop element: `x = R; out.append(x)` and `out.append(R)` are the same shape
        got = '; '.join(effs)
        if len(effs) == 1 and effs[0].startswith(f'call {out}.append(') and effs[0].endswith(')'):
            got = effs[0][len(f'call {out}.append('):-1]
        elif len(effs) == 2 and effs[0].startswith(f'{it} := ') and effs[1] == f'call {out}.append({it})':
            got = effs[0][len(f'{it} := '):]
        ctx.require(got == want, f'{qn}: prefix test {"true" if g else "false"}: appends {got}', mod, qn, f'define={g}: {got}',
                    f'for an argument that {"starts" if g else "does not start"} with one of {sorted(allp)} the function appends `{got}`; the established behaviour is `{want}`',
                    rows[0].path.events[-1].node)
    # call sites: only the per-target extra args
    n = 0
    for rel in (NINJA, BACKENDS):
        m2 = ctx.repo.module(rel)
        for q, f in m2.funcs().items():
            for c in walk_no_nested(f):
                if isinstance(c, ast.Call) and call_method(c) == 'escape_extra_args':
                    n += 1
                    a = c.args[0] if len(c.args) == 1 else kwarg(c, 'args')
                    if a is None:
                        raise Undecided(f'{rel}:{q}: call form {short(c)}')
                    ffl = OFlow(f)
                    root = _uncopy(a)
                    if isinstance(root, ast.Name) and root.id not in ffl.params and len(ffl.defs.get(root.id, [])) == 1:
                        root = _uncopy(ffl.defs[root.id][0])        # extra = target.get_extra_args(lang); escape_extra_args(extra)
                    if isinstance(root, ast.Call) and isinstance(root.func, ast.Attribute) and root.func.attr == 'get_extra_args':
                        ctx.ok(f'{rel}:{q}: escape_extra_args({short(a)}) is applied to per-target extra args')
                        continue
                    others = sorted(o for o in ffl.origins(root) if o.startswith('call:') and not o.endswith('.get_extra_args') and o not in ('call:list', 'call:tuple'))
                    if isinstance(root, ast.Name) and root.id in ffl.params or not others:
                        raise Undecided(f'{rel}:{q}: cannot see what escape_extra_args({short(a)}) is applied to')
                    ctx.violation(m2, q, c, f'escape_extra_args is applied to {short(a)}, which also holds the results of {others[:4]}: only the per-target <lang>_args '
                                  '(target.get_extra_args) are escaped; any other argument would have its backslashes doubled', c)
    ctx.floor('escape_extra_args call sites', n, 1)



# ---------------------------------------------------------------------------
# R6  serialise when ninja cannot carry the command

def _truthy_given_nonempty(e: ast.AST, lst: str) -> T.Optional[bool]:
    """Value of e when the list `lst` is known to be non-empty (None = unknown)."""
    if isinstance(e, ast.BoolOp) and isinstance(e.op, ast.Or):
        vals = [_truthy_given_nonempty(v, lst) for v in e.values]
        return True if any(v is True for v in vals) else (False if all(v is False for v in vals) else None)
    if isinstance(e, ast.Name) and e.id == lst:
        return True
    if isinstance(e, ast.Call) and call_name(e) == 'bool' and len(e.args) == 1:
        return _truthy_given_nonempty(e.args[0], lst)
    if isinstance(e, ast.Compare) and len(e.ops) == 1 and norm(e.left) == f'len({lst})' and isinstance(e.comparators[0], ast.Constant):
        c = e.comparators[0].value
        if isinstance(e.ops[0], ast.Gt) and c == 0 or isinstance(e.ops[0], ast.GtE) and c == 1 or isinstance(e.ops[0], ast.NotEq) and c == 0:
            return True
    return None


class _R6:
    """Shared analysis of Backend.as_meson_exe_cmdline."""

    def __init__(self, ctx: RuleCtx):
        self.mod = mod = ctx.repo.module(BACKENDS)
        self.qn = 'Backend.as_meson_exe_cmdline'
        self.fn = fn = _nfunc(mod, self.qn)
        self.fl = fl = OFlow(fn)
        self.cfg = cfg = CFG(fn)
        es_names = [n for n, vs in fl.defs.items() if len(vs) == 1 and isinstance(vs[0], ast.Call) and call_method(vs[0]) == 'get_executable_serialisation']
        if len(es_names) != 1:
            raise Undecided(f'{self.qn}: serialisation object(s) {es_names}')
        self.es = es_names[0]
        # newline tests: (node, origins of the tested strings)
        self.nl_tests: T.List[T.Tuple[Node, T.Set[str]]] = []
        for n in cfg.find(lambda n: n.kind == 'test'):
            e = n.expr()
            if isinstance(e, ast.Name) and e.id not in fl.params and len(fl.defs.get(e.id, [])) == 1:
                e = fl.defs[e.id][0]      # has_newline = any(...); if has_newline:
            hit = [c for c in ast.walk(e) if isinstance(c, ast.Compare) and len(c.ops) == 1 and isinstance(c.ops[0], ast.In)
                   and isinstance(c.left, ast.Constant) and c.left.value == '\n']
            if hit:
                subj = set(fl.origins(e))
                for g in ast.walk(e):
                    if isinstance(g, ast.comprehension):
                        subj |= fl.origins(g.iter)
                self.nl_tests.append((n, subj))
        self.tests = cfg.find(lambda n: n.kind == 'test')
        self.reasons: T.Optional[str] = None
        self.f: T.Optional[Node] = None
        self.force = ''

    @staticmethod
    def appended_list(n: Node) -> T.Optional[str]:
        e = n.expr()
        if n.kind == 'stmt' and isinstance(e, ast.Expr) and isinstance(e.value, ast.Call) and isinstance(e.value.func, ast.Attribute) \
                and e.value.func.attr in ('append', 'extend') and isinstance(e.value.func.value, ast.Name):
            return e.value.func.value.id
        if n.kind == 'stmt' and isinstance(e, ast.AugAssign) and isinstance(e.op, ast.Add) and isinstance(e.target, ast.Name):
            return e.target.id
        if n.kind == 'stmt' and isinstance(e, ast.Assign) and len(e.targets) == 1 and isinstance(e.targets[0], ast.Name) and isinstance(e.value, ast.BinOp) \
                and isinstance(e.value.op, ast.Add) and norm(e.value.left) == e.targets[0].id:
            return e.targets[0].id          # reasons = reasons + [...]
        return None

    def recorders(self, nl: Node) -> T.Tuple[T.Optional[str], T.List[Node], T.Set[str], T.List[Node]]:
        """(reasons list, recording nodes A on the True branch, messages, first True successors)."""
        cfg = self.cfg
        t_succ = [cfg.nodes[b] for b, lab in cfg.succ[nl.id] if lab is True]
        lists = {self.appended_list(n) for n in t_succ} - {None}
        if len(lists) != 1:
            return None, [], set(), t_succ
        reasons = next(iter(lists))
        A = [n for n in cfg.nodes if self.appended_list(n) == reasons and _only_via_edge(cfg, n, nl, True)]
        msgs = {c.value for n in A for c in ast.walk(n.expr()) if isinstance(c, ast.Constant) and isinstance(c.value, str)}
        for n in A:
            for c in ast.walk(n.expr()):
                if isinstance(c, (ast.Name, ast.Attribute)) and not (isinstance(c, ast.Name) and c.id == reasons):
                    v = self.const_str(c)
                    if v is not None:
                        msgs.add(v)
        return reasons, A, msgs, t_succ

    def const_str(self, e: ast.AST) -> T.Optional[str]:
        """A module/class constant string named by e (None when e is not such a constant)."""
        if isinstance(e, ast.Constant):
            return e.value if isinstance(e.value, str) else None
        if isinstance(e, ast.Name) and (e.id in self.fl.defs or e.id in self.fl.params):
            return None
        try:
            v = fold_expr(self.mod.repo, self.mod, e, cls='Backend')
        except Exception:
            return None
        return v if isinstance(v, str) else None

    def find_force(self, reasons: str) -> T.List[Node]:
        out = [n for n in self.cfg.nodes if n.kind == 'stmt' and isinstance(n.ast, ast.Assign) and any(isinstance(x, ast.Name) and x.id == reasons for x in ast.walk(n.ast.value))
               and len(n.ast.targets) == 1 and isinstance(n.ast.targets[0], ast.Name) and _truthy_given_nonempty(n.ast.value, reasons) is True]
        # `if reasons: flag = True`
        for t in self.tests:
            if _truthy_given_nonempty(t.expr(), reasons) is True:
                for b, lab in self.cfg.succ[t.id]:
                    n = self.cfg.nodes[b]
                    if lab is True and n.kind == 'stmt' and isinstance(n.ast, ast.Assign) and len(n.ast.targets) == 1 and isinstance(n.ast.targets[0], ast.Name) \
                            and isinstance(n.ast.value, ast.Constant) and n.ast.value.value is True:
                        out.append(n)
        return out

    def feeds(self, nl: Node, f: Node, A: T.List[Node], t_succ: T.List[Node]) -> bool:
        cfg = self.cfg
        return cfg.must_pass(cfg.entry, f, [nl]) and not any(cfg.can_reach(s, f, A) for s in t_succ if s not in A)

    def returns(self) -> T.Tuple[T.List[Node], T.List[Node]]:
        direct, pickled = [], []
        for n in self.cfg.nodes:
            if n.kind == 'stmt' and isinstance(n.ast, ast.Return) and n.ast.value is not None:
                o = self.fl.origins(n.ast.value)
                if any(isinstance(c, ast.Constant) and c.value == '--unpickle' for c in ast.walk(n.ast.value)):
                    pickled.append(n)       # names the pickle file (whose name digests the arguments)
                elif f'attr:{self.es}.cmd_args' in o:
                    direct.append(n)
        return direct, pickled

    def flag_set_before(self, t: Node, f: Node, A: T.List[Node], reasons: str) -> bool:
        """Every path from the recording nodes A to t sets the flag at f; the False edge of a test that is true whenever
        `reasons` is non-empty is not a path (after A the list is non-empty)."""
        cfg = self.cfg

        def edge_ok(a: Node, b: Node, lab: T.Any) -> bool:
            return not (a.kind == 'test' and lab is False and _truthy_given_nonempty(a.expr(), reasons) is True)
        return bool(A) and t.id not in cfg.reachable(A, [f], edge_ok=edge_ok)

    def related_guards(self, r: Node, names: T.Set[str], reasons: str) -> T.List[str]:
        """Guards of r that mention the flag / the reasons list in a form the rule does not understand.  A conjunct that can
        only become *more* true when a reason is added (`K in reasons`, `reasons`, `len(reasons) > c`) is understood: it does
        not exclude the newline path.  The False edge of a test matters only if every conjunct of the test is about these names."""
        def mentions(e: ast.AST) -> bool:
            return bool(names & {x.id for x in ast.walk(e) if isinstance(x, ast.Name)})

        def monotone(cj: ast.AST) -> bool:
            if isinstance(cj, ast.Compare) and len(cj.ops) == 1 and isinstance(cj.ops[0], ast.In) and norm(cj.comparators[0]) == reasons:
                return True
            if norm(cj) in (reasons, f'bool({reasons})'):
                return True
            return isinstance(cj, ast.Compare) and len(cj.ops) == 1 and isinstance(cj.ops[0], (ast.Gt, ast.GtE, ast.NotEq)) and norm(cj.left) == f'len({reasons})'
        out = []
        for t in self.tests:
            cjs = _conjuncts(t.expr())
            if _only_via_edge(self.cfg, r, t, True) and any(mentions(c) and not monotone(c) for c in cjs):
                out.append(short(t.expr(), 60))
            elif _only_via_edge(self.cfg, r, t, False) and all(mentions(c) for c in cjs) and not all(monotone(c) for c in cjs) and norm(t.expr()) not in names:
                out.append('not (' + short(t.expr(), 60) + ')')
        return out

    def excluded(self, r: Node, nl: Node, f: Node, force: str, reasons: str, msgs: T.Set[str], A: T.Optional[T.List[Node]] = None) -> T.Optional[str]:
        """Why the return r cannot be taken once the newline test nl was true (None = it can)."""
        cfg = self.cfg
        for t in self.tests:
            if _only_via_edge(cfg, r, t, False) and norm(t.expr()) == force and \
                    (cfg.must_pass(cfg.entry, t, [f]) or (A is not None and self.flag_set_before(t, f, A, reasons))):
                return f'on the False branch of `if {force}`'
            if not _only_via_edge(cfg, r, t, True):
                continue
            for cj in _conjuncts(t.expr()):
                if isinstance(cj, ast.UnaryOp) and isinstance(cj.op, ast.Not) and norm(cj.operand) == force and \
                        (cfg.must_pass(cfg.entry, t, [f]) or (A is not None and self.flag_set_before(t, f, A, reasons))):
                    return f'guarded by `not {force}`'
                if isinstance(cj, ast.Compare) and len(cj.ops) == 1 and isinstance(cj.ops[0], ast.Eq) and reasons in (norm(cj.left), norm(cj.comparators[0])):
                    other = cj.comparators[0] if norm(cj.left) == reasons else cj.left
                    if isinstance(other, (ast.List, ast.Tuple)):
                        vals = [self.const_str(x) for x in other.elts]
                        if all(v is not None for v in vals) and msgs and not (msgs & set(vals)) and cfg.must_pass(cfg.entry, t, [nl]):
                            return f'guarded by `{short(cj, 50)}`, false once {sorted(msgs)} is recorded'
        return None


def r6(ctx: RuleCtx) -> None:
    R = _R6(ctx)
    mod, qn, fn, fl, cfg, es = R.mod, R.qn, R.fn, R.fl, R.cfg, R.es
    N = [n for n, subj in R.nl_tests if f'attr:{es}.cmd_args' in subj]
    if len(N) > 1:
        raise Undecided(f'{qn}: {len(N)} newline tests over {es}.cmd_args')
    if not N:
        # closed world? a helper we cannot see into that receives the serialisation / its arguments may hold the test
        hidden = [c for c in ast.walk(fn) if isinstance(c, ast.Call) and call_method(c) != 'get_executable_serialisation'
                  and ((isinstance(c.func, ast.Name) and mod.has_func(c.func.id)) or (isinstance(c.func, ast.Attribute) and isinstance(c.func.value, ast.Name) and c.func.value.id in ('self', 'cls')))
                  and any(f'attr:{es}.cmd_args' in fl.origins(a) or norm(a) == es for a in list(c.args) + [k.value for k in c.keywords])]
        if hidden:
            raise Undecided(f'{qn}: no newline test over {es}.cmd_args in the function itself; {short(hidden[0])} may contain it')
        unread = [c for c in ast.walk(fn) if isinstance(c, ast.Compare) and len(c.ops) == 1 and isinstance(c.ops[0], (ast.In, ast.NotIn))
                  and isinstance(c.left, ast.Constant) and c.left.value == '\n']
        if unread:
            raise Undecided(f'{qn}: a newline test `{short(unread[0], 50)}` exists but not as a branch condition the rule can follow')
        ctx.violation(mod, qn, 'newline test on the serialised arguments', f'no test of the form `"\\n" in <argument of {es}.cmd_args>` in {qn} or the helpers it calls: '
                      'an argument containing a newline cannot be written to build.ninja (ninja_quote raises) and must force the pickled wrapper')
        return
    nl = N[0]
    ctx.ok(f'{qn}: newline test `{short(nl.expr(), 60)}` over {es}.cmd_args')
    reasons, A, msgs, t_succ = R.recorders(nl)
    if reasons is None:
        raise Undecided(f'{qn}: cannot see what the newline test records on its True branch ({[short(x.ast, 40) for x in t_succ]})')
    F = R.find_force(reasons)
    if len(F) > 1:
        raise Undecided(f'{qn}: {len(F)} assignments derive a flag from `{reasons}`')
    if not F:
        # positive evidence: a return that places the arguments on the command line and that nothing derived from `reasons` excludes
        direct0, _ = R.returns()
        for r in direct0:
            ctx.violation(mod, qn, r.ast, f'`{short(r.ast, 70)}` puts the arguments on the ninja command line and no flag derived from `{reasons}` '
                          '(which records the newline) guards it: a command with a newline argument is written to build.ninja and ninja_quote raises', r.ast)
        if not direct0:
            raise Undecided(f'{qn}: no flag derived from `{reasons}` and no direct return found')
        return
    f = F[0]
    force = f.ast.targets[0].id
    ctx.require(R.feeds(nl, f, A, t_succ),
                f'{qn}: newline test precedes `{short(f.ast, 60)}` and its True branch always records a reason first', mod, qn,
                f'{norm(nl.expr())} before {norm(f.ast)}',
                f'`{short(f.ast, 60)}` can be reached without evaluating the newline test / without its reason being recorded in `{reasons}`: '
                'a command with a newline is then written to build.ninja and ninja_quote raises', f.ast)
    rebinds = [n for n in cfg.nodes if n.kind == 'stmt' and isinstance(n.ast, (ast.Assign, ast.AugAssign)) and n is not f and
               any(isinstance(x, ast.Name) and x.id in (force, reasons) and isinstance(x.ctx, ast.Store) for x in ast.walk(n.ast)) and
               (cfg.can_reach(nl, n) and R.appended_list(n) != reasons)]
    clears = [n for n in cfg.nodes_with_call(lambda c: isinstance(c.func, ast.Attribute) and norm(c.func.value) == reasons and c.func.attr in ('clear', 'pop', 'remove'))]
    ctx.require(not rebinds and not clears, f'{qn}: `{force}`/`{reasons}` are not reset after the newline test', mod, qn, f'reset of {force}/{reasons}: {[norm(n.ast) for n in rebinds + clears]}',
                f'{[short(n.ast) for n in rebinds + clears]} resets the flag or the reasons after the newline test')
    direct, pickled = R.returns()
    ctx.floor(f'{qn}: returns that place the arguments on the command line', len(direct), 1)
    for r in direct:
        why = R.excluded(r, nl, f, force, reasons, msgs, A)
        if why is None:
            guards = R.related_guards(r, {force, reasons}, reasons)
            if guards:
                raise Undecided(f'{qn}: `{short(r.ast, 50)}` depends on {guards}, which mention `{force}`/`{reasons}` in a form the rule does not understand')
        ctx.require(why is not None, f'{qn}: `{short(r.ast, 60)}` unreachable for a newline argument: {why}', mod, qn, r.ast,
                    f'`{short(r.ast, 70)}` puts the arguments on the ninja command line and is not excluded when an argument contains a newline '
                    f'(no dominating `not {force}` / `{reasons} == [...]` guard)', r.ast)
    # pickle branch dumps the unmodified es
    dumps = [c for c in ast.walk(fn) if isinstance(c, ast.Call) and call_name(c) == 'pickle.dump']
    if not dumps:
        raise Undecided(f'{qn}: no pickle.dump call in the function or the helpers that could be expanded (the serialisation is written elsewhere)')
    muts = [st for st in ast.walk(fn) if (isinstance(st, (ast.Assign, ast.AugAssign)) and any(isinstance(t, (ast.Attribute, ast.Subscript)) and norm(t).startswith(es + '.') and 'cmd_args' in norm(t)
                                                                                                for t in (st.targets if isinstance(st, ast.Assign) else [st.target])))
            or (isinstance(st, ast.Call) and isinstance(st.func, ast.Attribute) and norm(st.func.value) == f'{es}.cmd_args' and st.func.attr in
                ('append', 'extend', 'insert', 'pop', 'remove', 'clear', 'sort', 'reverse'))]
    for d in dumps:
        dobj = d.args[0] if d.args else kwarg(d, 'obj')
        ctx.require(isinstance(dobj, ast.Name) and dobj.id == es and not muts, f'{qn}: {short(d)} dumps the unmodified serialisation', mod, qn,
                    f'{norm(d)} / mutations {[norm(m) for m in muts]}', f'{short(d)} does not dump the serialisation `{es}` as returned by get_executable_serialisation '
                    f'(mutations: {[short(m) for m in muts]})', d)
    if not pickled:
        raise Undecided(f'{qn}: no return that names the pickled file (`--unpickle`) found')
    # the serialisation is built from exe followed by cmd_args
    call = fl.defs[es][0]
    cmd_e = call.args[0] if call.args else kwarg(call, 'cmd')   # type: ignore[attr-defined]
    cmdname = norm(cmd_e) if cmd_e is not None else ''
    ps = [a.arg for a in fn.args.args if a.arg != 'self']
    muts = cfg.nodes_with_call(lambda c: isinstance(c.func, ast.Attribute) and norm(c.func.value) == cmdname and c.func.attr in ('append', 'extend', 'insert', 'sort', 'reverse', 'pop', 'remove'))
    esn = cfg.node_containing(call)
    if not esn or not cmdname.isidentifier():
        raise Undecided(f'{qn}: command expression {cmdname} given to get_executable_serialisation')
    # ordered parts of the list: the display it starts from, then append/extend in CFG order
    parts: T.Optional[T.List[str]] = []
    defs = [d for d in fl.defs.get(cmdname, []) if not any(d is a for m in muts for c in ast.walk(m.ast) if isinstance(c, ast.Call) for a in c.args)]
    if len(defs) != 1:
        parts = None
    else:
        def flat(e: ast.AST) -> T.Optional[T.List[str]]:
            if isinstance(e, ast.List):
                return [('*' + norm(x.value)) if isinstance(x, ast.Starred) else norm(x) for x in e.elts]
            if isinstance(e, ast.BinOp) and isinstance(e.op, ast.Add):
                l, r = flat(e.left), flat(e.right)
                return None if l is None or r is None else l + r
            if isinstance(e, ast.Call) and call_name(e) == 'list' and len(e.args) == 1:
                return ['*' + norm(e.args[0])]
            if isinstance(e, ast.Name):
                return ['*' + e.id]
            return None
        parts = flat(defs[0])
    if parts is not None:
        order = sorted(muts, key=lambda n: n.id)
        for k_, m in enumerate(order):
            c = [c for c in ast.walk(m.ast) if isinstance(c, ast.Call) and isinstance(c.func, ast.Attribute) and norm(c.func.value) == cmdname][0]
            linear = all(cfg.must_pass(cfg.entry, order[k_ + 1], [m]) for _ in [0] if k_ + 1 < len(order)) and cfg.must_pass(cfg.entry, esn[0], [m]) \
                and not cfg.can_reach(m, m)
            if not linear or len(c.args) != 1 or c.func.attr not in ('append', 'extend'):
                parts = None
                break
            parts.append(norm(c.args[0]) if c.func.attr == 'append' else '*' + norm(c.args[0]))
    if parts is None:
        raise Undecided(f'{qn}: cannot linearise how `{cmdname}` is built ({[short(n.ast) for n in muts]})')
    want = [ps[0], '*' + ps[1]]
    ctx.require(parts == want, f'{qn}: serialised command = [{ps[0]}, *{ps[1]}] ({parts})', mod, qn, f'{cmdname} = {parts}',
                f'the command given to get_executable_serialisation is {parts}; expected the program followed by its arguments {want}')
    _env_note(ctx, R)


def _concat_exprs(e: ast.AST, fl: OFlow, depth: int = 0) -> T.List[ast.AST]:
    if isinstance(e, ast.BinOp) and isinstance(e.op, ast.Add):
        return _concat_exprs(e.left, fl, depth) + _concat_exprs(e.right, fl, depth)
    if isinstance(e, ast.Name) and e.id not in fl.params and len(fl.defs.get(e.id, [])) == 1 and depth < 4 and not isinstance(fl.defs[e.id][0], ast.List):
        return _concat_exprs(fl.defs[e.id][0], fl, depth + 1)
    return [e]


def _env_note(ctx: RuleCtx, R: _R6) -> None:
    """Environment values that are put on the ninja command line (the `env K=V cmd` shortcut) are run-time strings
    but are not "argument strings" of the property: information only (coordinator triage), no obligation."""
    mod, qn, fl, cfg, es = R.mod, R.qn, R.fl, R.cfg, R.es
    direct, _ = R.returns()
    n = 0
    for r in direct:
        v = r.ast.value
        first = v.elts[0] if isinstance(v, ast.Tuple) and v.elts else v
        for comp in _concat_exprs(first, fl):
            if norm(comp) == f'{es}.cmd_args':
                continue
            envs = sorted({strip_proj(o) for o in fl.origins(comp) if re.fullmatch(r'call:\w+\.get_env', strip_proj(o))})
            if not envs:
                continue
            n += 1
            why = None
            for nl, subj in R.nl_tests:
                if not set(envs) <= {strip_proj(o) for o in subj}:
                    continue
                reasons, A, msgs, t_succ = R.recorders(nl)
                if reasons is None:
                    continue
                F = R.find_force(reasons)
                if len(F) != 1 or not R.feeds(nl, F[0], A, t_succ):
                    continue
                why = R.excluded(r, nl, F[0], F[0].ast.targets[0].id, reasons, msgs, A)
                if why:
                    break
            if why is None:
                ctx.note(f'OBSERVED (not an obligation of C03): `{short(r.ast, 70)}` puts the values of {envs[0][5:]}() on the ninja command line (`{short(comp, 30)}`) '
                         "while only the arguments are tested for a newline; witness custom_target(..., env: {'A': 'x\\ny'}) -> `meson setup` fails loudly with "
                         '`Ninja does not support newlines in rules`; no argument is altered, the same newline in an argument is carried by the pickled wrapper')
            else:
                ctx.note(f'{qn}: environment values on the command line are newline-tested ({why})')


# ---------------------------------------------------------------------------
# R7  response file of the exe wrapper: the digest in the file name is taken over the text written

def _value_root(e: ast.AST, fl: OFlow, depth: int = 0) -> ast.AST:
    """Strip `.encode(...)` and follow single-definition locals: the value whose bytes are hashed / written."""
    while depth < 6:
        depth += 1
        e = _uncopy(e)
        if isinstance(e, ast.Call) and isinstance(e.func, ast.Attribute) and e.func.attr == 'encode':
            e = e.func.value
        elif isinstance(e, ast.Name) and e.id not in fl.params and len(fl.defs.get(e.id, [])) == 1 and \
                (isinstance(fl.defs[e.id][0], ast.Name) or (isinstance(fl.defs[e.id][0], ast.Call) and isinstance(fl.defs[e.id][0].func, ast.Attribute)
                                                            and fl.defs[e.id][0].func.attr == 'encode')):
            e = fl.defs[e.id][0]
        else:
            break
    return e


def _reach_calls(fl: OFlow, e: ast.AST, pred: T.Callable[[ast.Call], bool], depth: int = 0, seen: T.Optional[T.Set[str]] = None) -> T.List[ast.Call]:
    """Calls satisfying pred among the expressions the value of e is computed from (def-use closure over the locals)."""
    seen = seen if seen is not None else set()
    out: T.List[ast.Call] = []
    for n in ast.walk(e):
        if isinstance(n, ast.Call) and pred(n) and not any(n is o for o in out):
            out.append(n)
        if isinstance(n, ast.Name) and n.id not in seen and depth < 8:
            seen.add(n.id)
            for d in fl.defs.get(n.id, []):
                if isinstance(d, ast.AST):
                    for c in _reach_calls(fl, d, pred, depth + 1, seen):
                        if not any(c is o for o in out):
                            out.append(c)
    return out


def r7(ctx: RuleCtx) -> None:
    mod = ctx.repo.module(BACKENDS)
    qn = 'Backend.get_executable_serialisation'
    fn = _nfunc(mod, qn)
    fl = OFlow(fn)
    n = 0
    for w in ast.walk(fn):
        if not isinstance(w, (ast.With, ast.AsyncWith)):
            continue
        for item in w.items:
            c = item.context_expr
            if not (isinstance(c, ast.Call) and call_name(c) == 'open' and c.args and isinstance(item.optional_vars, ast.Name)):
                continue
            digests = _reach_calls(fl, c.args[0], lambda x: isinstance(x.func, ast.Attribute) and x.func.attr in ('hexdigest', 'digest'))
            if not digests:
                continue
            if len(digests) != 1:
                raise Undecided(f'{qn}: file name {short(c.args[0])} depends on {len(digests)} digests')
            recv = digests[0].func.value
            f = item.optional_vars.id
            fed: T.List[ast.AST] = []
            if isinstance(recv, ast.Name):
                h = recv.id
                fed = [x.args[0] for x in ast.walk(fn) if isinstance(x, ast.Call) and isinstance(x.func, ast.Attribute) and x.func.attr == 'update'
                       and norm(x.func.value) == h and len(x.args) == 1]
                for d0 in fl.defs.get(h, []):
                    if isinstance(d0, ast.Call) and d0.args and not any(d0 is a_ for a_ in fed):
                        fed += list(d0.args[:1])
            elif isinstance(recv, ast.Call):       # hashlib.sha1(data).hexdigest()
                h = norm(recv.func)
                fed = list(recv.args[:1])
            else:
                raise Undecided(f'{qn}: digest taken from {short(recv)}')
            written = [x.args[0] for x in ast.walk(w) if isinstance(x, ast.Call) and isinstance(x.func, ast.Attribute) and x.func.attr == 'write'
                       and norm(x.func.value) == f and len(x.args) == 1]
            if len(fed) != 1 or len(written) != 1:
                raise Undecided(f'{qn}: {len(fed)} values fed to {h}, {len(written)} values written to {f}')
            a, b = _value_root(fed[0], fl), _value_root(written[0], fl)
            same = isinstance(a, ast.Name) and isinstance(b, ast.Name) and a.id == b.id and len(fl.defs.get(a.id, [])) == 1 and a.id not in fl.params
            if not same and norm(a) == norm(b) and not isinstance(a, ast.Name):
                # the same expression spelled twice: equal values when nothing it reads is rebound in between
                reads = {x.id for x in ast.walk(a) if isinstance(x, ast.Name)}
                comp_locals = {x.id for g in ast.walk(a) if isinstance(g, ast.comprehension) for x in ast.walk(g.target) if isinstance(x, ast.Name)}
                same = all(len(fl.defs.get(r_, [])) <= (0 if r_ in fl.params else 1) for r_ in reads - comp_locals)
            n += 1
            ctx.require(same, f'{qn}: the digest naming {short(c.args[0], 30)} is taken over the value written into it ({norm(a)})', mod, qn,
                        f'{h}.update({norm(fed[0])}) / {f}.write({norm(written[0])})',
                        f'the file name digests `{short(a, 60)}` but the content written is `{short(b, 60)}` (not one reaching definition): two commands whose arguments '
                        'join to the same text but split or quote differently share one response file and the later overwrites the earlier', c)
    ctx.floor(f'{qn}: digest-named files written', n, 1)


# ---------------------------------------------------------------------------
# R5c  generator(): user extra_args are spliced after the path rewrites (must-not-flow, flow-sensitive by CFG order)

INTERP = 'mesonbuild/interpreter/interpreter.py'
# str -> str methods that rewrite an argument in place (encode/join/split/format change the kind of value: hashing, joining for a file)
REWRITES = {'replace', 'strip', 'lstrip', 'rstrip', 'lower', 'upper', 'translate', 'expandtabs', 'title', 'capitalize', 'casefold', 'swapcase',
            'removeprefix', 'removesuffix', 'zfill', 'center', 'ljust', 'rjust'}


def _method(ctx: RuleCtx, mod: Module, cls: str, name: str) -> T.Optional[ast.AST]:
    r = ctx.repo.find_method(mod, mod.cls(cls), name)
    return r[2] if r is not None else None


def _ctx_origins(fl: OFlow, root: ast.AST, node: ast.AST) -> T.Set[str]:
    """Origins of `node` evaluated inside the comprehensions of `root` that enclose it (their variables are scoped)."""
    parents: T.Dict[int, ast.AST] = {}
    for n in ast.walk(root):
        for ch in ast.iter_child_nodes(n):
            parents[id(ch)] = n
    chain = []
    cur = parents.get(id(node))
    while cur is not None:
        if isinstance(cur, (ast.ListComp, ast.SetComp, ast.GeneratorExp, ast.DictComp)):
            chain.append(cur)
        cur = parents.get(id(cur))
    env: T.Dict[str, T.Any] = {}
    for comp in reversed(chain):
        env = fl._comp_env(comp.generators, env)
    return fl.origins(node, env)


def _helper_summary(h: ast.AST) -> T.Tuple[T.Set[str], T.Set[str]]:
    """(parameters whose elements go through a str transform, `get_extra_args`-like origins of the returned value)."""
    fl = OFlow(h)
    rewritten: T.Set[str] = set()
    for c in ast.walk(h):
        if isinstance(c, ast.Call) and isinstance(c.func, ast.Attribute) and c.func.attr in REWRITES:
            rewritten |= {strip_proj(o)[6:] for o in _ctx_origins(fl, h, c.func.value) if o.startswith('param:') and strip_proj(o) != 'param:self'}
    ret: T.Set[str] = set()
    for st in walk_no_nested(h):
        if isinstance(st, ast.Return) and st.value is not None:
            ret |= {strip_proj(o) for o in fl.origins(st.value) if strip_proj(o).endswith('.get_extra_args')}
    return rewritten, ret


def r5c(ctx: RuleCtx) -> None:
    mod = ctx.repo.module(NINJA)
    cls, qn = 'NinjaBackend', 'NinjaBackend.generate_genlist_for_target'
    fn = _nfunc(mod, qn)
    fl = OFlow(fn)
    cfg = CFG(fn)
    heads = cfg.find(lambda n: n.kind == 'iter')
    sources: T.List[T.Tuple[ast.Call, str]] = []       # (call, origin label of its result)
    rewriters: T.List[T.Tuple[ast.Call, T.List[ast.AST], str]] = []   # (call, rewritten inputs, description)
    for c in walk_no_nested(fn):
        if not isinstance(c, ast.Call):
            continue
        cn = call_name(c) or ''
        if isinstance(c.func, ast.Attribute) and c.func.attr == 'get_extra_args':
            sources.append((c, f'call:{cn}'))
        if isinstance(c.func, ast.Attribute) and c.func.attr in REWRITES and not isinstance(c.func.value, ast.Constant):
            rewriters.append((c, [c.func.value], f'.{c.func.attr}()'))
        if isinstance(c.func, ast.Attribute) and isinstance(c.func.value, ast.Name) and c.func.value.id == 'self':
            h = _method(ctx, mod, cls, c.func.attr)
            if h is None:
                continue
            rew, ret = _helper_summary(h)
            if ret:
                sources.append((c, f'call:{cn}'))
            if rew:
                params = [a.arg for a in h.args.args if a.arg != 'self']     # type: ignore[attr-defined]
                bound = dict(zip(params, c.args))
                bound.update({k.arg: k.value for k in c.keywords if k.arg})
                rewriters.append((c, [bound[p] for p in rew if p in bound], f'{cn}() rewrites its {sorted(rew)}'))
    ctx.floor(f'{qn}: places where the user extra_args enter the command', len(sources), 1)
    ctx.floor(f'{qn}: string rewrites of the generator argument list', len(rewriters), 1)
    for sc, label in sources:
        snodes = cfg.node_containing(sc)
        hits = []
        for wc, inputs, desc in rewriters:
            if wc is sc or not any(label in {strip_proj(o) for o in _ctx_origins(fl, fn, i)} for i in inputs):
                continue          # the rewrite never sees the spliced list (flow-insensitive pre-filter)
            feeding: T.List[ast.AST] = list(inputs)      # within one statement: the input and the iterables that bind its comprehension variables
            names = {x.id for i in inputs for x in ast.walk(i) if isinstance(x, ast.Name)}
            for comp in ast.walk(fn):
                if isinstance(comp, (ast.ListComp, ast.SetComp, ast.GeneratorExp, ast.DictComp)) and any(x is wc for x in ast.walk(comp)):
                    feeding += [g.iter for g in comp.generators if names & {x.id for x in ast.walk(g.target) if isinstance(x, ast.Name)}]
            nested = any(x is sc for i in feeding for x in ast.walk(i))
            wnodes = cfg.node_containing(wc)
            after = any(cfg.can_reach(s_, w_, avoid=heads) for s_ in snodes for w_ in wnodes if s_ is not w_)
            if nested or after:
                hits.append((wc, desc))
        for wc, desc in hits:
            ctx.violation(mod, qn, f'{norm(sc)} -> {norm(wc)}',
                          f'the user-supplied extra_args spliced by {short(sc, 50)} afterwards pass {short(wc, 60)} ({desc}): backslashes and @...@ texts inside '
                          'generator.process(extra_args: ...) strings would be rewritten; the rewrite whitelist applies to the generator\'s own arguments only', wc)
        if not hits:
            ctx.ok(f'{qn}: no string rewrite runs after {short(sc, 60)} on its result')
    # the spliced list is what is handed to as_meson_exe_cmdline
    calls = [c for c in walk_no_nested(fn) if isinstance(c, ast.Call) and call_method(c) == 'as_meson_exe_cmdline']
    ctx.floor(f'{qn}: as_meson_exe_cmdline calls', len(calls), 1)
    for c in calls:
        a = c.args[1] if len(c.args) > 1 else kwarg(c, 'cmd_args')
        labels = {lab for _, lab in sources}
        ctx.require(a is not None and bool(labels & {strip_proj(o) for o in fl.origins(a)}), f'{qn}: the command arguments given to as_meson_exe_cmdline contain the extra_args splice',
                    mod, qn, c, f'the arguments given to as_meson_exe_cmdline ({short(a)}) do not come from the @EXTRA_ARGS@ splice: user extra_args are dropped', c)


# ---------------------------------------------------------------------------
# R8  add_project_arguments / add_global_arguments: lists stored per language are not shared when mutated in place

INPLACE = {'extend', 'append', 'insert', 'remove', 'pop', 'clear', 'sort', 'reverse'}


def _fresh(e: ast.AST, fl: OFlow, loop_nodes: T.Set[int], depth: int = 0) -> T.Optional[bool]:
    """Is the value of e a list allocated by this evaluation (True), an alias of an existing object (False), unknown (None)?"""
    if isinstance(e, (ast.List, ast.ListComp)):
        return True
    if isinstance(e, ast.BinOp) and isinstance(e.op, (ast.Add, ast.Mult)):
        return True
    if isinstance(e, ast.Subscript) and isinstance(e.slice, ast.Slice):
        return True
    if isinstance(e, ast.Call):
        cn = call_name(e) or ''
        if cn in ('list', 'sorted', 'copy.copy', 'copy.deepcopy', 'copy', 'deepcopy') or (isinstance(e.func, ast.Attribute) and e.func.attr == 'copy' and not e.args):
            return True
        return None
    if isinstance(e, ast.IfExp):
        a, b = _fresh(e.body, fl, loop_nodes, depth), _fresh(e.orelse, fl, loop_nodes, depth)
        return None if a is None or b is None else (a and b)
    if isinstance(e, ast.Name):
        if e.id in fl.params:
            return False
        defs = fl.defs.get(e.id, [])
        if len(defs) == 1 and depth < 3 and id(defs[0]) in loop_nodes:
            return _fresh(defs[0], fl, loop_nodes, depth + 1)      # bound in the same loop body, once
        return False if defs else None
    if isinstance(e, (ast.Attribute, ast.Subscript)):
        return False
    return None


def r8(ctx: RuleCtx) -> None:
    mod = ctx.repo.module(INTERP)
    qn = 'Interpreter._add_arguments'
    fn = _nfunc(mod, qn)
    fl = OFlow(fn)
    params = [a.arg for a in fn.args.args if a.arg != 'self']
    # the store: the parameter that is written by subscript / setdefault
    stores: T.List[T.Tuple[ast.AST, str, ast.AST, ast.AST]] = []     # (node, store name, stored value, statement)
    mutators: T.List[ast.AST] = []

    def store_of(e: ast.AST) -> T.Optional[str]:
        """e denotes an element of a parameter dict: D[k], D.get(k, ...), D.setdefault(k, ...), or a local bound to one."""
        if isinstance(e, ast.Subscript) and isinstance(e.value, ast.Name) and e.value.id in params and not isinstance(e.slice, ast.Slice):
            return e.value.id
        if isinstance(e, ast.Call) and isinstance(e.func, ast.Attribute) and e.func.attr in ('get', 'setdefault') and isinstance(e.func.value, ast.Name) and e.func.value.id in params:
            return e.func.value.id
        if isinstance(e, ast.Name) and e.id not in params:
            for d in fl.defs.get(e.id, []):
                r = store_of(d) if not isinstance(d, ast.Name) else None
                if r:
                    return r
        return None
    for st in walk_no_nested(fn):
        if isinstance(st, ast.Assign):
            for t in st.targets:
                if isinstance(t, ast.Subscript) and isinstance(t.value, ast.Name) and t.value.id in params:
                    stores.append((t, t.value.id, st.value, st))
        elif isinstance(st, ast.AugAssign) and store_of(st.target):
            mutators.append(st)           # list += is in place
        elif isinstance(st, ast.Call) and isinstance(st.func, ast.Attribute):
            if st.func.attr in INPLACE and store_of(st.func.value):
                mutators.append(st)
            if st.func.attr == 'setdefault' and isinstance(st.func.value, ast.Name) and st.func.value.id in params and len(st.args) == 2:
                stores.append((st, st.func.value.id, st.args[1], st))
            if st.func.attr == 'update' and isinstance(st.func.value, ast.Name) and st.func.value.id in params:
                raise Undecided(f'{qn}: {short(st)} writes the per-language store in bulk')
    ctx.floor(f'{qn}: writes into the per-language argument store', len(stores), 1)
    loops = [n for n in walk_no_nested(fn) if isinstance(n, (ast.For, ast.While))]
    for node, dname, val, st in stores:
        inner = [l for l in loops if any(x is st or x is node for x in ast.walk(l))]
        loop_nodes = {id(x) for x in ast.walk(inner[-1])} if inner else {id(x) for x in ast.walk(fn)}
        fr = _fresh(val, fl, loop_nodes)
        if fr is True:
            ctx.ok(f'{qn}: {short(st, 70)} stores a list allocated for this key')
        elif not mutators:
            ctx.ok(f'{qn}: {short(st, 70)} may share a list, but no stored list is modified in place here')
        elif fr is None:
            raise Undecided(f'{qn}: cannot tell whether `{short(val)}` is a fresh list while {[short(m, 40) for m in mutators]} modify stored lists in place')
        else:
            ctx.violation(mod, qn, f'{norm(st)} with {"; ".join(norm(m) for m in mutators)}',
                          f'`{short(st, 60)}` stores an existing list object (the caller\'s argument list) under every language of the call, and '
                          f'{[short(m, 50) for m in mutators]} modifies stored lists in place: a later add_project_arguments(language: one of them) '
                          'also changes the arguments of the other languages (and the caller\'s list)', st)


# ---------------------------------------------------------------------------
# R4d  `meson --internal <script> ...`: the script receives the process argv unmodified

MESONMAIN = 'mesonbuild/mesonmain.py'


def _resolve_repo_func(ctx: RuleCtx, mod: Module, call: ast.Call) -> T.Optional[ast.AST]:
    cn = call_name(call) or ''
    last = cn.split('.')[-1]
    if '.' not in cn and mod.has_func(cn):
        return mod.func(cn)
    imps = mod.imports()
    head = cn.split('.')[0]
    cands = []
    if head in imps:
        m2 = ctx.repo.module_by_dotted(imps[head]) if '.' in cn else None
        if m2 is not None:
            cands.append(m2)
    if ctx.repo.exists(UNIVERSAL):
        cands.append(ctx.repo.module(UNIVERSAL))
    for m2 in cands:
        if m2.has_func(last):
            return m2.func(last)
    return None


def _passes_through(fn: ast.AST) -> T.Optional[int]:
    """Index of the parameter that every `return` of fn returns unchanged (None: the function builds its result)."""
    ps = [a.arg for a in fn.args.posonlyargs + fn.args.args if a.arg not in ('self', 'cls')]   # type: ignore[attr-defined]
    rets = [st for st in walk_no_nested(fn) if isinstance(st, ast.Return)]
    stored = {n.id for n in walk_no_nested(fn) if isinstance(n, ast.Name) and isinstance(n.ctx, ast.Store)}
    idx = set()
    for r in rets:
        v = _uncopy(r.value) if r.value is not None else None
        if isinstance(v, ast.Name) and v.id in ps and v.id not in stored:
            idx.add(ps.index(v.id))
        else:
            return None
    return next(iter(idx)) if len(idx) == 1 else None


def r4d(ctx: RuleCtx) -> None:
    mod = ctx.repo.module(MESONMAIN)
    qn = 'run'
    fn = _nfunc(mod, qn)
    fl = OFlow(fn)
    p0 = fn.args.args[0].arg
    calls = [c for c in walk_no_nested(fn) if isinstance(c, ast.Call) and call_name(c) == 'run_script_command']
    if not calls:
        raise Undecided(f'{MESONMAIN}:{qn}: no call of run_script_command (internal scripts are dispatched differently)')

    def root(e: ast.AST, depth: int = 0) -> T.Tuple[str, ast.AST]:
        """('param', e) when e denotes (a copy / tail slice of) the argv parameter, ('call', c) for the repository call that rebuilt it,
        ('?', e) otherwise."""
        e = _uncopy(e)
        if isinstance(e, ast.Subscript) and isinstance(e.slice, ast.Slice):
            return root(e.value, depth)
        if isinstance(e, ast.Name):
            if e.id == p0 and p0 not in fl.defs:
                return 'param', e
            ds = fl.defs.get(e.id, [])
            if len(ds) == 1 and depth < 6 and isinstance(ds[0], ast.AST):
                return root(ds[0], depth + 1)
            return '?', e
        if isinstance(e, ast.Call):
            h = _resolve_repo_func(ctx, mod, e)
            if h is None:
                return '?', e
            k = _passes_through(h)
            if k is not None and k < len(e.args):
                return root(e.args[k], depth + 1)
            return 'call', e
        return '?', e
    for c in calls:
        a = c.args[1] if len(c.args) > 1 else kwarg(c, 'script_args')
        if a is None:
            raise Undecided(f'{qn}: call form {short(c)}')
        kind, what = root(a)
        if kind == '?':
            raise Undecided(f'{qn}: cannot trace the script arguments {short(a)} back to the process argv (stops at {short(what)})')
        ctx.require(kind == 'param', f'{qn}: internal scripts receive a tail of the process argv `{p0}` itself ({short(a)})', mod, qn, f'run_script_command(..., {norm(a)}) <- {norm(what)}',
                    f'the arguments of `meson --internal <script>` ({short(a)}) are rebuilt by {short(what, 70)} before the script sees them: the command line that '
                    '`meson --internal exe -- <user command>` has to execute is no longer the one the backend wrote (e.g. `@file` words of the user command get expanded)', c)


# ---------------------------------------------------------------------------
# R8b  results that the interpreter keeps in a container are owned: a helper must not hand back its own argument list

def r8b(ctx: RuleCtx) -> None:
    mod = ctx.repo.module(INTERP)
    cls = 'Interpreter'
    meths = mod.methods(cls)

    def ret_positions(h: ast.AST) -> T.Optional[T.List[T.List[ast.AST]]]:
        """Per return statement: the list of returned elements (a tuple display is split)."""
        out = []
        for st in walk_no_nested(h):
            if isinstance(st, ast.Return) and st.value is not None:
                out.append(list(st.value.elts) if isinstance(st.value, ast.Tuple) else [st.value])
        return out or None

    def alias_of_param(e: ast.AST, h: ast.AST) -> T.Optional[str]:
        ps = {a.arg for a in h.args.args if a.arg != 'self'}      # type: ignore[attr-defined]
        stored = {n.id for n in walk_no_nested(h) if isinstance(n, ast.Name) and isinstance(n.ctx, ast.Store)}
        while isinstance(e, ast.Call) and call_name(e) in ('T.cast', 'cast', 'typing.cast') and len(e.args) == 2:
            e = e.args[1]
        return e.id if isinstance(e, ast.Name) and e.id in ps and e.id not in stored else None
    n = 0
    for q, f in meths.items():
        bound: T.Dict[str, T.Tuple[str, int]] = {}
        for st in walk_no_nested(f):
            if isinstance(st, ast.Assign) and len(st.targets) == 1 and isinstance(st.value, ast.Call) and isinstance(st.value.func, ast.Attribute) \
                    and isinstance(st.value.func.value, ast.Name) and st.value.func.value.id == 'self':
                hn = st.value.func.attr
                hn = hn if hn in meths else (hn if not hn.startswith('__') else hn)
                t = st.targets[0]
                if isinstance(t, ast.Tuple) and all(isinstance(x, ast.Name) for x in t.elts):
                    for k, x in enumerate(t.elts):
                        bound[x.id] = (hn, k)
                elif isinstance(t, ast.Name):
                    bound[t.id] = (hn, -1)
        if not bound:
            continue
        for st in walk_no_nested(f):
            if isinstance(st, ast.Assign) and len(st.targets) == 1 and isinstance(st.targets[0], ast.Subscript) and isinstance(st.value, ast.Name) and st.value.id in bound:
                hn, k = bound[st.value.id]
                h = meths.get(hn)
                if h is None:
                    continue
                rp = ret_positions(h)
                if rp is None or any((k >= len(r_)) or (k == -1 and len(r_) != 1) for r_ in rp):
                    continue
                elems = [r_[k if k >= 0 else 0] for r_ in rp]
                owners = [e for e in elems if isinstance(_uncopy(e), (ast.List, ast.ListComp)) or (isinstance(e, ast.Name) and any(
                    isinstance(d, (ast.Assign, ast.AnnAssign)) and d.value is not None and isinstance(d.value, (ast.List, ast.ListComp)) and
                    norm(d.targets[0] if isinstance(d, ast.Assign) else d.target) == e.id for d in walk_no_nested(h)))]
                if not owners:
                    continue            # not a list-building helper
                n += 1
                leaks = [(e, alias_of_param(e, h)) for e in elems if alias_of_param(e, h)]
                ctx.require(not leaks, f'{cls}.{q}: `{short(st, 50)}` keeps a list that {hn} always allocates', mod, f'{cls}.{hn}',
                            f'return {", ".join(norm(e) for e, _ in leaks)} kept by {q}: {norm(st)}',
                            f'{hn} returns a newly built list on some paths but hands back its own parameter `{leaks[0][1] if leaks else ""}` on another, and {q} keeps the result '
                            f'(`{short(st, 50)}`): later in-place additions (extend/append of per-library arguments) then modify the caller\'s list, which is shared '
                            'between the targets built from the same keyword arguments', st)
    if n == 0:
        raise Undecided(f'{cls}: no list-building helper whose result is kept in a container found')


# ---------------------------------------------------------------------------
# R5d  generator @OUTPUTn@ substitution loop: what is replaced is the text that was matched (progress of the re-search loop)

def r5d(ctx: RuleCtx) -> None:
    mod = ctx.repo.module(BACKENDS)
    qn = 'Backend.replace_outputs'
    fn = _nfunc(mod, qn)         # normal form: helpers inlined, `while True: m = search(); if m is None: break` / `while (m := search())` read as the primed loop
    loops = []
    for w in walk_no_nested(fn):
        if not isinstance(w, ast.While):
            continue
        names = {x.id for x in ast.walk(w.test) if isinstance(x, ast.Name)}
        research = [st for st in ast.walk(w) if isinstance(st, ast.Assign) and len(st.targets) == 1 and isinstance(st.targets[0], ast.Name) and st.targets[0].id in names
                    and isinstance(st.value, ast.Call) and isinstance(st.value.func, ast.Attribute) and st.value.func.attr in ('search', 'match')]
        if research:
            loops.append((w, research[0].targets[0].id, research[0].value.args[0] if research[0].value.args else None))
    if not loops:
        # no re-search loop: is the text searched ONCE and only the match that was found replaced?  `m = R.search(x)` (single definition of m), an
        # `if` on m (not inside any loop that redefines m) whose body does `x = x.replace(m.group(0), ..)`: one distinct placeholder is substituted.
        once = []
        for st in walk_no_nested(fn):
            if isinstance(st, ast.If):
                tn = {x.id for x in ast.walk(st.test) if isinstance(x, ast.Name)}
                for a in ast.walk(st):
                    if isinstance(a, ast.Assign) and len(a.targets) == 1 and isinstance(a.targets[0], ast.Name) and isinstance(a.value, ast.Call) \
                            and isinstance(a.value.func, ast.Attribute) and a.value.func.attr == 'replace' and norm(a.value.func.value) == a.targets[0].id and a.value.args:
                        for m_ in tn:
                            if norm(a.value.args[0]) in (f'{m_}.group(0)', f'{m_}.group()', f'{m_}[0]'):
                                once.append((st, m_, a))
        defs_all = [a for a in walk_no_nested(fn) if isinstance(a, ast.Assign) and len(a.targets) == 1 and isinstance(a.targets[0], ast.Name)]
        for st, m_, a in once:
            mdefs = [d for d in defs_all if d.targets[0].id == m_]
            subj = a.targets[0].id
            if len(mdefs) == 1 and isinstance(mdefs[0].value, ast.Call) and isinstance(mdefs[0].value.func, ast.Attribute) and mdefs[0].value.func.attr in ('search', 'match') \
                    and mdefs[0].value.args and norm(mdefs[0].value.args[0]) == subj \
                    and not any(isinstance(w, ast.While) and any(x is st for x in ast.walk(w)) for w in walk_no_nested(fn)) \
                    and not any(isinstance(c, ast.Call) and isinstance(c.func, ast.Attribute) and c.func.attr in ('sub', 'subn', 'finditer', 'findall') for c in walk_no_nested(fn)):
                ctx.violation(mod, qn, f'if {norm(st.test)}: {subj}.replace({norm(a.value.args[0])}, ...) [searched once]',
                              f'{subj} is searched for an indexed placeholder once (`{short(mdefs[0])}`) and only the text of that one match is replaced under `if {short(st.test)}`; '
                              f'there is no loop that searches {subj} again, so a second, different placeholder in the same argument stays '
                              '(witness: generator argument `--outs=@OUTPUT0@,@OUTPUT1@` reaches the program with the literal `@OUTPUT1@`)', st)
                return
        raise Undecided(f'{qn}: no `while <match>:` re-search loop (the substitution is written differently)')
    for w, m, subject in loops:
        if not isinstance(subject, ast.Name):
            raise Undecided(f'{qn}: the loop re-searches {short(subject)}')
        reps = [st.value for st in ast.walk(w) if isinstance(st, ast.Assign) and len(st.targets) == 1 and norm(st.targets[0]) == subject.id
                and isinstance(st.value, ast.Call) and isinstance(st.value.func, ast.Attribute) and st.value.func.attr == 'replace' and norm(st.value.func.value) == subject.id]
        if len(reps) != 1 or len(reps[0].args) < 2:
            raise Undecided(f'{qn}: the loop body rewrites {subject.id} in {len(reps)} places')
        old_e = reps[0].args[0]
        local = {st.targets[0].id: st.value for st in ast.walk(w) if isinstance(st, ast.Assign) and len(st.targets) == 1 and isinstance(st.targets[0], ast.Name)}
        for _ in range(3):
            if isinstance(old_e, ast.Name) and old_e.id in local:
                old_e = local[old_e.id]
        matched = norm(old_e) in (f'{m}.group(0)', f'{m}.group()', f'{m}[0]')
        if matched:
            ctx.ok(f'{qn}: the loop replaces the matched text {norm(old_e)}: every iteration removes the match it found')
            continue
        rebuilt = isinstance(old_e, ast.JoinedStr) and any(isinstance(c, ast.Call) and call_name(c) == 'int' for c in ast.walk(w))
        if not rebuilt:
            raise Undecided(f'{qn}: the text replaced in the loop is `{short(old_e)}`, a form the rule does not understand')
        ctx.violation(mod, qn, f'while {norm(w.test)}: {subject.id}.replace({norm(old_e)}, ...)',
                      f'the loop searches {subject.id} for a placeholder but replaces `{short(old_e)}`, a text rebuilt from the *number* parsed out of the match, not the matched '
                      f'text {m}.group(0): for a spelling such as `@OUTPUT01@` the rebuilt `@OUTPUT1@` does not occur, nothing is replaced and the loop never ends '
                      '(witness: generator argument `x@OUTPUT01@` -> `meson setup` hangs in replace_outputs)', reps[0])


# ---------------------------------------------------------------------------
# R4e  `meson --internal exe [--capture F] [--feed F] -- <argv>`: the `--` separator precedes the wrapped argv

def _words(e: ast.AST, fl: OFlow, depth: int = 0) -> T.List[str]:
    """A list expression as words: constants by repr, whole sub-lists as `*<expr>` (displays, `+`, copies, single-definition locals)."""
    e = _uncopy(e)
    if isinstance(e, ast.BinOp) and isinstance(e.op, ast.Add):
        return _words(e.left, fl, depth) + _words(e.right, fl, depth)
    if isinstance(e, (ast.List, ast.Tuple)):
        out: T.List[str] = []
        for x in e.elts:
            out += _words(x.value, fl, depth) if isinstance(x, ast.Starred) else [repr(x.value) if isinstance(x, ast.Constant) else norm(x)]
        return out
    if isinstance(e, ast.Name) and e.id not in fl.params and len(fl.defs.get(e.id, [])) == 1 and depth < 4 and isinstance(fl.defs[e.id][0], ast.AST):
        return _words(fl.defs[e.id][0], fl, depth + 1)
    return ['*' + norm(e)]


def r4e(ctx: RuleCtx) -> None:
    R = _R6(ctx)
    mod, qn, fl, es = R.mod, R.qn, R.fl, R.es
    direct, _ = R.returns()
    n = 0
    for r in direct:
        v = r.ast.value
        first = v.elts[0] if isinstance(v, ast.Tuple) and v.elts else v
        w = _words(first, fl)
        tail = f'*{es}.cmd_args'
        if repr('--internal') not in w or repr('exe') not in w or tail not in w:
            continue          # not run through meson_exe's option parser
        n += 1
        k = w.index(tail)
        prev = w[k - 1] if k > 0 else ''
        if prev == repr('--'):
            ctx.ok(f'{qn}: `{short(r.ast, 50)}`: the wrapped argv follows the `--` separator')
        elif prev.startswith("'") or prev.startswith('*'):
            if prev.startswith('*'):
                # a sub-list: read it - a local accumulated from displays only; does its last possible word equal `--`?
                nm = prev[1:]
                ds = fl.defs.get(nm, []) if nm.isidentifier() else []
                disp = [d for d in ds if isinstance(d, (ast.List, ast.Tuple))]
                if not ds or len(disp) != len(ds):
                    raise Undecided(f'{qn}: cannot read the words of `{nm}` that precede the wrapped argv in {short(first, 80)}')
                if any(isinstance(x, ast.Constant) and x.value == '--' for d in disp for x in d.elts):
                    raise Undecided(f'{qn}: `{nm}` may or may not end with `--` before the wrapped argv')
            ctx.violation(mod, qn, f'{norm(first)}',
                          f'`{short(first, 90)}` runs the command through `meson --internal exe` without the `--` separator right before the wrapped argv '
                          f'(it follows {prev}): meson_exe parses its own options with parse_known_args, so user arguments such as `--capture`, `--feed`, `-h` '
                          'or their abbreviations are consumed by the wrapper', r.ast)
        else:
            raise Undecided(f'{qn}: cannot read what precedes the wrapped argv in {short(first, 80)}')
    if n == 0:
        raise Undecided(f'{qn}: no return that runs the argv through `meson --internal exe` with options found')


# ---------------------------------------------------------------------------
# R9  both_libraries(): the "do not reuse objects" guard covers every per-library-kind argument key that is read

def r9(ctx: RuleCtx) -> None:
    mod = ctx.repo.module(INTERP)
    cls = 'Interpreter'
    meths = mod.methods(cls)
    tails: T.Dict[str, str] = {}
    for q, f in meths.items():
        for c in walk_no_nested(f):
            if isinstance(c, ast.Call) and isinstance(c.func, ast.Attribute) and c.func.attr.endswith('convert_file_args') and c.args:
                a = c.args[0]
                key = a.args[0] if isinstance(a, ast.Call) and isinstance(a.func, ast.Attribute) and a.func.attr == 'get' and a.args else (a.slice if isinstance(a, ast.Subscript) else None)
                if isinstance(key, ast.JoinedStr) and key.values and isinstance(key.values[-1], ast.Constant) and isinstance(key.values[-1].value, str):
                    tails[key.values[-1].value] = q
    if not tails:
        raise Undecided(f'{cls}: no per-language argument keys (f-string keys given to the file-argument converter) found')
    common = min(tails, key=len)
    kinds = {t: q for t, q in tails.items() if t != common}
    if not kinds:
        raise Undecided(f'{cls}: only the plain `{common}` keys are read')
    guards = []
    for q, f in meths.items():
        for c in walk_no_nested(f):
            if isinstance(c, ast.Call) and isinstance(c.func, ast.Attribute) and c.func.attr == 'endswith' and len(c.args) == 1 and isinstance(c.func.value, ast.Name):
                try:
                    val = fold_expr(ctx.repo, mod, c.args[0])
                except Exception:
                    continue
                sfx = [val] if isinstance(val, str) else (list(val) if isinstance(val, (tuple, list)) and all(isinstance(x, str) for x in val) else None)
                if sfx and any(t.endswith(x) or x.endswith(t.lstrip('_')) for t in kinds for x in sfx) or (sfx and any('args' in x for x in sfx) and q.endswith('both_libraries')):
                    guards.append((q, c, sfx))
    if len(guards) != 1:
        raise Undecided(f'{cls}: {len(guards)} suffix tests on keyword names that concern {sorted(kinds)}')
    q, c, sfx = guards[0]
    for t, reader in sorted(kinds.items()):
        ctx.require(any(t.endswith(x) for x in sfx), f'{cls}.{q}: the suffix test {sfx} covers the `<lang>{t}` keys read by {reader}', mod, f'{cls}.{q}', f'{norm(c)} vs {t}',
                    f'{reader} reads the per-library arguments `<lang>{t}`, but the guard {short(c, 70)} of {q} (folded suffixes {sfx}) matches no such key: '
                    'object files of the shared library are reused for the static one and the static-only arguments reach no compiler process', c)


# ---------------------------------------------------------------------------
# R10  deleting collected positions from an argument list goes from the back

def r10(ctx: RuleCtx) -> None:
    rel = 'mesonbuild/compilers/mixins/clike.py'
    mod = ctx.repo.module(rel)
    cname = 'CLikeCompilerArgs'
    qn = f'{cname}.to_native'
    # closed world of the class: the conversion may keep the filtering in to_native itself, in a helper (inlined by the normal form) or in a hook method
    # that an inherited to_native calls back (template method): every method of the class that is called from the class or one of its bases is read;
    # a loop already seen in the normal form of an earlier method (an inlined helper) is read once.
    called = {c.func.attr for m_, c_ in ctx.repo.mro(mod, mod.cls(cname)) for f_ in c_.body if isinstance(f_, (ast.FunctionDef, ast.AsyncFunctionDef))
              for c in ast.walk(f_) if isinstance(c, ast.Call) and isinstance(c.func, ast.Attribute)}
    order = ['to_native'] + sorted(k for k in mod.methods(cname) if k != 'to_native' and k in called)
    todo: T.List[T.Tuple[str, ast.AST, OFlow, ast.For]] = []
    seen_loops: T.Set[str] = set()
    mod.func(qn)
    for meth in order:
        f_ = _nfunc(mod, f'{cname}.{meth}')
        fl_ = None
        for x in ast.walk(f_):
            if isinstance(x, ast.For) and isinstance(x.target, ast.Name) and norm(x) not in seen_loops:
                seen_loops.add(norm(x))
                fl_ = fl_ or OFlow(f_)
                todo.append((f'{cname}.{meth}', f_, fl_, x))
    n = 0
    for qn, fn, fl, lp in todo:
        pops = [c for b in lp.body for c in ast.walk(b) if isinstance(c, ast.Call) and isinstance(c.func, ast.Attribute) and c.func.attr == 'pop' and len(c.args) == 1
                and norm(c.args[0]) == lp.target.id]
        dels = [d for b in lp.body for d in ast.walk(b) if isinstance(d, ast.Delete) and any(isinstance(t, ast.Subscript) and norm(t.slice) == lp.target.id for t in d.targets)]
        if not pops and not dels:
            continue
        n += 1
        it = lp.iter
        src = it
        desc = None
        if isinstance(it, ast.Call) and call_name(it) == 'reversed' and len(it.args) == 1:
            desc, src = True, it.args[0]
        elif isinstance(it, ast.Call) and call_name(it) == 'sorted' and it.args:
            rv = kwarg(it, 'reverse')
            desc, src = (isinstance(rv, ast.Constant) and rv.value is True), it.args[0]
        elif isinstance(it, ast.Subscript) and isinstance(it.slice, ast.Slice) and isinstance(it.slice.step, ast.UnaryOp) and norm(it.slice.step) == '-1' \
                and it.slice.lower is None and it.slice.upper is None:
            desc, src = True, it.value
        elif isinstance(it, ast.Name) or (isinstance(it, ast.Call) and isinstance(it.func, ast.Attribute) and isinstance(it.func.value, ast.Name)
                                          and it.func.value.id == 'self' and mod.has_func(f'CLikeCompilerArgs.{it.func.attr}')):
            desc = False          # the collected list itself, in collection order
        if desc is None:
            raise Undecided(f'{qn}: positions are deleted while iterating {short(it)}, an order the rule cannot read')
        inner = _uncopy(src.args[0]) if isinstance(src, ast.Call) and call_name(src) in ('set', 'list', 'sorted') and src.args else _uncopy(src)
        dfl = fl
        if isinstance(inner, ast.Call) and isinstance(inner.func, ast.Attribute) and isinstance(inner.func.value, ast.Name) and inner.func.value.id == 'self' \
                and mod.has_func(f'CLikeCompilerArgs.{inner.func.attr}'):
            # the positions are collected by a helper of the class: read the list it returns
            h = mod.func(f'CLikeCompilerArgs.{inner.func.attr}')
            rets = [st.value for st in walk_no_nested(h) if isinstance(st, ast.Return) and st.value is not None]
            if len(rets) == 1 and isinstance(_uncopy(rets[0]), ast.Name):
                inner, dfl = _uncopy(rets[0]), OFlow(h)
        if not isinstance(inner, ast.Name):
            raise Undecided(f'{qn}: positions come from {short(src)}')
        # the positions were collected in ascending order (from an enumerate()/range() loop variable, possibly +1)
        asc = bool(dfl.defs.get(inner.id)) and all(isinstance(d, (ast.List, ast.Tuple, ast.BinOp, ast.Name, ast.Constant)) for d in dfl.defs.get(inner.id, []))
        if not asc:
            raise Undecided(f'{qn}: cannot see how the positions in {inner.id} are collected')
        if call_name(it) == 'sorted' or desc:
            pass
        ctx.require(bool(desc), f'{qn}: positions in {inner.id} are deleted from the back ({short(it)})', mod, qn, f'for {lp.target.id} in {norm(it)}: pop',
                    f'the positions collected in {inner.id} (ascending) are deleted while iterating {short(it)}, i.e. front to back: every deletion shifts the later '
                    'positions by one, so an argument that follows a filtered entry is dropped and the entry (or its operand) stays', lp)
    if n == 0:
        raise Undecided(f'{cname}: no loop that deletes collected positions found in {order}')


RULES = [
    Rule('C03.R1a', 'build statements: every value passes ninja_quote (and qf unless raw / &&)', r1a),
    Rule('C03.R1b', 'rules: command/args only through _quoter; _quoter table; shell vs rsp quoter', r1b),
    Rule('C03.R1c', 'Quoting.none only for $variables / tool methods over $ placeholders', r1c),
    Rule('C03.R2', 'ninja escape set, fast-path guard and replacement', r2),
    Rule('C03.R3a', 'rsp style -> quote function: rule and element agree', r3a),
    Rule('C03.R3b', 'raw_names single table; strToCommandArg classification', r3b),
    Rule('C03.R3c', 'gcc_rsp_quote doubles backslashes; quote_func binding', r3c),
    Rule('C03.R3d', 'Windows/MSVC quote function: quote and terminal-backslash escaping on every quoting path', r3d),
    Rule('C03.R4a', 'meson_exe: argv list to Popen, no shell', r4a),
    Rule('C03.R4b', 'mtest: argv list to create_subprocess_exec, no shell, argv order', r4b),
    Rule('C03.R4c', 'test serialisation stores string arguments unchanged, in order', r4c),
    Rule('C03.R5a', 'eval_custom_target_command: only whitelisted rewrites', r5a),
    Rule('C03.R5b', 'escape_extra_args: backslash doubling under the -D//D guard, per-target args only', r5b),
    Rule('C03.R7', 'exe-wrapper response file: name digest is taken over the text written', r7),
    Rule('C03.R5c', 'generator(): user extra_args are spliced after every string rewrite of the argument list', r5c),
    Rule('C03.R8', 'per-language argument stores: no shared list object that is modified in place', r8),
    Rule('C03.R4d', 'meson --internal <script>: the script arguments are a tail of the process argv itself', r4d),
    Rule('C03.R8b', 'lists kept by the interpreter are owned: helpers do not hand back their argument list', r8b),
    Rule('C03.R5d', 'generator @OUTPUTn@ loop replaces the text it matched (terminates for every spelling)', r5d),
    Rule('C03.R4e', 'exe wrapper: `--` separates the wrapper options from the wrapped argv', r4e),
    Rule('C03.R9', 'both_libraries: the reuse-objects guard covers the per-library argument keys that are read', r9),
    Rule('C03.R10', 'compiler args: collected positions are deleted from the back', r10),
    Rule('C03.R6', 'newline in an argument forces the pickled wrapper with the unmodified serialisation', r6),
]
